"""c17_ref - reference model of pharmpy workflows, the builder-operation alphabet, the
interpreter that drives the real WorkflowBuilder, and the controlled dask executor used to
enumerate completion orders.

Vocabulary
----------
label      integer naming one task (allocated in creation order by the op interpreter)
kind       'P' plain, no static input           f(*args)
           'S' plain, two static inputs 's<label>', 'r<label>'
           'C' context-first, no static input   f(context, *args)
           'D' context-first, two static inputs
op         ("add", kind, form, preds)      wb.add_task(T, preds)    form: none | one | list
           ("rep", label, kind)            wb.replace_task(old, fresh task of `kind`)
           ("ins", wname, form, preds)     wb.insert_workflow(menu workflow, preds)
           ("plus", wname)                 wb = wb + menu workflow
           ("wplus", wname)                wb = WorkflowBuilder(Workflow(wb) + menu workflow)
           ("ctx",)                        insert_context(wb, U)   (user level)
term       value returned by a task: (label, (arg, arg, ...)); contexts appear as "X" (the
           context given to execute_workflow) or "U" (user-level insert_context)

The model keeps the tasks in *entry order* and the edge set.  The property text leaves open
where a replacement task "enters" (at the place of the task it replaces - reading "P" - or at
the end, as a new task - reading "E"); both readings are carried and either is accepted, but
one reading must explain everything observed for a state.
"""
from __future__ import annotations

import itertools
import re

KINDS = "PSCD"
CTX_KINDS = "CDX"  # X: a function whose only parameter is the context (possible for source tasks only)
STATIC_KINDS = "SD"

# menu of small workflows: list of (kind, preds as indexes into the menu workflow)
MENU = {
    "one": [("C", ())],                              # 1 input, 1 output
    "join": [("C", ()), ("P", ()), ("S", (0, 1))],   # 2 inputs, 1 output
    "fork": [("P", ()), ("C", (0,)), ("P", (0,))],   # 1 input, 2 outputs
    "chain": [("S", ()), ("C", (0,))],               # 1 input, 1 output
    "par": [("P", ()), ("C", ())],                   # 2 inputs, 2 outputs, no edge
}


def static_of(label, kind):
    """Static inputs of a fresh task: two distinguishable values for the static kinds."""
    return ("s%d" % label, "r%d" % label) if kind in STATIC_KINDS else ()


class Refused(Exception):
    """The model says the operation is a documented refusal (ValueError)."""


# ------------------------------------------------------------------------------------ model
class Model:
    """Tasks in entry order + edge set.  `reading` is 'P' (replacement in place) or 'E'
    (replacement enters at the end)."""

    def __init__(self, reading):
        self.reading = reading
        self.order = []
        self.kind = {}
        self.static = {}
        self.edges = set()

    def copy(self):
        m = Model(self.reading)
        m.order = list(self.order)
        m.kind = dict(self.kind)
        m.static = dict(self.static)
        m.edges = set(self.edges)
        return m

    # --- queries
    def preds(self, t):
        ps = [u for (u, v) in self.edges if v == t]
        return sorted(ps, key=self.order.index)

    def sources(self):
        has_in = {v for (_, v) in self.edges}
        return [t for t in self.order if t not in has_in]

    def sinks(self):
        has_out = {u for (u, _) in self.edges}
        return [t for t in self.order if t not in has_out]

    # --- operations
    def _new(self, label, kind):
        self.order.append(label)
        self.kind[label] = kind
        self.static[label] = static_of(label, kind)

    def add(self, label, kind, preds):
        self._new(label, kind)
        for p in preds:
            self.edges.add((p, label))

    def _replace(self, old, new, kind, static):
        i = self.order.index(old)
        if self.reading == "P":
            self.order[i] = new
        else:
            del self.order[i]
            self.order.append(new)
        del self.kind[old]
        del self.static[old]
        self.kind[new] = kind
        self.static[new] = static
        self.edges = {(new if u == old else u, new if v == old else v) for (u, v) in self.edges}

    def rep(self, old, new, kind):
        self._replace(old, new, kind, static_of(new, kind))

    def compose(self, labels, wname):
        spec = MENU[wname]
        for lab, (kind, _) in zip(labels, spec):
            self._new(lab, kind)
        for lab, (_, ps) in zip(labels, spec):
            for p in ps:
                self.edges.add((labels[p], lab))

    def ins(self, labels, wname, preds):
        """preds None = all current sinks.  The tasks are inserted even when the connection
        is refused (the real builder composes first); the caller treats Refused as final."""
        outs = self.sinks() if preds is None else list(preds)
        spec = MENU[wname]
        ins_ = [lab for lab, (_, ps) in zip(labels, spec) if not ps]
        self.compose(labels, wname)
        if len(ins_) == len(outs):
            for i, o in zip(ins_, outs):
                self.edges.add((o, i))
        elif len(ins_) == 1:
            for o in outs:
                self.edges.add((o, ins_[0]))
        elif len(outs) == 1:
            for i in ins_:
                self.edges.add((outs[0], i))
        else:
            raise Refused("N:M")

    def ctx(self, token, move=None):
        """Prepend a context token to the static inputs of every context-first task.
        move=True: the tasks are re-entered at the end (in order); default: by reading."""
        if move is None:
            move = self.reading == "E"
        moved = [t for t in self.order if self.kind[t] in CTX_KINDS]
        for t in moved:
            self.static[t] = (token,) + self.static[t]
        if move:
            self.order = [t for t in self.order if t not in moved] + moved

    # --- evaluation
    def evaluate(self, quirk=False):
        """Sequential evaluation in topological order as execute_workflow(.., context=X) must
        perform it.  Returns (term of the single sink, {label: args})."""
        m = self.copy()
        m.ctx("X", move=True if quirk else False)
        sinks = m.sinks()
        if len(sinks) != 1:
            return None, None
        val = {}
        args_of = {}
        pos = {t: i for i, t in enumerate(m.order)}
        predmap = {t: [] for t in m.order}
        for (u, v) in m.edges:
            predmap[v].append(u)
        done = set()
        pending = list(m.order)
        while pending:  # Kahn, entry order as tie-break (any topological order gives the same terms)
            for t in pending:
                if all(p in done for p in predmap[t]):
                    break
            else:
                return None, None  # cycle: not produced by the alphabet
            pending.remove(t)
            args = tuple(m.static[t]) + tuple(val[p] for p in sorted(predmap[t], key=pos.get))
            args_of[t] = args
            val[t] = (t, args)
            done.add(t)
        return val[sinks[0]], args_of

    def structure(self):
        return (frozenset(self.order), frozenset(self.edges))


# --------------------------------------------------------------------------- op enumeration
def pred_choices(labels, max_preds, forms=("none", "one", "list")):
    """(form, preds) in a fixed order; preds are ordered tuples of distinct labels."""
    out = []
    if "none" in forms:
        out.append(("none", ()))
    if "one" in forms:
        for t in labels:
            out.append(("one", (t,)))
    if "list" in forms:
        for r in range(1, max_preds + 1):
            for ps in itertools.permutations(labels, r):
                out.append(("list", tuple(ps)))
    return out


def next_ops(model, plan, depth):
    """All operations of `plan` applicable in the state described by `model` (a Model; only
    its task order and sinks are used).  Deterministic order."""
    ops = []
    order = list(model.order)
    n = len(order)
    room = plan["max_tasks"] - n
    if "add" in plan["ops"] and room >= 1:
        for kind in plan["kinds"]:
            for form, ps in pred_choices(order, plan["max_preds"]):
                if kind == "X" and (form != "none" or any(st and st[0] == "U" for st in model.static.values())):
                    continue  # the function takes the context only (and only one of them)
                ops.append(("add", kind, form, ps))
    if "add_sinks" in plan["ops"] and room >= 1:
        sinks = tuple(model.sinks())
        for kind in plan["kinds"]:
            ops.append(("add", kind, "none", ()))
            if 1 <= len(sinks) <= 4:
                ops.append(("add", kind, "list", sinks))
                if len(sinks) > 1:
                    ops.append(("add", kind, "list", tuple(reversed(sinks))))
    if "rep" in plan["ops"]:
        for t in order:
            for kind in plan["rep_kinds"]:
                ops.append(("rep", t, kind))
    if "rep_ends" in plan["ops"] and n:
        for t in dict.fromkeys((order[0], order[-1])):
            for kind in plan["rep_kinds"]:
                ops.append(("rep", t, kind))
    if "ins" in plan["ops"]:
        for w in plan["menu"]:
            if len(MENU[w]) > room:
                continue
            for form, ps in pred_choices(order, plan.get("ins_max_preds", 2)):
                ops.append(("ins", w, form, ps))
            if order:
                ops.append(("ins", w, "empty", ()))  # predecessors=[]: an independent branch, not "all current sinks"
    if "ins_none" in plan["ops"]:
        for w in plan["menu"]:
            if len(MENU[w]) <= room:
                ops.append(("ins", w, "none", ()))
    for o in ("plus", "wplus"):
        if o in plan["ops"]:
            for w in plan.get("plus_menu", plan["menu"]):
                if len(MENU[w]) <= room:
                    ops.append((o, w))
    if "ctor" in plan["ops"] and n and room >= 1:
        # WorkflowBuilder(<the current workflow>, tasks=[new task]): same state as add_task(new) on a copy
        for kind in plan["kinds"]:
            ops.append(("ctor", kind))
    # an explicit insert_context followed by execute_workflow(context=...) hands a task two contexts: fine for (context, *args),
    # not callable for a function whose only parameter is the context
    if "ctx" in plan["ops"] and n and not any(model.kind[t] == "X" for t in order):
        ops.append(("ctx",))
    return ops


def op_is_twin(op):
    """The 'one' form (a bare Task instead of a one-element list) must give the same state as
    the list form; it is checked as a transition but its subtree is the list form's."""
    return op[0] in ("add", "ins") and op[2] == "one"


def twin_of(op):
    return (op[0], op[1], "list", op[3])


def fmt_op(op):
    k = op[0]
    if k == "add":
        p = {"none": "", "one": ", t%d" % op[3][0] if op[3] else "", "list": ", [%s]" % ",".join("t%d" % x for x in op[3])}[op[2]]
        return "add_task(%s%s)" % (op[1], p)
    if k == "rep":
        return "replace_task(t%d, %s)" % (op[1], op[2])
    if k == "ins":
        p = {"none": "", "empty": ", []", "one": ", t%d" % op[3][0] if op[3] else "", "list": ", [%s]" % ",".join("t%d" % x for x in op[3])}[op[2]]
        return "insert_workflow(%s%s)" % (op[1], p)
    if k == "ctor":
        return "WorkflowBuilder(Workflow(wb), tasks=[%s])" % op[1]
    if k == "plus":
        return "wb + %s" % op[1]
    if k == "wplus":
        return "Workflow(wb) + %s" % op[1]
    return "insert_context(U)"


def fmt_ops(ops):
    return "; ".join(fmt_op(o) for o in ops)


def fmt_term(t, depth=0):
    if isinstance(t, tuple) and len(t) == 2 and isinstance(t[0], int) and isinstance(t[1], tuple):
        return "t%d(%s)" % (t[0], ", ".join(fmt_term(a, depth + 1) for a in t[1]))
    return repr(t) if not isinstance(t, str) else t


# ------------------------------------------------------------------------- real-code driver
class Env:
    """Call log + the two context objects + task factory (pure test family)."""

    def __init__(self):
        from pharmpy.workflows.contexts import NullContext

        self.X = NullContext("x")
        self.U = NullContext("u")
        self.log = []
        self.fn2lab = {}

    def tok(self, a):
        if a is self.X:
            return "X"
        if a is self.U:
            return "U"
        return a

    def make_task(self, label, kind):
        from pharmpy.workflows import Task

        env = self
        if kind == "X":
            def fn(context):
                targs = (env.tok(context),)
                env.log.append((label, targs))
                return (label, targs)
        elif kind in CTX_KINDS:
            def fn(context, *args):
                targs = (env.tok(context),) + tuple(env.tok(a) for a in args)
                env.log.append((label, targs))
                return (label, targs)
        else:
            def fn(*args):
                targs = tuple(env.tok(a) for a in args)
                env.log.append((label, targs))
                return (label, targs)
        self.fn2lab[fn] = label
        static = static_of(label, kind)
        # names deliberately collide (pharmpy workflows contain many tasks called e.g. "run")
        return Task("n" + kind, fn, *static)


class Impl:
    """Interprets ops on the real WorkflowBuilder."""

    def __init__(self, env):
        from pharmpy.workflows import WorkflowBuilder

        self.env = env
        self.wb = WorkflowBuilder(name="w")

    def label(self, task):
        return self.env.fn2lab.get(task.function)

    def task_of(self):
        return {self.label(t): t for t in self.wb.tasks}

    def menu_workflow(self, labels, wname):
        from pharmpy.workflows import Workflow, WorkflowBuilder

        wb = WorkflowBuilder(name=wname)
        ts = []
        for lab, (kind, ps) in zip(labels, MENU[wname]):
            t = self.env.make_task(lab, kind)
            ts.append(t)
            wb.add_task(t, [ts[p] for p in ps] if ps else None)
        return Workflow(wb)

    def apply(self, op, labels):
        """labels: fresh labels for tasks created by this op."""
        from pharmpy.workflows import Workflow, WorkflowBuilder
        from pharmpy.workflows.workflow import insert_context

        k = op[0]
        cur = self.task_of()

        def pr(form, ps):
            if form == "none":
                return None
            if form == "empty":
                return []
            if form == "one":
                return cur[ps[0]]
            return [cur[p] for p in ps]

        if k == "add":
            self.wb.add_task(self.env.make_task(labels[0], op[1]), pr(op[2], op[3]))
        elif k == "rep":
            self.wb.replace_task(cur[op[1]], self.env.make_task(labels[0], op[2]))
        elif k == "ins":
            self.wb.insert_workflow(self.menu_workflow(labels, op[1]), pr(op[2], op[3]))
        elif k == "ctor":
            self.wb = WorkflowBuilder(Workflow(self.wb), tasks=[self.env.make_task(labels[0], op[1])])
        elif k == "plus":
            self.wb = self.wb + self.menu_workflow(labels, op[1])
        elif k == "wplus":
            self.wb = WorkflowBuilder(Workflow(self.wb) + self.menu_workflow(labels, op[1]))
        elif k == "ctx":
            insert_context(self.wb, self.env.U)
        else:
            raise ValueError(k)

    def structure(self):
        """(labels, edges) through the public query API; also cross-checks the queries."""
        wb = self.wb
        tasks = wb.tasks
        labs = [self.label(t) for t in tasks]
        edges = set()
        edges2 = set()
        for t in tasks:
            for p in wb.get_predecessors(t):
                edges.add((self.label(p), self.label(t)))
            for s in wb.get_successors(t):
                edges2.add((self.label(t), self.label(s)))
        return labs, edges, edges2

    def statics(self):
        return {self.label(t): tuple(self.env.tok(a) for a in t.task_input) for t in self.wb.tasks}


def n_new_labels(op):
    k = op[0]
    if k in ("add", "rep", "ctor"):
        return 1
    if k in ("ins", "plus", "wplus"):
        return len(MENU[op[1]])
    return 0


def model_apply(m, op, labels):
    k = op[0]
    if k == "add":
        m.add(labels[0], op[1], op[3])
    elif k == "ctor":
        m.add(labels[0], op[1], ())
    elif k == "rep":
        m.rep(op[1], labels[0], op[2])
    elif k == "ins":
        m.ins(labels, op[1], None if op[2] == "none" else op[3])
    elif k in ("plus", "wplus"):
        m.compose(labels, op[1])
    elif k == "ctx":
        m.ctx("U")
    else:
        raise ValueError(k)


# ------------------------------------------------------------------ controlled dask executor
_UUID = re.compile(r"[0-9a-f]{8}-[0-9a-f]{4}-[0-9a-f]{4}-[0-9a-f]{4}-[0-9a-f]{12}")
_ADDR = re.compile(r" at 0x[0-9a-f]+")


def scrub(text):
    """Remove run-dependent parts (uuid keys, object addresses) from messages."""
    return " ".join(_ADDR.sub("", _UUID.sub("<uuid>", text)).split())


class Stuck(Exception):
    """The dask loop waits for a result while no job is outstanding."""


class ParkExecutor:
    """`submit` parks the job; `step` (called from the wrapped dask.local.queue_get whenever
    the scheduler loop is about to wait) completes one parked job synchronously, chosen by the
    choice sequence.  Parked jobs are ordered by task label so that a choice index means the
    same thing in every run (dask's own tie-breaks depend on random uuid keys)."""

    def __init__(self, max_workers, prefix, key_label):
        self._max_workers = max_workers
        self.prefix = tuple(prefix)
        self.parked = []
        self.points = []   # number of parked jobs at every step
        self.choices = []
        self.key_label = key_label  # callable: submit args -> sortable task label

    def submit(self, fn, *args, **kwargs):
        from concurrent.futures import Future

        fut = Future()
        self.parked.append((self.key_label(args), len(self.parked), fut, fn, args, kwargs))
        return fut

    def step(self):
        self.parked.sort(key=lambda j: (j[0], j[1]))
        i = len(self.points)
        n = len(self.parked)
        c = self.prefix[i] if i < len(self.prefix) else 0
        if c >= n:
            c = 0
        self.points.append(n)
        self.choices.append(c)
        _, _, fut, fn, args, kwargs = self.parked.pop(c)
        try:
            fut.set_result(fn(*args, **kwargs))
        except BaseException as e:  # dask packs task errors itself; this is for the batch fn
            fut.set_exception(e)


_current = [None]
_orig_queue_get = [None]


def install():
    import dask.local

    if _orig_queue_get[0] is not None:
        return
    orig = dask.local.queue_get
    _orig_queue_get[0] = orig

    def queue_get(q):
        ex = _current[0]
        if ex is not None and q.empty():
            if not ex.parked:
                raise Stuck("dask scheduler loop waits but no job is outstanding")
            ex.step()
        return orig(q)

    dask.local.queue_get = queue_get


def uninstall():
    import dask.local

    if _orig_queue_get[0] is not None:
        dask.local.queue_get = _orig_queue_get[0]
        _orig_queue_get[0] = None


def run_controlled(thunk, prefix, max_workers, key_label):
    """Run thunk() (which calls execute_workflow) with the parked executor.
    Returns (result or exception, points, choices)."""
    import dask

    ex = ParkExecutor(max_workers, prefix, key_label)
    _current[0] = ex
    try:
        with dask.config.set(pool=ex):
            try:
                res = ("ok", thunk())
            except BaseException as e:  # noqa: BLE001 - reported as an observation
                if isinstance(e, (KeyboardInterrupt, SystemExit)):
                    raise
                res = ("exc", "%s: %s" % (type(e).__name__, scrub(str(e))[:200]))
    finally:
        _current[0] = None
    return res, ex.points, ex.choices


def explore_orders(run_one, max_dev, cap):
    """DFS over choice sequences.  run_one(prefix) -> points (list of branching widths).
    Yields nothing; run_one does the checking.  Returns (executions, capped).
    max_dev = None: all completion orders; else only sequences with <= max_dev non-zero
    choices (deviations from 'lowest label completes first')."""
    stack = [()]
    n = 0
    capped = False
    while stack:
        prefix = stack.pop()
        points = run_one(prefix)
        n += 1
        if cap is not None and n >= cap and stack:
            capped = True
            break
        base_dev = sum(1 for c in prefix if c)
        if max_dev is not None and base_dev >= max_dev:
            continue
        for i in range(len(points) - 1, len(prefix) - 1, -1):
            for c in range(points[i] - 1, 0, -1):
                stack.append(prefix + (0,) * (i - len(prefix)) + (c,))
    return n, capped


# ------------------------------------------- the distributed branch without a cluster
class _FakeClient:
    """client.scatter(value) -> the value itself (a resolved Future is the value)."""

    def scatter(self, value, **kwargs):
        return value


class FakeDistributedDispatcher:
    """What dispatchers/local_dask/run.py does on its distributed branch (as_dask_dict ->
    optimize_task_graph_for_dask_distributed -> get 'results'), with a synchronous dask get
    instead of a LocalCluster.  Exercises optimize.py (scatter recursion + fuse)."""

    @staticmethod
    def run(workflow, context):
        import dask.local
        from pharmpy.workflows.dispatchers.local_dask.optimize import optimize_task_graph_for_dask_distributed

        dsk = workflow.as_dask_dict()
        opt = optimize_task_graph_for_dask_distributed(_FakeClient(), dsk)
        return dask.local.get_sync(opt, "results")
