"""Reference model for C18 (search spaces: MFL descriptions, space algebra, enumeration).

Nothing in this module calls pharmpy.  A *description* is a list of statement descriptors
(plain JSON-able lists); `render` turns it into MFL text, `meaning` gives its explicit
expansion: a dict  category -> frozenset of feature keys  (the keys have the shape of the
documented feature tuples, e.g. ('TRANSITS', 2, 'NODEPOT')).

Statement descriptors
    ["ABSORPTION", modes]      modes = ["names", [..]] | ["wild"]
    ["ELIMINATION", modes] ["LAGTIME", modes] ["DIRECTEFFECT", modes] ["EFFECTCOMP", modes]
    ["METABOLITE", modes]
    ["TRANSITS", counts, depot]    counts = ["n", 2] | ["range", a, b] | ["list", [..]]
                                   depot  = None | ["names", [..]] | ["wild"]
    ["PERIPHERALS", counts, modes] modes  = None | ["names", [..]] | ["wild"]
    ["INDIRECTEFFECT", modes, prod]
    ["COVARIATE", optional, params, covs, fp, op]
                                   params/covs = ["vals", [..]] | ["ref", NAME]
                                   fp = ["names", [..]] | ["wild"];  op = None | "+" | "*"
    ["LET", NAME, [values]]
    ["ALLOMETRY", cov, ref_or_None]
"""
from __future__ import annotations

import itertools

WILD = {
    "ABSORPTION": ["FO", "ZO", "SEQ-ZO-FO", "INST"],
    "ELIMINATION": ["FO", "ZO", "MM", "MIX-FO-MM"],
    "LAGTIME": ["ON", "OFF"],
    "DIRECTEFFECT": ["LINEAR", "EMAX", "SIGMOID"],
    "EFFECTCOMP": ["LINEAR", "EMAX", "SIGMOID"],
    "METABOLITE": ["PSC", "BASIC"],
    "DEPOT": ["DEPOT", "NODEPOT"],
    "PMODES": ["DRUG", "MET"],
    "PRODUCTION": ["DEGRADATION", "PRODUCTION"],
    "FP": ["LIN", "PIECE_LIN", "EXP", "POW"],  # '*' = all continuous effects
}
KEYNAME = {"ABSORPTION": "ABSORPTION", "ELIMINATION": "ELIMINATION", "LAGTIME": "LAGTIME",
           "DIRECTEFFECT": "DIRECT", "EFFECTCOMP": "EFFECTCOMP", "METABOLITE": "METABOLITE"}
SIMPLE = tuple(KEYNAME)
PK_KINDS = ("ABSORPTION", "ELIMINATION", "TRANSITS", "PERIPHERALS", "LAGTIME", "METABOLITE")
# documented defaults (docs/modelsearch.rst)
DEFAULTS = {
    "ABSORPTION": ("ABSORPTION", "INST"),
    "ELIMINATION": ("ELIMINATION", "FO"),
    "TRANSITS": ("TRANSITS", 0, "DEPOT"),
    "PERIPHERALS": ("PERIPHERALS", 0),
    "LAGTIME": ("LAGTIME", "OFF"),
}
PK_CATS = ("ABSORPTION", "ELIMINATION", "TRANSITS", "PERIPHERALS", "LAGTIME")
ALL_CATS = PK_CATS + ("PERIPHERALS_MET", "COVARIATE", "DIRECT", "EFFECTCOMP", "INDIRECT", "METABOLITE")


def cat_of(key):
    if key[0] == "PERIPHERALS" and len(key) == 3:
        return "PERIPHERALS_MET"
    return key[0]


# ----------------------------------------------------------------------------- rendering
def _names(opt, wildname, style):
    if opt[0] == "wild":
        return "*"
    vals = [v.lower() if style.get("lower") else v for v in opt[1]]
    sep = ", " if style.get("space") else ","
    if len(vals) == 1 and not style.get("bracket1"):
        return vals[0]
    return "[" + sep.join(vals) + "]"


def _vals(opt, style):
    if opt[0] == "ref":
        return "@" + opt[1]
    vals = list(opt[1])
    sep = ", " if style.get("space") else ","
    if len(vals) == 1 and not style.get("bracket1"):
        return vals[0]
    return "[" + sep.join(vals) + "]"


def _counts(c, style):
    sep = ", " if style.get("space") else ","
    if c[0] == "n":
        return str(c[1])
    if c[0] == "range":
        return f"{c[1]}..{c[2]}"
    return "[" + sep.join(str(x) for x in c[1]) + "]"


def render_statement(st, style):
    kind = st[0]
    kw = kind.lower() if style.get("lower") else kind
    sep = ", " if style.get("space") else ","
    if kind in SIMPLE:
        return f"{kw}({_names(st[1], kind, style)})"
    if kind in ("TRANSITS", "PERIPHERALS"):
        s = _counts(st[1], style)
        if st[2] is not None:
            s += sep + _names(st[2], None, style)
        return f"{kw}({s})"
    if kind == "INDIRECTEFFECT":
        # the production option is a single name or '*' in the grammar (never a list)
        prod = "*" if st[2][0] == "wild" else (st[2][1][0].lower() if style.get("lower") else st[2][1][0])
        return f"{kw}({_names(st[1], kind, style)}{sep}{prod})"
    if kind == "COVARIATE":
        _, optional, params, covs, fp, op = st
        s = kw + ("?" if optional else "") + "("
        s += _vals(params, style) + sep + _vals(covs, style) + sep + _names(fp, "FP", style)
        if op is not None:
            s += sep + op
        return s + ")"
    if kind == "LET":
        kwl = "let" if style.get("lower") else "LET"
        return f"{kwl}({st[1]}{sep}{_vals(['vals', st[2]], style)})"
    if kind == "ALLOMETRY":
        s = f"{kw}({st[1]}"
        if st[2] is not None:
            s += sep + str(st[2])
        return s + ")"
    raise ValueError(kind)


STYLES = [
    {"sep": ";"},
    {"sep": "\n", "lower": True, "space": True, "bracket1": True},
]


def render(desc, style):
    return style["sep"].join(render_statement(st, style) for st in desc)


# ----------------------------------------------------------------------------- meaning
def _nm(opt, wildname):
    return list(WILD[wildname]) if opt[0] == "wild" else list(opt[1])


def _cnt(c):
    if c[0] == "n":
        return [c[1]]
    if c[0] == "range":
        return list(range(c[1], c[2] + 1))
    return list(c[1])


class Meaning:
    """cats: category -> frozenset(keys); unspecified: categories the documentation does not
    determine (compared with nothing); unresolved: the description refers to a symbol that only a
    model can define; allometry: list of (cov, ref)"""

    def __init__(self):
        self.cats = {}
        self.unspecified = set()
        self.unresolved = False
        self.allometry = []
        self.let_dup = False
        self.has_pk = False
        self.forced_twice = False  # one (parameter, covariate) effect forced by two statements

    def keys(self):
        out = set()
        for v in self.cats.values():
            out |= v
        return out

    def ncombos(self):
        n = 1
        for c, v in self.cats.items():
            if c == "COVARIATE":
                n *= 2 ** len({k[:5] for k in v if k[5] == "REMOVE"})
            elif v:
                n *= len(v)
        return n


def meaning(desc):
    m = Meaning()
    cats = {c: set() for c in ALL_CATS}
    lets = {}
    for st in desc:
        if st[0] == "LET":
            if st[1] in lets:
                m.let_dup = True
            lets[st[1]] = list(st[2])
    seen_kinds = {st[0] for st in desc}
    forced = set()
    for st in desc:
        kind = st[0]
        if kind in SIMPLE:
            for n in _nm(st[1], kind):
                cats[KEYNAME[kind]].add((KEYNAME[kind], n))
        elif kind == "TRANSITS":
            depots = ["DEPOT"] if st[2] is None else _nm(st[2], "DEPOT")
            for n in _cnt(st[1]):
                for d in depots:
                    cats["TRANSITS"].add(("TRANSITS", n, d))
        elif kind == "PERIPHERALS":
            modes = ["DRUG"] if st[2] is None else _nm(st[2], "PMODES")
            for n in _cnt(st[1]):
                for md in modes:
                    if md == "DRUG":
                        cats["PERIPHERALS"].add(("PERIPHERALS", n))
                    else:
                        cats["PERIPHERALS_MET"].add(("PERIPHERALS", n, "METABOLITE"))
        elif kind == "INDIRECTEFFECT":
            for a in _nm(st[1], "DIRECTEFFECT"):
                for p in _nm(st[2], "PRODUCTION"):
                    cats["INDIRECT"].add(("INDIRECT", a, p))
        elif kind == "COVARIATE":
            _, optional, params, covs, fp, op = st
            ps = cs = None
            if params[0] == "ref":
                ps = lets.get(params[1])
            else:
                ps = list(params[1])
            if covs[0] == "ref":
                cs = lets.get(covs[1])
            else:
                cs = list(covs[1])
            if ps is None or cs is None:
                m.unresolved = True
                continue
            if not optional:
                pc = {(p, c) for p in ps for c in cs}
                if pc & forced:
                    m.forced_twice = True
                forced |= pc
            for p in ps:
                for c in cs:
                    for f in _nm(fp, "FP"):
                        base = ("COVARIATE", p, c, f.lower(), op or "*")
                        cats["COVARIATE"].add(base + ("ADD",))
                        if optional:
                            cats["COVARIATE"].add(base + ("REMOVE",))
        elif kind == "ALLOMETRY":
            m.allometry.append((st[1], 70.0 if st[2] is None else float(st[2])))
    if seen_kinds & set(PK_KINDS):
        m.has_pk = True
        for c in PK_CATS:
            if not cats[c]:
                if c == "PERIPHERALS" and "PERIPHERALS" in seen_kinds:
                    # only metabolite peripherals were described: the default for the drug
                    # compartment is not determined by the documentation
                    m.unspecified.add(c)
                else:
                    cats[c].add(DEFAULTS[c])
    m.cats = {c: frozenset(v) for c, v in cats.items()}
    return m


# ----------------------------------------------------------------------------- menus
def N(*names):
    return ["names", list(names)]


W = ["wild"]


def statement_menu(size):
    """size: 'small' (~40), 'medium' (~75), 'full' (~115)"""
    out = []
    full = size == "full"
    med = size in ("medium", "full")
    # ABSORPTION
    out += [["ABSORPTION", N("FO")], ["ABSORPTION", N("ZO", "FO")], ["ABSORPTION", W], ["ABSORPTION", N("INST")]]
    if med:
        out += [["ABSORPTION", N("SEQ-ZO-FO")], ["ABSORPTION", N("INST", "FO", "ZO", "SEQ-ZO-FO")]]
    if full:
        out += [["ABSORPTION", N("ZO")], ["ABSORPTION", N("FO", "FO")]]
    # ELIMINATION
    out += [["ELIMINATION", N("MM")], ["ELIMINATION", N("FO", "MM")], ["ELIMINATION", W]]
    if med:
        out += [["ELIMINATION", N("FO")], ["ELIMINATION", N("MIX-FO-MM", "ZO")]]
    if full:
        out += [["ELIMINATION", N("ZO")], ["ELIMINATION", N("MM", "MIX-FO-MM", "ZO", "FO")]]
    # LAGTIME
    out += [["LAGTIME", N("ON")], ["LAGTIME", W]]
    if med:
        out += [["LAGTIME", N("OFF")], ["LAGTIME", N("OFF", "ON")]]
    # TRANSITS
    tc_small = [["n", 1], ["range", 1, 3], ["list", [0, 2]], ["list", [1, 5, 3]]]
    tc_med = tc_small + [["n", 0], ["list", [3, 1, 2]]]
    tc_full = tc_med + [["n", 3], ["range", 0, 2], ["list", [1, 3]]]
    dp_small = [None, N("NODEPOT"), W]
    dp_med = dp_small + [N("DEPOT", "NODEPOT")]
    dp_full = dp_med + [N("DEPOT")]
    tcs, dps = (tc_full, dp_full) if full else (tc_med, dp_med) if med else (tc_small, dp_small)
    for c in tcs:
        for d in dps:
            out.append(["TRANSITS", c, d])
    # PERIPHERALS
    pc_small = [["n", 1], ["range", 0, 2], ["list", [2, 0]], ["list", [0, 3, 2]]]
    pc_med = pc_small + [["n", 0], ["list", [1, 2]]]
    pc_full = pc_med + [["n", 2], ["range", 1, 3], ["list", [3, 1, 2]]]
    pm_small = [None, N("MET"), W]
    pm_med = pm_small + [N("DRUG", "MET")]
    pm_full = pm_med + [N("DRUG")]
    pcs, pms = (pc_full, pm_full) if full else (pc_med, pm_med) if med else (pc_small, pm_small)
    for c in pcs:
        for d in pms:
            out.append(["PERIPHERALS", c, d])
    # PD
    out += [["DIRECTEFFECT", N("LINEAR")], ["DIRECTEFFECT", W], ["EFFECTCOMP", N("EMAX", "LINEAR")]]
    if med:
        out += [["DIRECTEFFECT", N("EMAX", "SIGMOID")], ["EFFECTCOMP", W], ["EFFECTCOMP", N("SIGMOID")]]
    if full:
        out += [["DIRECTEFFECT", N("SIGMOID")], ["EFFECTCOMP", N("LINEAR")]]
    out += [["INDIRECTEFFECT", N("LINEAR"), N("PRODUCTION")], ["INDIRECTEFFECT", W, W],
            ["INDIRECTEFFECT", N("EMAX", "LINEAR"), N("DEGRADATION")]]
    if med:
        out += [["INDIRECTEFFECT", N("EMAX"), W], ["INDIRECTEFFECT", W, N("PRODUCTION")]]
    if full:
        out += [["INDIRECTEFFECT", N("SIGMOID"), N("DEGRADATION")], ["INDIRECTEFFECT", N("LINEAR", "SIGMOID"), W]]
    out += [["METABOLITE", N("PSC")], ["METABOLITE", W]]
    if med:
        out += [["METABOLITE", N("BASIC")], ["METABOLITE", N("BASIC", "PSC")]]
    # COVARIATE / LET
    V = lambda *a: ["vals", list(a)]  # noqa: E731
    R = lambda n: ["ref", n]  # noqa: E731
    out += [
        ["COVARIATE", True, V("CL"), V("WGT"), N("EXP"), None],
        ["COVARIATE", False, V("CL"), V("WGT"), N("EXP"), None],
        ["COVARIATE", True, V("CL", "V"), V("WGT", "AGE"), W, None],
        ["COVARIATE", True, R("X"), V("WGT"), N("EXP", "POW"), "+"],
        ["COVARIATE", False, V("V"), R("C"), N("CAT"), "*"],
        ["LET", "X", ["CL", "V"]],
        ["LET", "C", ["WGT", "SEX"]],
    ]
    if med:
        out += [
            ["COVARIATE", False, V("CL", "V"), V("AGE"), N("LIN", "POW"), "+"],
            ["COVARIATE", True, V("V"), V("WGT"), N("EXP"), "*"],
            ["COVARIATE", True, R("X"), R("C"), N("PIECE_LIN"), None],
            ["COVARIATE", False, V("CL"), V("WGT"), W, None],  # documented refusal
            ["LET", "X", ["MAT"]],
            ["ALLOMETRY", "WGT", 70],
        ]
    if full:
        out += [
            ["COVARIATE", True, V("CL"), V("WGT"), N("POW"), None],
            ["COVARIATE", False, V("MAT"), V("SEX"), N("CAT2", "CAT"), None],
            ["COVARIATE", True, V("CL"), V("WGT"), N("EXP"), "+"],
            ["COVARIATE", False, R("X"), V("AGE"), N("CUSTOM"), None],
            ["ALLOMETRY", "WGT", None],
            ["ALLOMETRY", "WT", 1.5],
        ]
    return out


# ----------------------------------------------------------------------------- algebra on meanings
def cov_effects(keys):
    """covariate keys -> dict effect(p,c,fp,op) -> optional(bool)"""
    eff = {}
    for k in keys:
        e = k[1:5]
        if k[5] == "REMOVE":
            eff[e] = True
        else:
            eff.setdefault(e, False)
    return eff


def ref_union(ma, mb):
    return {c: ma.cats[c] | mb.cats[c] for c in ALL_CATS}


def ref_lnt_distance(ma, mb, cats):
    """number of categories in which the two spaces share no feature"""
    return [c for c in cats if not (ma.cats[c] & mb.cats[c])]


def brute_hamming(ma, mb, cats):
    """min over explicit combinations of a and b of the number of differing categories"""
    la = [sorted(ma.cats[c]) for c in cats]
    lb = [sorted(mb.cats[c]) for c in cats]
    best = None
    for x in itertools.product(*la):
        for y in itertools.product(*lb):
            d = sum(1 for p, q in zip(x, y) if p != q)
            if best is None or d < best:
                best = d
                if best == 0:
                    return 0
    return best


# ----------------------------------------------------------------------------- sets
def bell(n):
    row = [1]
    for _ in range(n):
        new = [row[-1]]
        for x in row:
            new.append(new[-1] + x)
        row = new
    return row[0]


def set_partitions(elems):
    """all set partitions as frozenset of frozensets (restricted growth strings)"""
    elems = list(elems)
    n = len(elems)
    out = []

    def rec(i, assign, nblocks):
        if i == n:
            blocks = [[] for _ in range(nblocks)]
            for e, b in zip(elems, assign):
                blocks[b].append(e)
            out.append(frozenset(frozenset(b) for b in blocks))
            return
        for b in range(nblocks + 1):
            rec(i + 1, assign + [b], max(nblocks, b + 1))

    rec(0, [], 0)
    return out


def powerset(elems, lo=0, hi=None):
    elems = list(elems)
    hi = len(elems) if hi is None else hi
    out = []
    for r in range(lo, hi + 1):
        out.extend(itertools.combinations(elems, r))
    return out


# ----------------------------------------------------------------------------- stepwise rules
# docs/modelsearch.rst "Feature combination exclusions" (prefixes of feature keys)
EXCLUDED = [
    (("ABSORPTION", "ZO"), ("TRANSITS",)),
    (("ABSORPTION", "SEQ-ZO-FO"), ("TRANSITS",)),
    (("ABSORPTION", "SEQ-ZO-FO"), ("LAGTIME", "ON")),
    (("ABSORPTION", "INST"), ("LAGTIME", "ON")),
    (("ABSORPTION", "INST"), ("TRANSITS",)),
    (("LAGTIME", "ON"), ("TRANSITS",)),
]


def _pref(key, p):
    return tuple(key[: len(p)]) == tuple(p)


def excluded_pair(f, g):
    for a, b in EXCLUDED:
        if (_pref(f, a) and _pref(g, b)) or (_pref(f, b) and _pref(g, a)):
            return True
    return False


def optional_feature(f, prev):
    """combinations the code skips as 'equivalent to another feature' - the documentation neither
    demands nor forbids them: such paths may be absent but not duplicated"""
    if tuple(f) == ("TRANSITS", 0, "NODEPOT"):
        return True
    for g in list(prev):
        pair = {tuple(f), tuple(g)}
        if pair == {("ABSORPTION", "FO"), ("TRANSITS", 1, "NODEPOT")}:
            return True
    return False


def step_allowed(prev, f, all_keys):
    """documented rules: one feature per category on a path, peripherals one at a time in increasing
    order starting from the smallest, the documented excluded pairs never together"""
    if f in prev:
        return False
    if f[0] == "PERIPHERALS":
        ns = sorted(k[1] for k in all_keys if k[0] == "PERIPHERALS")
        pp = [g[1] for g in prev if g[0] == "PERIPHERALS"]
        if not pp:
            return f[1] == ns[0]
        nxt = [n for n in ns if n > max(pp)]
        return bool(nxt) and f[1] == nxt[0]
    if any(g[0] == f[0] for g in prev):
        return False
    return not any(excluded_pair(f, g) for g in prev)


def stepwise_paths(all_keys, cap):
    """(required paths, optional paths) as sets of tuples of keys; None if more than cap"""
    keys = sorted(all_keys)
    req, opt = set(), set()
    count = [0]

    def rec(prev, is_opt):
        for f in keys:
            if not step_allowed(prev, f, keys):
                continue
            o = is_opt or optional_feature(f, prev)
            p = prev + (f,)
            (opt if o else req).add(p)
            count[0] += 1
            if count[0] > cap:
                raise OverflowError
            rec(p, o)

    try:
        rec((), False)
    except OverflowError:
        return None
    return req, opt


def reduced_pairs(all_keys, cap):
    """reduced stepwise: (required, optional) sets of (frozenset(previous features), feature)"""
    keys = sorted(all_keys)
    req, opt = set(), set()
    layer = {frozenset(): False}  # reachable feature set -> reached only via optional steps
    n = 0
    while layer:
        nxt = {}
        for S, is_opt in sorted(layer.items(), key=lambda kv: sorted(kv[0])):
            prev = tuple(sorted(S))
            for f in keys:
                if not step_allowed(prev, f, keys):
                    continue
                o = is_opt or optional_feature(f, prev)
                (opt if o else req).add((S, f))
                n += 1
                if n > cap:
                    return None
                S2 = S | {f}
                nxt[S2] = nxt.get(S2, True) and o
        layer = nxt
    opt -= req
    return req, opt


def exhaustive_combos(all_keys):
    """every selection of at most one feature per category, except the empty one"""
    groups = {}
    for k in sorted(all_keys):
        groups.setdefault(k[0], []).append(k)
    out = set()
    for t in itertools.product(*[[None] + g for g in groups.values()]):
        c = frozenset(x for x in t if x is not None)
        if c:
            out.add(c)
    return out
