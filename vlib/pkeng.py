"""pkeng - numeric PREDPP-style event engine shared by the two evaluators (nmref, ireval).

It knows nothing about pharmpy or NM-TRAN text.  Callers give, per record, a `SysVals` object
(rate matrix or rhs closure for the interval ending at that record) and a list of dose
descriptions for dose records.  Semantics: see DESIGN.md section B.
"""
from __future__ import annotations

import math

import numpy as np
from scipy.linalg import expm


class SysVals:
    """System valid for the interval that ends at the current record."""

    def __init__(self, n, M=None, u=None, rhs=None):
        self.n = n
        self.M = M  # (n,n) array: M[j,i] rate i->j, M[i,i] = -sum outflows    (linear case)
        self.u = u if u is not None else np.zeros(n)  # constant zero-order inputs
        self.rhs = rhs  # callable (t, a) -> da/dt        (non-linear case; includes inputs)


class Dose:
    __slots__ = ("cmt", "amt", "rate", "dur", "lag", "F")

    def __init__(self, cmt, amt, rate=None, dur=None, lag=0.0, F=1.0):
        self.cmt = cmt  # 0-based compartment index
        self.amt = amt
        self.rate = rate  # infusion with fixed rate   (duration = F*amt/rate)
        self.dur = dur  # infusion with fixed duration (rate = F*amt/dur)
        self.lag = lag
        self.F = F


def _advance_linear(a, M, u, dt):
    n = len(a)
    if dt <= 0:
        return a
    if not np.any(u):
        return expm(M * dt) @ a
    # augmented system for constant input
    B = np.zeros((n + 1, n + 1))
    B[:n, :n] = M
    B[:n, n] = u
    x = np.concatenate([a, [1.0]])
    return (expm(B * dt) @ x)[:n]


def _advance(a, sysv, infus, t0, t1):
    """advance amounts from t0 to t1 with constant active infusion rates `infus` (array)"""
    if t1 <= t0:
        return a
    if sysv.rhs is None:
        return _advance_linear(a, sysv.M, sysv.u + infus, t1 - t0)
    from scipy.integrate import solve_ivp

    def f(t, y):
        return np.asarray(sysv.rhs(t, y), dtype=float) + infus

    sol = solve_ivp(f, (t0, t1), a, method="LSODA", rtol=1e-10, atol=1e-12)
    if not sol.success:
        raise ArithmeticError("ode solver failed: " + str(sol.message))
    return sol.y[:, -1]


def run_individual(records, n, get_sys, get_doses, is_reset=None):
    """records: list of dicts with at least TIME (float).
    get_sys(k, rec)   -> SysVals for the interval ending at record k
    get_doses(k, rec) -> list[Dose] administered by record k (already expanded for ADDL by caller if
                          wanted; this engine expands rec['ADDL'], rec['II'] itself when present)
    Returns list of amount vectors (np arrays) valid AT each record (after the record's own bolus dose,
    if its lag is zero)."""
    a = np.zeros(n)
    tprev = None
    pending = []  # (time, seq, kind, payload)  kind: 'bolus' (cmt, amount) | 'start' (cmt, rate, end) | 'stop' (cmt, rate)
    seq = 0
    infus = np.zeros(n)
    out = []
    for k, rec in enumerate(records):
        t = float(rec["TIME"])
        if is_reset is not None and is_reset(rec):
            a = np.zeros(n)
            pending = []
            infus = np.zeros(n)
            tprev = t
        if tprev is None:
            tprev = t
        sysv = get_sys(k, rec)
        # process pending events up to and including t
        pending.sort(key=lambda e: (e[0], e[1]))
        while pending and pending[0][0] <= t + 1e-12:
            et, _, kind, payload = pending.pop(0)
            et = max(et, tprev)
            a = _advance(a, sysv, infus, tprev, et)
            tprev = et
            if kind == "bolus":
                cmt, amount = payload
                a = a.copy()
                a[cmt] += amount
            elif kind == "start":
                cmt, rate, end = payload
                infus = infus.copy()
                infus[cmt] += rate
                pending.append((end, seq, "stop", (cmt, rate)))
                seq += 1
                pending.sort(key=lambda e: (e[0], e[1]))
            elif kind == "stop":
                cmt, rate = payload
                infus = infus.copy()
                infus[cmt] -= rate
                if abs(infus[cmt]) < 1e-14:
                    infus[cmt] = 0.0
        a = _advance(a, sysv, infus, tprev, t)
        tprev = t
        for d in get_doses(k, rec):
            nrep = 1 + int(rec.get("ADDL", 0) or 0)
            ii = float(rec.get("II", 0) or 0)
            for j in range(nrep):
                t0 = t + j * ii + d.lag
                if d.rate is None and d.dur is None:
                    ev = (t0, seq, "bolus", (d.cmt, d.F * d.amt))
                else:
                    if d.rate is not None:
                        rate = d.rate
                        dur = d.F * d.amt / rate
                    else:
                        dur = d.dur
                        rate = d.F * d.amt / dur
                    if not (math.isfinite(rate) and math.isfinite(dur)) or dur <= 0:
                        raise ArithmeticError("bad infusion")
                    ev = (t0, seq, "start", (d.cmt, rate, t0 + dur))
                seq += 1
                pending.append(ev)
        # doses without lag at this very time take effect now
        pending.sort(key=lambda e: (e[0], e[1]))
        while pending and pending[0][0] <= t + 1e-12:
            et, _, kind, payload = pending.pop(0)
            if kind == "bolus":
                cmt, amount = payload
                a = a.copy()
                a[cmt] += amount
            elif kind == "start":
                cmt, rate, end = payload
                infus = infus.copy()
                infus[cmt] += rate
                pending.append((end, seq, "stop", (cmt, rate)))
                seq += 1
                pending.sort(key=lambda e: (e[0], e[1]))
            elif kind == "stop":
                cmt, rate = payload
                infus = infus.copy()
                infus[cmt] -= rate
        out.append(a.copy())
    return out
