"""Reference model for C14: event datasets and their record-by-record semantics.

Pure Python (no pandas, no pharmpy).  A dataset is a list of record dicts in record order; a
*layout* names the columns that exist.  Every derivation is computed by a per-individual walk
over the records in the order they are recorded.

Where the property text (and the documentation of the function) does not fix a value, the
reference returns a *set* of acceptable values (or None = "not compared").
"""
from __future__ import annotations

# ----------------------------------------------------------------------------- layouts
# column name -> ColumnInfo keyword arguments (the "proper column types")
COLTYPES = {
    "ID": dict(type="id", scale="nominal", datatype="int64"),
    "TIME": dict(type="idv", scale="ratio"),
    "AMT": dict(type="dose", scale="ratio"),
    "DV": dict(type="dv"),
    "MDV": dict(type="mdv", scale="nominal", datatype="int64"),
    "EVID": dict(type="event", scale="nominal", datatype="int64"),
    "CMT": dict(type="compartment", scale="nominal", datatype="int64"),
    "ADMID": dict(type="admid", scale="nominal", datatype="int64"),
    "RATE": dict(type="rate", scale="ratio"),
    "ADDL": dict(type="additional", scale="ratio", datatype="int64"),
    "II": dict(type="ii", scale="ratio"),
    "SS": dict(type="ss", scale="nominal", datatype="int64"),
    "WGT": dict(type="covariate", scale="ratio"),
    "TVC": dict(type="covariate", scale="ratio"),
    "RN": dict(type="unknown", scale="ratio"),
    # dropped decoy columns: DataInfo.typeix must not select them
    "OLDAMT": dict(type="dose", scale="ratio", drop=True),
    "OLDEV": dict(type="event", scale="nominal", datatype="int64", drop=True),
}
INTCOLS = ("ID", "MDV", "EVID", "CMT", "ADMID", "ADDL", "SS", "OLDEV")

TAIL = ["DV", "WGT", "TVC", "RN"]
# layout -> (extra columns after AMT, record kinds)
LAYOUTS = {
    "base": ([], ["O", "D"]),
    "clock": ([], ["O", "D"]),  # TIME holds NM-TRAN clock strings (datatype nmtran-time)
    "mdv": (["MDV"], ["O", "D", "X"]),
    "evid": (["EVID"], ["O", "D", "E2", "E3", "E4"]),
    "evidmdv": (["EVID", "MDV"], ["O", "D", "OM", "E2", "E3", "E4"]),  # OM: EVID=0 with MDV=1 (missing DV)
    "cmt": (["CMT"], ["O", "D1", "D2"]),
    "evidcmt": (["EVID", "CMT"], ["O", "D1", "D2", "E41", "E42"]),
    "admid": (["EVID", "ADMID"], ["O", "D1", "D2"]),
    "addl": (["ADDL", "II"], ["O", "D", "DA"]),
    "addl2": (["ADDL", "II"], ["O", "D", "DA", "DB"]),
    # additional doses in occasions separated by reset records (only expand_additional_doses is examined on this layout)
    "addlreset": (["EVID", "ADDL", "II"], ["O", "DA", "E3"]),
    "ss": (["SS", "II"], ["O", "D", "DS"]),
    "rate": (["RATE"], ["O", "D", "DR"]),
    # EVID layout with dropped columns of type dose/event in front of the real ones
    "decoy": (["EVID"], ["O", "D", "E2"]),
}
RESET_KINDS = ("E3", "E4", "E41", "E42")


def columns(layout):
    if layout == "decoy":
        return ["ID", "TIME", "OLDAMT", "AMT", "OLDEV", "EVID"] + TAIL
    return ["ID", "TIME", "AMT"] + LAYOUTS[layout][0] + TAIL


def tokens(layout, first, restarts=True):
    """Record tokens (kind, dt): dt 0 = same time as the previous record, 1 = one unit later,
    'R' = time restarts at 0 (reset records only).  The first record of an individual is at time 0."""
    out = []
    for k in LAYOUTS[layout][1]:
        if first:
            out.append((k, 0))
        else:
            out.append((k, 0))
            out.append((k, 1))
            if restarts and k in RESET_KINDS:
                out.append((k, "R"))
    return out


def sequences(layout, maxlen, prefix=(), restarts=True):
    """`prefix` (if non-empty) and all its extensions up to maxlen records; with an empty prefix: all
    non-empty sequences up to maxlen.  Depth first, deterministic order."""
    prefix = tuple(prefix)

    def rec(seq):
        if seq:
            yield seq
        if len(seq) >= maxlen:
            return
        for t in tokens(layout, first=not seq, restarts=restarts):
            yield from rec(seq + (t,))

    yield from rec(prefix)


def count_sequences(layout, maxlen, prefix=(), restarts=True):
    n = 0
    for _ in sequences(layout, maxlen, prefix, restarts):
        n += 1
    return n


def materialise(layout, ids, individuals):
    """-> list of record dicts (column -> python value) in record order."""
    cols = columns(layout)
    recs = []
    rn = 0
    for pos, (i, seq) in enumerate(zip(ids, individuals)):
        time = 0
        last_admid = 1
        for j, (kind, dt) in enumerate(seq):
            if dt == "R":
                time = 0
            else:
                time += dt
            rn += 1
            r = {"ID": i, "TIME": float(time), "AMT": 0.0, "DV": 0.0, "WGT": 60.0 + 10.0 * pos,
                 "TVC": float(j // 2), "RN": float(rn)}
            evid, cmt, admid, addl, ii, ss, rate, mdv = 0, 2, 0, 0, 0.0, 0, 0.0, 1
            if kind == "O":
                r["DV"] = 10.0 + rn
                mdv = 0
            elif kind in ("D", "D1", "D2", "DA", "DB", "DS", "DR", "E4", "E41", "E42"):
                # amounts include fractional ones below one unit (a dose is any record with AMT != 0)
                r["AMT"] = (100.0, 0.5, 30.0, 0.25, 7.5, 0.75)[j % 6] + (10.0 * (j // 6))
                evid = 4 if kind.startswith("E4") else 1
                cmt = 2 if kind in ("D2", "E42") else 1
                admid = cmt
                if kind == "DA":
                    addl, ii = 2, 1.0
                elif kind == "DB":
                    addl, ii = 1, 2.0
                elif kind == "DS":
                    ss, ii = 1, 1.0
                elif kind == "DR":
                    rate = 50.0
            elif kind in ("E2", "X"):
                evid = 2
            elif kind == "OM":
                evid = 0
            elif kind == "E3":
                evid = 3
            else:
                raise ValueError(kind)
            if layout == "admid" and kind == "O":
                admid = last_admid  # as add_admid would have generated it
            elif layout == "admid":
                last_admid = admid
            r["OLDAMT"] = 5.0
            r["OLDEV"] = 1
            vals = {"EVID": evid, "CMT": cmt, "ADMID": admid, "ADDL": addl, "II": ii, "SS": ss,
                    "RATE": rate, "MDV": mdv}
            for c in cols:
                if c in vals:
                    r[c] = vals[c]
            if layout == "clock":
                # 8:00 + 90 minutes per unit, written as NM-TRAN clock time
                minutes = 8 * 60 + 90 * time
                r["TIME"] = "%d:%02d" % (minutes // 60, minutes % 60)
            recs.append({c: r[c] for c in cols})
    return recs


def render(layout, recs):
    cols = columns(layout)
    show = [c for c in cols if c not in ("WGT", "TVC", "RN", "DV", "OLDAMT", "OLDEV")]
    return "[" + " | ".join(",".join(f"{c}={_fmt(r[c])}" for c in show) for r in recs) + "]"


def _fmt(v):
    if isinstance(v, float) and v == int(v):
        return str(int(v))
    return str(v)


# ----------------------------------------------------------------------------- record semantics
def num_time(layout, recs):
    """Time of every record as a number (clock strings translated: hours since the first record of
    the individual, NM-TRAN rule)."""
    if layout != "clock":
        return [float(r["TIME"]) for r in recs]
    out = []
    first = {}
    for r in recs:
        h, m = r["TIME"].split(":")
        t = float(h) + float(m) / 60.0
        first.setdefault(r["ID"], t)
        out.append(t - first[r["ID"]])
    return out


def is_dose(r):
    if "EVID" in r:
        return r["EVID"] in (1, 4)
    return r["AMT"] != 0


def is_obs(r):
    if "MDV" in r:
        return r["MDV"] == 0
    if "EVID" in r:
        return r["EVID"] == 0
    return r["AMT"] == 0


def ref_mdv(recs):
    return [0 if is_obs(r) else 1 for r in recs]


def ref_evid(recs):
    """EVID of each record: the column if present, otherwise NM-TRAN's default: 0 observation,
    1 dose, 2 other."""
    out = []
    for r in recs:
        if "EVID" in r:
            out.append(r["EVID"])
        elif is_dose(r):
            out.append(1)
        elif is_obs(r):
            out.append(0)
        else:
            out.append(2)
    return out


def individuals(recs):
    """list of (id, [row numbers]) in order of first appearance (ids form contiguous blocks)."""
    out = []
    for k, r in enumerate(recs):
        if out and out[-1][0] == r["ID"]:
            out[-1][1].append(k)
        else:
            out.append((r["ID"], [k]))
    return out


def ref_observations(recs):
    return [(r["ID"], r["TIME"], r["DV"]) for r in recs if is_obs(r)], [k for k, r in enumerate(recs) if is_obs(r)]


def ref_doses(recs):
    return [(r["ID"], r["TIME"], r["AMT"]) for r in recs if r["AMT"] != 0]


def ref_obs_counts(recs):
    out = {}
    for i, rows in individuals(recs):
        out[i] = sum(1 for k in rows if is_obs(recs[k]))
    return out


def ref_baselines(recs, cols):
    return {i: {c: recs[rows[0]][c] for c in cols if c != "ID"} for i, rows in individuals(recs)}


def ref_time_varying(recs, covs):
    out = []
    for c in covs:
        for _, rows in individuals(recs):
            if len({recs[k][c] for k in rows}) > 1:
                out.append(c)
                break
    return out


def walk_doseid(events):
    """events: per-individual list of dicts(time, dose, obs, evid, ss) in record order.
    Returns (accept, dosetime): accept[k] = set of acceptable dose period ids of event k,
    dosetime[d] = time of the d-th dose.

    Rule: a dose record opens period d (1, 2, ...); every other record belongs to the period of the
    most recent dose recorded before it (0 = before the first dose), except an observation recorded
    after a dose at the same time, which belongs to the preceding period - unless that dose is the
    first one or a steady-state dose (then the observation stays in the period of that dose).
    Where the documentation is silent both values are accepted: non-observation records at the
    time of a dose, several doses at one time, ties across a reset."""
    d = 0
    rg = 0
    doses = []  # (time, rg, evid, ss)
    accept = []
    dosetime = {}
    for e in events:
        if e["evid"] >= 3:
            rg += 1
        if e["dose"]:
            d += 1
            doses.append((e["time"], rg, e["evid"], e["ss"]))
            dosetime[d] = e["time"]
            accept.append({d})
            continue
        tied = [k for k, ds in enumerate(doses, start=1) if ds[0] == e["time"]]
        if not tied:
            accept.append({d})
            continue
        last = doses[-1]
        ndoses_at_time = sum(1 for x in events if x["dose"] and x["time"] == e["time"])
        strict = (len(tied) == 1 and tied[0] == d and last[1] == rg and last[2] != 4 and e["obs"]
                  and e["evid"] < 3 and ndoses_at_time == 1)
        if not strict:
            accept.append(set(range(max(0, d - len(tied)), d + 1)))
        elif last[3] > 0:
            accept.append({d})  # steady-state dose: the period is kept (comment in get_doseid)
        elif d == 1:
            accept.append({1})
        else:
            accept.append({d - 1})
    return accept, dosetime


def _events(recs, rows, times):
    evid = ref_evid(recs)
    return [dict(time=times[k], dose=is_dose(recs[k]), obs=is_obs(recs[k]), evid=evid[k],
                 ss=recs[k].get("SS", 0), row=k) for k in rows]


def ref_doseid(layout, recs):
    """list (per record) of acceptable dose period ids"""
    times = num_time(layout, recs)
    out = [None] * len(recs)
    for _, rows in individuals(recs):
        acc, _ = walk_doseid(_events(recs, rows, times))
        for k, a in zip(rows, acc):
            out[k] = a
    return out


def ref_expand(layout, recs):
    """Per individual: list of (time, amt, source row, k) of the expanded event list, chronological,
    additional dose number k of source row j placed by (time, j, k)."""
    times = num_time(layout, recs)
    out = []
    for i, rows in individuals(recs):
        ev = []
        occ = []  # the events of the current occasion (a reset record, EVID 3/4, opens a new one)
        for k in rows:
            r = recs[k]
            if r.get("EVID", 0) >= 3 and occ:
                ev.extend(sorted(occ) if "ADDL" in r else occ)
                occ = []
            occ.append((times[k], k, 0))
            if r.get("ADDL", 0) > 0 and is_dose(r):
                for n in range(1, int(r["ADDL"]) + 1):
                    occ.append((times[k] + n * r["II"], k, n))
        # chronological inside the occasion (the additional doses of an occasion stay in it)
        ev.extend(sorted(occ) if any("ADDL" in recs[k] for k in rows) else occ)
        out.append((i, ev))
    return out


def ref_tad(layout, recs):
    """list per record: None (not compared: before the first dose / not an observation or dose) or
    the set of acceptable times after dose.  Additional doses (ADDL/II) count as doses."""
    times = num_time(layout, recs)
    evid = ref_evid(recs)
    out = [None] * len(recs)
    for i, ev in ref_expand(layout, recs):
        events = []
        for (t, k, n) in ev:
            r = recs[k]
            if n == 0:
                events.append(dict(time=t, dose=is_dose(r), obs=is_obs(r), evid=evid[k], ss=r.get("SS", 0),
                                   row=k))
            else:
                events.append(dict(time=t, dose=True, obs=False, evid=1, ss=0, row=None))
        acc, dosetime = walk_doseid(events)
        # a reset record between the dose of the period and the record: the documentation is silent
        pos_reset = None
        pos_dose = {}
        ndose = 0
        for p, (e, a) in enumerate(zip(events, acc)):
            if e["dose"]:
                ndose += 1
                pos_dose[ndose] = p
            if e["evid"] >= 3:
                pos_reset = p
            if e["row"] is None:
                continue
            if e["dose"]:
                out[e["row"]] = {0.0}
            elif 0 in a or not e["obs"]:
                out[e["row"]] = None
            elif pos_reset is not None and any(pos_reset > pos_dose[d] for d in a):
                out[e["row"]] = None
            else:
                out[e["row"]] = {e["time"] - dosetime[d] for d in a}
    return out


# compartments of the fixed model: 1 = DEPOT (oral doses, admid 1), 2 = CENTRAL (iv doses, admid 2)
CMT_TO_ADMID = {1: 1, 2: 2}
CENTRAL = 2
DEPOT = 1


def ref_cmt(recs):
    """acceptable CMT per record (None = not compared)"""
    out = []
    for r in recs:
        if "CMT" in r:
            out.append({r["CMT"]})
        elif "ADMID" in r:
            if is_dose(r):
                out.append({DEPOT if r["ADMID"] == 1 else CENTRAL})
            elif is_obs(r):
                out.append({CENTRAL})
            else:
                out.append(None)
        else:  # dose/non-dose only: the first dosing compartment, 0 (= default) elsewhere
            if is_dose(r):
                out.append({DEPOT})
            else:
                out.append({0})
    return out


def ref_admid(recs):
    """acceptable ADMID per record: a dose has the administration id of its route, every other
    record that of the most recent dose of the individual (None before the first dose)."""
    out = [None] * len(recs)
    for _, rows in individuals(recs):
        cur = None
        for k in rows:
            r = recs[k]
            if "ADMID" in r:
                out[k] = {r["ADMID"]}
                continue
            if is_dose(r):
                cur = CMT_TO_ADMID[r["CMT"]] if "CMT" in r else CMT_TO_ADMID[DEPOT]
                out[k] = {cur}
            elif cur is not None:
                out[k] = {cur}
    return out
