"""Reference NM-TRAN dataset reader for C13, written from /repo/docs/NONMEM.rst (section "Dataset").

Nothing here imports pharmpy.  The reader is a character-level scanner, it does not use a
regular-expression split.  Every place where the document is silent or ambiguous makes the
reader return ("unspec", reason): such cases are counted by the check, never failed.

Semantic description of a case (all plain JSON values):
    text    the data file contents ("\n" line ends)
    cols    list of column descriptions [name, dropped(bool)] in $INPUT order
    ign     None (no IGNORE=c given) | one character
    null    None (no NULL= option) | one character out of 0-9 + -
    filt    None | ["IGNORE"|"ACCEPT", [[column, operator, value], ...]]   (value unquoted)

Result
    ("ok", rows)      rows = list of rows, each a list with one entry per column: float for a
                      kept column, None for a dropped column (its content is not specified)
    ("error", why)    the document says NM-TRAN gives an error
    ("unspec", why)   the document does not determine the outcome
"""
from __future__ import annotations

STRING_OPS = {".EQ.": "eq", ".NE.": "ne", "=": "eq", "/=": "ne", "==": "eq"}
NUMERIC_OPS = {".EQN.": "eq", ".NEN.": "ne", ".LT.": "lt", ".LE.": "le", ".GT.": "gt", ".GE.": "ge",
               "<": "lt", "<=": "le", ">": "gt", ">=": "ge"}
DIGITS = "0123456789"
SPECIAL_COLUMNS = ("TIME", "II", "DATE", "DAT1", "DAT2", "DAT3")  # may hold non-numeric items


class Unspec(Exception):
    pass


class NMError(Exception):
    pass


# ----------------------------------------------------------------------------- numbers
def _scan_digits(s, i):
    j = i
    while j < len(s) and s[j] in DIGITS:
        j += 1
    return j


def fortran_number(item):
    """float value of a numeric item, or None when the item is not one of the documented forms.

    forms: [sign] digits [. digits] | [sign] . digits, optionally followed by an exponent written
    E/e/D/d [sign] digits or, in the short form, sign digits ("2-1" = 2e-1).  A lone sign is 0.
    """
    s = item
    if s in ("+", "-"):
        return 0.0
    i = 0
    neg = False
    if i < len(s) and s[i] in "+-":
        neg = s[i] == "-"
        i += 1
    j = _scan_digits(s, i)
    intpart = s[i:j]
    frac = ""
    i = j
    if i < len(s) and s[i] == ".":
        j = _scan_digits(s, i + 1)
        frac = s[i + 1:j]
        i = j
    if not intpart and not frac:
        return None
    exp = 0
    if i < len(s):
        if s[i] in "EeDd":
            i += 1
            esign = 1
            if i < len(s) and s[i] in "+-":
                esign = -1 if s[i] == "-" else 1
                i += 1
        elif s[i] in "+-":
            esign = -1 if s[i] == "-" else 1
            i += 1
        else:
            return None
        j = _scan_digits(s, i)
        if j == i or j != len(s):
            return None
        exp = esign * int(s[i:j])
    # correctly rounded value of the decimal literal
    val = float(f"{intpart or '0'}.{frac or '0'}e{exp}")
    return -val if neg else val


def is_null_item(item):
    return item == "" or item == "."


# ----------------------------------------------------------------------------- lines
def split_lines(text):
    if "\r" in text:
        raise Unspec("carriage return in text")
    lines = text.split("\n")
    if lines and lines[-1] == "":
        lines.pop()  # the text ended with a newline: no extra line
    return lines


def is_comment(line, ign):
    if ign is None or ign == "#":
        return line.startswith("#")
    if ign == "@":
        k = 0
        while k < len(line) and line[k] in " \t":
            k += 1
        if k < len(line) and line[k] == "@":
            raise Unspec("line starting with @ under IGNORE=@")
        return k < len(line) and (line[k].isascii() and line[k].isalpha() or line[k] == "#")
    return line.startswith(ign)


def split_row(line):
    """character-level scanner: list of raw items of one (non blank) row"""
    if " \t" in line:
        raise NMError("space before TAB")
    s = line.strip(" ")
    if s.startswith("\t") or s.endswith("\t"):
        raise Unspec("row starts or ends with a TAB")
    items = []
    cur = ""
    i = 0
    n = len(s)
    at_start = True
    while i < n:
        ch = s[i]
        if ch not in " ,\t":
            cur += ch
            i += 1
            at_start = False
            continue
        # a maximal run of delimiter characters
        j = i
        ncomma = ntab = 0
        while j < n and s[j] in " ,\t":
            if s[j] == ",":
                ncomma += 1
            elif s[j] == "\t":
                ntab += 1
            j += 1
        if ncomma and ntab:
            raise Unspec("comma and TAB in one delimiter run")
        ndelim = ncomma or ntab or 1
        at_end = j == n
        if at_start:
            # only commas can be here (spaces were stripped, TAB excluded): NULL before each comma
            items.extend([""] * ndelim)
            if at_end:
                items.append("")  # a row of commas only: NULL after the last one as well
        else:
            items.append(cur)
            cur = ""
            items.extend([""] * (ndelim - 1))
            if at_end:
                items.append("")  # NULL after a final comma
        at_start = False
        i = j
        if at_end:
            return items
    items.append(cur)
    return items


# ----------------------------------------------------------------------------- reader
def ref_read(text, cols, ign=None, null=None, filt=None, quirks=()):
    """quirks: names of *defect models* (see QUIRKS); empty for the documented behaviour.  They are
    only used to attribute an observed deviation to a recorded finding, never by the oracle."""
    try:
        return _ref_read(text, cols, ign, null, filt, frozenset(quirks))
    except NMError as e:
        return ("error", str(e))
    except Unspec as e:
        return ("unspec", str(e))


def _null_value(null):
    if null is None or null in "+-":
        return 0.0
    if null in DIGITS:
        return float(null)
    raise NMError("illegal NULL character")


QUIRKS = (
    "first_row_width",      # every row is cut to the number of items of the first data row
    "surplus_keyerror",     # more items than $INPUT columns -> KeyError instead of dropping them
    "blank_before_text",    # a blank line is only refused when followed by an empty line / end of text
    "last_line_comment",    # a final line without newline is never a comment line
    "pad_value_text",       # a column absent from every row holds the NULL replacement as text when filtering
    "lenient_numbers",      # Python float() extras (1_0) and a short-form exponent matched as a prefix (2-1-3)
)


def lenient_number(item):
    """defect model only: what a float()-then-prefix-regexp conversion makes of a malformed item"""
    import re

    v = fortran_number(item)
    if v is not None:
        return v
    if re.fullmatch(r"[+-]?\d+(_\d+)*(\.(\d+(_\d+)*)?)?([eE][+-]?\d+(_\d+)*)?", item):
        return float(item)
    m = re.match(r"([+\-]?)([^+\-dD]*)([+-])([^+\-dD]*)", item)
    if m:
        try:
            return float(("-" if m.group(1) == "-" else "") + m.group(2) + "E" + m.group(3) + m.group(4))
        except ValueError:
            return None
    return None


def _ref_read(text, cols, ign, null, filt, quirks):
    ncol = len(cols)
    names = [c[0] for c in cols]
    kept = [n for n, d in cols if not d]
    if len(set(kept)) != len(kept):
        raise Unspec("duplicate column names")
    nullv = _null_value(null)
    tonum = lenient_number if "lenient_numbers" in quirks else fortran_number
    # 1. comment rows
    all_lines = split_lines(text)
    unterminated = bool(all_lines) and not text.endswith("\n")
    lines = []
    for k, ln in enumerate(all_lines):
        if "last_line_comment" in quirks and unterminated and k == len(all_lines) - 1:
            lines.append(ln)
        elif not is_comment(ln, ign):
            lines.append(ln)
    # 2. blank rows / space before TAB
    for ln in lines:
        if " \t" in ln and "blank_before_text" in quirks:
            raise NMError("space before TAB")
    kept_lines = []
    for k, ln in enumerate(lines):
        if ln.strip(" \t") == "":
            if "blank_before_text" not in quirks:
                raise NMError("blank line")
            last = k == len(lines) - 1
            if (last and not unterminated) or (not last and lines[k + 1] == ""):
                raise NMError("blank line")
            continue  # silently skipped
        kept_lines.append(ln)
    lines = kept_lines
    for ln in lines:
        if " \t" in ln:
            raise NMError("space before TAB")
    if not lines:
        raise Unspec("no data rows")
    # 3. items; short rows are padded with NULL, surplus items are dropped
    rows = []
    if quirks:
        # defect models only: rows are stripped of TABs as well, as the implementation does
        lines = [ln.strip(" \t") for ln in lines]
    split = [split_row(ln) for ln in lines]
    if "first_row_width" in quirks:
        split = [items[:len(split[0])] for items in split]
    if "surplus_keyerror" in quirks and len(split[0]) > ncol:
        raise NMError("surplus KeyError")
    width = max(len(items) for items in split)
    for items in split:
        row = [(it, False) for it in items[:ncol]]
        row += [("", True)] * (ncol - len(row))  # (raw item, is padding)
        if "pad_value_text" in quirks:
            padtext = "0" if nullv == 0.0 else repr(nullv)
            row = [(padtext, False) if k >= width else cell for k, cell in enumerate(row)]
        rows.append(row)
    # 4. IGNORE / ACCEPT, one filter at a time
    if filt is not None:
        kind, flist = filt
        if kind == "ACCEPT" and len(flist) > 1:
            raise Unspec("more than one ACCEPT filter")
        for col, op, val in flist:
            if col not in names:
                raise Unspec("filter on unknown column")
            if names.count(col) > 1:
                raise Unspec("filter on ambiguous column")
            k = names.index(col)
            out = []
            for row in rows:
                item, _pad = row[k]
                if op in STRING_OPS:
                    if val == "" or "." == val:
                        raise Unspec("text filter value")
                    hit = (item == val)  # text comparison; a NULL item has no text to match
                    if STRING_OPS[op] == "ne":
                        hit = not hit
                elif op in NUMERIC_OPS:
                    v = fortran_number(val)
                    if v is None:
                        raise Unspec("numeric filter with non numeric value")
                    if is_null_item(item) and not quirks:
                        raise Unspec("numeric filter applied to a NULL item")
                    if len(item) > 24:
                        raise Unspec("numeric filter applied to an overlong item")
                    # (defect models only: a NULL item is compared as the NULL replacement)
                    x = nullv if is_null_item(item) else tonum(item)
                    if x is None:
                        if item.lower().lstrip("+-") in ("nan", "inf", "infinity"):
                            raise Unspec("nan/inf item")
                        raise NMError("non numeric item in numeric comparison")
                    o = NUMERIC_OPS[op]
                    hit = {"eq": x == v, "ne": x != v, "lt": x < v, "le": x <= v, "gt": x > v,
                           "ge": x >= v}[o]
                else:
                    raise Unspec("operator")
                keep = (not hit) if kind == "IGNORE" else hit
                if keep:
                    out.append(row)
            rows = out
    # 5./6. drop columns, convert the items of the kept ones
    result = []
    for row in rows:
        vals = []
        for (name, dropped), (item, _pad) in zip(cols, row):
            if dropped:
                vals.append(None)
                continue
            if is_null_item(item):
                vals.append(nullv)
                continue
            if len(item) > 24:
                raise NMError("item longer than 24 characters")
            x = tonum(item)
            if x is None:
                if name in SPECIAL_COLUMNS:
                    raise Unspec("non numeric item in TIME/DATE column")
                if item.lower().lstrip("+-") in ("nan", "inf", "infinity"):
                    raise Unspec("nan/inf item")
                raise NMError("non numeric item %r" % item)
            if item == "-99":
                raise Unspec("item equal to the missing data token")
            vals.append(x)
        result.append(vals)
    return ("ok", result)
