"""Reference model for C05 (compartmental system graph vs. its differential equations).

Everything here is written from the definitions in the property text, not from pharmpy:

* a system is  comps: {name: {"doses": [dose-kind,...], "input": bool, "lag": bool, "F": bool}}
               flows: {(src, dst): rate-kind}        dst may be OUT
* d a_k/dt = sum_i rate(i->k)*a_i  -  (sum_j rate(k->j) + rate(k->OUT))*a_k  +  u_k
  (a flow from a compartment to itself is an inflow and an outflow of the same compartment: net 0)
* total amount changes only through output flows and inputs.

Rates / doses / inputs are *descriptors* that are (a) turned into pharmpy expressions for the builder and
(b) evaluated here directly with floats.  No sympy, no pharmpy evaluation on the reference side.
"""
from __future__ import annotations

import zlib

OUT = "OUT"
POOL = ["A", "B", "C", "D", "E", "F"]

# dose kinds: (class, amount symbol, admid, "rate"|"dur"|None, symbol|None)
DOSES = {
    "B1": ("Bolus", "AMT", 1, None, None),
    "B2": ("Bolus", "AMT2", 2, None, None),
    "I1": ("Infusion", "AMT", 1, "rate", "RATE"),
    "I2": ("Infusion", "AMT2", 2, "dur", "DUR"),
}

NENV = 3


def val(name, e):
    """generic positive value of symbol `name` in environment number e (deterministic)"""
    h = zlib.crc32(f"{name}#{e}".encode())
    return 0.35 + (h % 99991) / 99991.0 * 2.9


class Env(dict):
    """name -> float; unknown plain symbols get their generic value on first use"""

    def __init__(self, e, names=POOL):
        super().__init__()
        self.e = e
        self["t"] = val("t", e)
        for n in names:
            self[f"A_{n}(t)"] = val(f"A_{n}", e)

    def __missing__(self, name):
        v = val(name, self.e)
        self[name] = v
        return v


def _j0(j):
    return "0" if j == OUT else j


# ------------------------------------------------------------------ rate descriptors
def rate_syms(i, j, kind):
    if kind == "sym":
        return [f"K_{i}{_j0(j)}"]
    if kind == "pk":
        if j == OUT:
            return ["CL", f"V_{i}"]
        a, b = sorted((i, j))
        return [f"Q_{a}{b}", f"V_{i}"]
    if kind == "mm":
        return [f"VM_{i}{_j0(j)}", f"KM_{i}"]
    if kind == "shared":
        return ["KS"]
    if kind == "sum":  # a rate that is a sum of positive terms (two parallel first-order processes)
        return [f"K_{i}{_j0(j)}", f"L_{i}{_j0(j)}", f"V_{i}"]
    raise ValueError(kind)


def rate_val(i, j, kind, env):
    s = rate_syms(i, j, kind)
    if kind == "sum":
        return env[s[0]] + env[s[1]] / env[s[2]]
    if kind in ("sym", "shared"):
        return env[s[0]]
    if kind == "pk":
        return env[s[0]] / env[s[1]]
    if kind == "mm":
        return env[s[0]] / (env[s[1]] + env[f"A_{i}(t)"])
    raise ValueError(kind)


def rate_expr(i, j, kind):
    from pharmpy.basic import Expr

    S = Expr.symbol
    s = rate_syms(i, j, kind)
    if kind == "sum":
        return S(s[0]) + S(s[1]) / S(s[2])
    if kind in ("sym", "shared"):
        return S(s[0])
    if kind == "pk":
        return S(s[0]) / S(s[1])
    if kind == "mm":
        return S(s[0]) / (S(s[1]) + Expr.function(f"A_{i}", S("t")))
    raise ValueError(kind)


def rate_text(i, j, kind):
    s = rate_syms(i, j, kind)
    if kind == "sum":
        return f"{s[0]}+{s[1]}/{s[2]}"
    if kind in ("sym", "shared"):
        return s[0]
    if kind == "pk":
        return f"{s[0]}/{s[1]}"
    return f"{s[0]}/({s[1]}+A_{i}(t))"


# ------------------------------------------------------------------ reference state
def new_comp(attrs=None):
    c = {"doses": [], "input": False, "lag": False, "F": False}
    if attrs:
        c["doses"] = list(attrs.get("doses", []))
        c["input"] = bool(attrs.get("input", False))
        c["lag"] = bool(attrs.get("lag", False))
        c["F"] = bool(attrs.get("F", False))
    return c


class Ref:
    def __init__(self):
        self.comps = {}
        self.flows = {}

    def copy(self):
        r = Ref()
        r.comps = {k: {"doses": list(v["doses"]), "input": v["input"], "lag": v["lag"], "F": v["F"]}
                   for k, v in self.comps.items()}
        r.flows = dict(self.flows)
        return r

    def canon(self):
        return (tuple(sorted((k, tuple(sorted(v["doses"])), v["input"], v["lag"], v["F"])
                             for k, v in self.comps.items())),
                tuple(sorted(self.flows.items())))

    # --- applicability + effect of one builder operation (documented behaviour) ---
    def apply(self, op):
        """returns "ok" (state updated), "refuse" (documented ValueError expected, state unchanged)"""
        k = op[0]
        if k == "addc":
            assert op[1] not in self.comps
            self.comps[op[1]] = new_comp(op[2] if len(op) > 2 else None)
        elif k == "rmc":
            del self.comps[op[1]]
            self.flows = {e: r for e, r in self.flows.items() if op[1] not in e}
        elif k == "flow":
            self.flows[(op[1], op[2])] = op[3]
        elif k == "rmflow":
            del self.flows[(op[1], op[2])]
        elif k == "setdose":
            self.comps[op[1]]["doses"] = list(op[2])
        elif k == "adddose":
            self.comps[op[1]]["doses"] = self.comps[op[1]]["doses"] + [op[2]]
        elif k == "rmdose":
            adm = op[2]
            c = self.comps[op[1]]
            c["doses"] = [] if not adm else [d for d in c["doses"] if DOSES[d][2] != adm]
        elif k == "mvdose":
            s, d, adm = self.comps[op[1]], self.comps[op[2]], op[3]
            if not s["doses"]:
                return "refuse"
            if adm:
                mv = [x for x in s["doses"] if DOSES[x][2] == adm]
                s["doses"] = [x for x in s["doses"] if DOSES[x][2] != adm]
            else:
                mv = list(s["doses"])
                s["doses"] = []
            d["doses"] = d["doses"] + mv
        elif k == "lag":
            self.comps[op[1]]["lag"] = bool(op[2])
        elif k == "F":
            self.comps[op[1]]["F"] = bool(op[2])
        elif k == "input":
            self.comps[op[1]]["input"] = bool(op[2])
        else:
            raise ValueError(op)
        return "ok"

    # --- values ---
    def symbols(self):
        s = set()
        for (i, j), kind in self.flows.items():
            s.update(rate_syms(i, j, kind))
        for n, c in self.comps.items():
            for d in c["doses"]:
                dd = DOSES[d]
                s.add(dd[1])
                if dd[4]:
                    s.add(dd[4])
            if c["input"]:
                s.add(f"R_{n}")
            if c["lag"]:
                s.add(f"ALAG_{n}")
            if c["F"]:
                s.add(f"F_{n}")
        return sorted(s)

    def has_self_flow(self):
        return any(i == j for (i, j) in self.flows)

    def unique_rates(self):
        """flows are recoverable from the equations: pairwise distinct rate expressions, no self flow"""
        texts = [rate_text(i, j, k) for (i, j), k in self.flows.items()]
        return len(set(texts)) == len(texts) and not self.has_self_flow()

    def input_val(self, n, env):
        return env[f"R_{n}"] if self.comps[n]["input"] else 0.0

    def lag_val(self, n, env):
        return env[f"ALAG_{n}"] if self.comps[n]["lag"] else 0.0

    def f_val(self, n, env):
        return env[f"F_{n}"] if self.comps[n]["F"] else 1.0

    def dose_sigs(self, n, env):
        out = []
        for d in self.comps[n]["doses"]:
            cls, amt, adm, how, sym = DOSES[d]
            out.append((cls, adm, env[amt], env[sym] if how == "rate" else None,
                        env[sym] if how == "dur" else None))
        return sorted(out, key=_sigkey)

    def flow_val(self, i, j, env):
        k = self.flows.get((i, j))
        return 0.0 if k is None else rate_val(i, j, k, env)

    def matrix(self, names, env, self_as_loss=False):
        n = len(names)
        M = [[0.0] * n for _ in range(n)]
        for a, i in enumerate(names):
            tot = 0.0
            for b, j in enumerate(names):
                if a == b:
                    if self_as_loss:
                        tot += self.flow_val(i, i, env)
                    continue
                r = self.flow_val(i, j, env)
                M[b][a] = r
                tot += r
            M[a][a] = -(tot + self.flow_val(i, OUT, env))
        return M

    def rhs(self, names, env, self_as_loss=False):
        M = self.matrix(names, env, self_as_loss)
        a = [env[f"A_{n}(t)"] for n in names]
        return [sum(M[k][i] * a[i] for i in range(len(names))) + self.input_val(names[k], env)
                for k in range(len(names))]

    def net_loss(self, env, self_as_loss=False):
        """d(total amount)/dt = - sum output flows + sum inputs"""
        s = 0.0
        for n in self.comps:
            s -= self.flow_val(n, OUT, env) * env[f"A_{n}(t)"]
            if self_as_loss:
                s -= self.flow_val(n, n, env) * env[f"A_{n}(t)"]
            s += self.input_val(n, env)
        return s


def _sigkey(sig):
    return (sig[0], sig[1], sig[2], -1.0 if sig[3] is None else sig[3], -1.0 if sig[4] is None else sig[4])


# ------------------------------------------------------------------ substitutions
def sub_env(kind, symbols, env):
    """Environment E' such that  value(subs(x, sigma), E) == value(x, E')."""
    e2 = Env(env.e)
    e2.update(env)
    for s in symbols:
        if kind == "rename":
            e2[s] = env[s + "_N"]
        elif kind == "scale":
            e2[s] = env[s] * env["WT"]
        else:
            raise ValueError(kind)
    return e2


def sub_map(kind, symbols):
    from pharmpy.basic import Expr

    S = Expr.symbol
    if kind == "rename":
        return {S(s): S(s + "_N") for s in symbols}
    if kind == "scale":
        return {S(s): S(s) * S("WT") for s in symbols}
    raise ValueError(kind)


# ------------------------------------------------------------------ text
def fmt_op(op):
    k = op[0]
    if k == "addc":
        a = op[2] if len(op) > 2 and op[2] else None
        return f"add_compartment({op[1]}{'' if not a else ' ' + _fmt_attrs(a)})"
    if k == "rmc":
        return f"remove_compartment({op[1]})"
    if k == "flow":
        return f"add_flow({op[1]}->{op[2]}, {rate_text(op[1], op[2], op[3])})"
    if k == "rmflow":
        return f"remove_flow({op[1]}->{op[2]})"
    if k == "setdose":
        return f"set_dose({op[1]}, {list(op[2])})"
    if k == "adddose":
        return f"add_dose({op[1]}, {op[2]})"
    if k == "rmdose":
        return f"remove_dose({op[1]}, admid={op[2]})"
    if k == "mvdose":
        return f"move_dose({op[1]}->{op[2]}, admid={op[3]})"
    if k == "lag":
        return f"set_lag_time({op[1]}, {'ALAG_' + op[1] if op[2] else 0})"
    if k == "F":
        return f"set_bioavailability({op[1]}, {'F_' + op[1] if op[2] else 1})"
    if k == "input":
        return f"set_input({op[1]}, {'R_' + op[1] if op[2] else 0})"
    return str(op)


def _fmt_attrs(a):
    parts = []
    if a.get("doses"):
        parts.append("doses=" + "+".join(a["doses"]))
    for k in ("input", "lag", "F"):
        if a.get(k):
            parts.append(k)
    return ",".join(parts)


def fmt_prog(prog):
    return "; ".join(fmt_op(o) for o in prog)
