"""schedx - stateless exploration of thread schedules of real code under a cooperative
scheduler, with iterative preemption bounding.

Virtual threads are real threading.Thread objects that pass a baton: exactly one runs at a
time; a thread stops at every *scheduling point* (immediately before a shimmed
synchronisation / kernel operation) and tells the scheduler what it is about to do and
under which condition that operation is enabled.  Blocking is therefore visible (a blocked
thread is simply not enabled) and nothing ever spins.

The module also provides the shim `threading` objects (Lock, RLock, Condition, get_ident)
and the simulated POSIX kernel (fd tables + fcntl record locks) used to load
pharmpy.internals.fs.lock privately once per simulated process.
"""
from __future__ import annotations

import threading as _rt
import types


class Abort(BaseException):
    """Raised inside virtual threads to unwind an execution that is being discarded."""


class HarnessError(Exception):
    pass


class VThread:
    def __init__(self, sched, tid, fn, pid, name):
        self.sched = sched
        self.tid = tid
        self.pid = pid
        self.name = name
        self.fn = fn
        self.go = _rt.Semaphore(0)
        self.done = False
        self.crashed = None
        self.pending = None  # (label, enabled_fn)
        self.real = _rt.Thread(target=self._main, daemon=True)
        self.blocked_in = None  # description while disabled

    def _main(self):
        sched = self.sched
        sched._tls.vt = self
        self.go.acquire()
        try:
            if sched.line_files:
                import sys

                files = sched.line_files

                def local(frame, event, arg):
                    if event == "line" and not sched.abort:
                        sched.point(("line", frame.f_lineno), None)
                    return local

                def tracer(frame, event, arg):
                    if frame.f_code.co_filename in files:
                        return local
                    return None

                sys.settrace(tracer)
            if not sched.abort:
                self.fn(self)
        except Abort:
            pass
        except BaseException as e:  # harness bodies catch their own; anything here is a crash
            self.crashed = e
        finally:
            self.done = True
            self.pending = None
            sched.ctrl.release()

    def enabled(self):
        if self.done:
            return False
        p = self.pending
        if p is None:
            return True
        return p[1] is None or bool(p[1]())


class Sched:
    """One execution.  `choices` is the schedule prefix to replay (indices into the canonical
    enabled list at every point where more than one thread is enabled)."""

    def __init__(self, choices=(), max_steps=5000):
        self.threads = []
        self.ctrl = _rt.Semaphore(0)
        self._tls = _rt.local()
        self.abort = False
        self.prefix = list(choices)
        self.points = []  # dicts: n_enabled, chosen, current_enabled, preempt (bool)
        self.choices = []
        self.steps = 0
        self.max_steps = max_steps
        self.current = None
        self.trace = []  # (tid, label)
        self.deadlock = False
        self.step_hooks = []
        self.record_trace = False
        self.release_points = False
        self.deadlock_hook = None
        self.line_files = ()  # file names whose every source line is a scheduling point (unsynchronised accesses)
        self.spurious_left = 0
        self.spurious_used = 0

    # ---- thread side -------------------------------------------------------------
    def me(self) -> VThread:
        return self._tls.vt

    def point(self, label, enabled_fn=None):
        """Called by the running virtual thread immediately before a visible operation."""
        if self.abort:
            raise Abort()
        vt = self._tls.vt
        vt.pending = (label, enabled_fn)
        self.ctrl.release()
        vt.go.acquire()
        if self.abort:
            raise Abort()
        vt.pending = None

    # ---- controller side ---------------------------------------------------------
    def spawn(self, fn, pid=0, name=None):
        vt = VThread(self, len(self.threads), fn, pid, name or f"t{len(self.threads)}")
        self.threads.append(vt)
        return vt

    def run(self):
        for t in self.threads:
            t.pending = ("start", None)
            t.real.start()
        try:
            self._loop()
        finally:
            self._teardown()
        return self

    def _loop(self):
        while True:
            alive = [t for t in self.threads if not t.done]
            if not alive:
                return
            en = [t for t in alive if t.enabled()]
            if not en:
                self.deadlock = True
                if self.deadlock_hook is not None:
                    self.deadlock_hook(self, alive)
                return
            cur = self.current
            cur_enabled = cur is not None and cur in en
            if cur_enabled:
                en.remove(cur)
                en.insert(0, cur)
            if len(en) > 1:
                i = len(self.choices)
                if i < len(self.prefix):
                    c = self.prefix[i]
                    if c >= len(en):
                        raise HarnessError(
                            f"replay divergence at choice {i}: want index {c}, only {len(en)} enabled"
                        )
                else:
                    c = 0
                self.choices.append(c)
                self.points.append((len(en), c, cur_enabled))
                t = en[c]
            else:
                t = en[0]
            self.steps += 1
            if self.steps > self.max_steps:
                raise HarnessError("step horizon exceeded (livelock?)")
            if self.record_trace:
                self.trace.append((t.tid, t.pending[0] if t.pending else None))
            self.current = t
            t.go.release()
            self.ctrl.acquire()
            for h in self.step_hooks:
                h(self, t)

    def _teardown(self):
        self.abort = True
        for t in self.threads:
            if not t.done:
                t.go.release()
        for t in self.threads:
            if t.real.is_alive():
                t.real.join(timeout=5)
                if t.real.is_alive():
                    raise HarnessError("virtual thread did not unwind")

    def preemptions(self):
        n = 0
        for (_, c, cur_enabled) in self.points:
            if cur_enabled and c != 0:
                n += 1
        return n


def children(x, bound, start=0):
    """the schedules that deviate from execution x at exactly one point at or after `start` within the preemption bound"""
    out = []
    pre = 0
    costs = []
    for (k, c, cur_enabled) in x.points:
        costs.append(pre)
        if cur_enabled and c != 0:
            pre += 1
    for i in range(len(x.points) - 1, start - 1, -1):
        k, c, cur_enabled = x.points[i]
        for alt in range(k - 1, 0, -1):
            if alt == c:
                continue
            if costs[i] + (1 if cur_enabled else 0) > bound:
                continue
            out.append(x.choices[:i] + [alt])
    return out


def explore(run_one, bound, max_execs=None, on_exec=None, roots=None):
    """Iterative-context-bounding DFS.  run_one(prefix) -> Sched (already run).
    Enumerates every schedule with at most `bound` preemptions (below the given root prefixes, default: all).
    Returns (#executions, capped)."""
    stack = [list(r) for r in roots] if roots is not None else [[]]
    n = 0
    while stack:
        prefix = stack.pop()
        x = run_one(prefix)
        n += 1
        if on_exec is not None:
            on_exec(x)
        if max_execs is not None and n >= max_execs:
            return n, True
        # children: deviate at every point at or after len(prefix)
        pre = 0
        costs = []
        for (k, c, cur_enabled) in x.points:
            costs.append(pre)
            if cur_enabled and c != 0:
                pre += 1
        for i in range(len(x.points) - 1, len(prefix) - 1, -1):
            k, c, cur_enabled = x.points[i]
            base = costs[i]
            for alt in range(k - 1, 0, -1):
                if alt == c:
                    continue
                cost = base + (1 if cur_enabled else 0)
                if cost > bound:
                    continue
                stack.append(x.choices[:i] + [alt])
    return n, False


# =============================================================================== shims
class ShimLock:
    """threading.Lock replacement (non reentrant)."""

    def __init__(self, sched_ref, name="lock"):
        self._s = sched_ref
        self.owner = None
        self.name = name

    def acquire(self, blocking=True, timeout=-1):
        s = self._s()
        if s.abort:
            return True
        if blocking:
            s.point(("acquire", self.name), lambda: self.owner is None)
            assert self.owner is None
            self.owner = s.me().tid
            return True
        s.point(("try_acquire", self.name), None)
        if self.owner is None:
            self.owner = s.me().tid
            return True
        return False

    def release(self):
        s = self._s()
        if s.abort:
            return
        if self.owner is None:
            raise RuntimeError("release unlocked lock")
        if s.release_points:
            s.point(("release", self.name), None)
        self.owner = None

    def locked(self):
        return self.owner is not None

    __enter__ = acquire

    def __exit__(self, *a):
        self.release()


class ShimRLock:
    def __init__(self, sched_ref, name="rlock"):
        self._s = sched_ref
        self.owner = None
        self.count = 0
        self.name = name

    def _free_for(self, tid):
        return self.owner is None or self.owner == tid

    def acquire(self, blocking=True, timeout=-1):
        s = self._s()
        if s.abort:
            return True
        tid = s.me().tid
        if blocking:
            s.point(("acquire", self.name), lambda: self._free_for(tid))
        else:
            s.point(("try_acquire", self.name), None)
            if not self._free_for(tid):
                return False
        self.owner = tid
        self.count += 1
        return True

    def release(self):
        s = self._s()
        if s.abort:
            return
        tid = s.me().tid
        if self.owner != tid:
            raise RuntimeError("cannot release un-acquired lock")
        if s.release_points:
            s.point(("release", self.name), None)
        self.count -= 1
        if self.count == 0:
            self.owner = None

    __enter__ = acquire

    def __exit__(self, *a):
        self.release()

    # used by Condition
    def _release_save(self):
        st = (self.owner, self.count)
        self.owner, self.count = None, 0
        return st

    def _acquire_restore(self, st):
        self.owner, self.count = st

    def _is_owned(self, tid):
        return self.owner == tid


class ShimCondition:
    def __init__(self, sched_ref, lock=None, name="cond"):
        self._s = sched_ref
        self._lock = lock if lock is not None else ShimRLock(sched_ref, name + ".lock")
        self.waiters = {}  # tid -> notified?
        self.name = name
        self.acquire = self._lock.acquire
        self.release = self._lock.release

    def __enter__(self):
        return self._lock.acquire()

    def __exit__(self, *a):
        self._lock.release()

    def wait(self, timeout=None):
        s = self._s()
        if s.abort:
            return True
        tid = s.me().tid
        if not self._lock._is_owned(tid):
            raise RuntimeError("cannot wait on un-acquired lock")
        saved = self._lock._release_save()
        self.waiters[tid] = False
        lock = self._lock

        def can_wake():
            if lock.owner is not None:
                return False
            if self.waiters.get(tid):
                return True
            return s.spurious_left > 0

        s.point(("wait", self.name), can_wake)
        if not self.waiters.get(tid):
            s.spurious_left -= 1
            s.spurious_used += 1
        self.waiters.pop(tid, None)
        lock._acquire_restore(saved)
        return True

    def notify_all(self):
        s = self._s()
        if s.abort:
            return
        if not self._lock._is_owned(s.me().tid):
            raise RuntimeError("cannot notify on un-acquired lock")
        s.point(("notify_all", self.name), None)
        for k in self.waiters:
            self.waiters[k] = True

    def notify(self, n=1):
        s = self._s()
        if s.abort:
            return
        s.point(("notify", self.name), None)
        for k in sorted(self.waiters):
            if n <= 0:
                break
            if not self.waiters[k]:
                self.waiters[k] = True
                n -= 1

    notifyAll = notify_all


def make_threading_shim(sched_ref):
    m = types.ModuleType("threading")
    counter = {"n": 0}

    def _nm(kind):
        counter["n"] += 1
        return f"{kind}{counter['n']}"

    m.Lock = lambda: ShimLock(sched_ref, _nm("L"))
    m.RLock = lambda: ShimRLock(sched_ref, _nm("R"))
    m.Condition = lambda lock=None: ShimCondition(sched_ref, lock, _nm("C"))
    m.get_ident = lambda: 1000 + sched_ref().me().tid
    return m


# =============================================================================== kernel
EAGAIN = 11
EDEADLK = 35
LOCK_SH, LOCK_EX, LOCK_NB, LOCK_UN = 1, 2, 4, 8  # Linux fcntl values


class Kernel:
    """fd tables + POSIX (fcntl) record locks on whole files, process-owned."""

    def __init__(self):
        self.fds = {}  # pid -> {fd: path}
        self.locks = {}  # path -> {pid: 'SH'|'EX'}
        self.blocked = {}  # (pid, tid) -> (path, mode)   committed-blocked lockf callers
        self.log = []
        self.listeners = []

    # pure state functions (also used by the conformance test)
    def open(self, pid, path):
        import posixpath

        path = posixpath.normpath(path)  # the kernel identifies a file, not the spelling of its path
        t = self.fds.setdefault(pid, {})
        fd = 3
        while fd in t:
            fd += 1
        t[fd] = path
        return fd

    def close(self, pid, fd):
        t = self.fds.get(pid, {})
        if fd not in t:
            raise OSError(9, "Bad file descriptor")
        path = t.pop(fd)
        # POSIX: closing ANY descriptor of the file drops all of the process's locks on it
        held = self.locks.get(path)
        if held and pid in held:
            del held[pid]
            if not held:
                del self.locks[path]
        return path

    def conflicts(self, pid, path, mode):
        held = self.locks.get(path, {})
        out = []
        for p, m in held.items():
            if p == pid:
                continue
            if mode == "EX" or m == "EX":
                out.append(p)
        return out

    def path_of(self, pid, fd):
        try:
            return self.fds[pid][fd]
        except KeyError:
            raise OSError(9, "Bad file descriptor")

    def grant(self, pid, path, mode):
        self.locks.setdefault(path, {})[pid] = mode

    def unlock(self, pid, path):
        held = self.locks.get(path)
        if held and pid in held:
            del held[pid]
            if not held:
                del self.locks[path]

    def try_lock(self, pid, fd, mode):
        """Non-blocking attempt. Returns True (granted) or False (EAGAIN)."""
        path = self.path_of(pid, fd)
        if self.conflicts(pid, path, mode):
            return False
        self.grant(pid, path, mode)
        return True

    def waits_for(self):
        """process-level wait-for graph from committed-blocked callers"""
        g = {}
        for (pid, _tid), (path, mode) in self.blocked.items():
            g.setdefault(pid, set()).update(self.conflicts(pid, path, mode))
        return g

    def would_deadlock(self, pid, path, mode):
        g = self.waits_for()
        targets = set(self.conflicts(pid, path, mode))
        seen = set()
        stack = list(targets)
        while stack:
            p = stack.pop()
            if p == pid:
                return True
            if p in seen:
                continue
            seen.add(p)
            stack.extend(g.get(p, ()))
        return False

    def snapshot(self):
        return (
            tuple(sorted((p, tuple(sorted(t.items()))) for p, t in self.fds.items() if t)),
            tuple(sorted((pa, tuple(sorted(h.items()))) for pa, h in self.locks.items())),
        )

    def quiescent(self):
        return not any(self.fds.values()) and not self.locks


def make_os_shim(sched_ref, kernel, pid):
    import os as _os

    m = types.ModuleType("os")
    m.name = "posix"
    m.path = _os.path
    m.O_RDWR = _os.O_RDWR

    def _open(path, flags, mode=0o777):
        s = sched_ref()
        if s.abort:
            return -1
        s.point(("os.open", pid, path), None)
        fd = kernel.open(pid, path)
        kernel.log.append(("open", pid, path, fd))
        return fd

    def _close(fd):
        s = sched_ref()
        if s.abort:
            return
        s.point(("os.close", pid, fd), None)
        path = kernel.close(pid, fd)
        kernel.log.append(("close", pid, fd, path))
        for cb in kernel.listeners:
            cb()

    m.open = _open
    m.close = _close
    return m


def make_fcntl_shim(sched_ref, kernel, pid):
    m = types.ModuleType("fcntl")
    m.LOCK_SH, m.LOCK_EX, m.LOCK_NB, m.LOCK_UN = LOCK_SH, LOCK_EX, LOCK_NB, LOCK_UN

    def lockf(fd, op, *a):
        s = sched_ref()
        if s.abort:
            return
        if op & LOCK_UN:
            s.point(("lockf", pid, fd, "UN"), None)
            path = kernel.path_of(pid, fd)
            kernel.unlock(pid, path)
            kernel.log.append(("unlock", pid, path))
            for cb in kernel.listeners:
                cb()
            return
        mode = "SH" if op & LOCK_SH else "EX"
        nb = bool(op & LOCK_NB)
        s.point(("lockf", pid, fd, mode, "NB" if nb else "W"), None)  # the call is issued
        path = kernel.path_of(pid, fd)
        if not kernel.conflicts(pid, path, mode):
            kernel.grant(pid, path, mode)
            kernel.log.append(("lock", pid, path, mode))
            for cb in kernel.listeners:
                cb()
            return
        if nb:
            raise BlockingIOError(EAGAIN, "Resource temporarily unavailable")
        if kernel.would_deadlock(pid, path, mode):
            kernel.log.append(("edeadlk", pid, path, mode))
            raise OSError(EDEADLK, "Resource deadlock avoided")
        key = (pid, s.me().tid)
        kernel.blocked[key] = (path, mode)
        try:
            s.point(("lockf-wait", pid, fd, mode), lambda: not kernel.conflicts(pid, path, mode))
        finally:
            kernel.blocked.pop(key, None)
        kernel.grant(pid, path, mode)
        kernel.log.append(("lock", pid, path, mode))
        for cb in kernel.listeners:
            cb()

    m.lockf = lockf
    return m
