"""mgraph - the graph of models reachable from the corpus by modeling transformations
(explicit-state search over real pharmpy objects; shared by C02 C06 C07 C08 C09 C12).

A state is identified by its *history* (start model name + list of operation labels); workers
rebuild the real object by replaying the real API calls (cached per worker).  The canonical
key of a state is its generated code + a hash of its dataset, which contains everything the
oracles observe.
"""
from __future__ import annotations

import hashlib
import os
import tempfile

_cache = {}
_starts = {}


def start_models():
    if _starts:
        return _starts
    from pharmpy.modeling import (
        convert_model,
        create_basic_pk_model,
        load_example_model,
        set_first_order_absorption,
        set_proportional_error_model,
    )

    m = load_example_model("pheno")
    df = m.dataset[m.dataset["ID"] <= 3].reset_index(drop=True)
    pheno = m.replace(dataset=df)
    _starts["pheno"] = pheno
    # a multiple-dose oral-like data set: second dose inside the observation window
    _starts["pheno_oral"] = set_first_order_absorption(pheno)
    from pharmpy.modeling import add_bioavailability, add_lag_time, add_peripheral_compartment, remove_covariate_effect

    # first-order absorption with lag time, bioavailability and one peripheral compartment
    _starts["pheno_rich"] = add_peripheral_compartment(add_bioavailability(add_lag_time(_starts["pheno_oral"])))

    nocov = remove_covariate_effect(remove_covariate_effect(remove_covariate_effect(pheno, "CL", "WGT"), "VC", "WGT"), "VC", "APGR")
    _starts["pheno_nocov"] = nocov
    _starts["pheno_nocov_oral"] = set_first_order_absorption(nocov)
    _starts["pheno_blockif"] = _blockif_model(pheno)
    _starts["pheno_oral_trans1"] = _trans1_model(pheno)
    from pharmpy.modeling import add_pk_iiv, create_joint_distribution

    from pharmpy.modeling import add_iiv, mu_reference_model, remove_iiv

    # the first eta is mu-referenced, a later one (added afterwards) is not
    _starts["pheno_partial_mu"] = add_iiv(mu_reference_model(remove_iiv(pheno, "VC")), "VC", "exp")
    # four etas in one joint block (two-compartment model with IIV on every PK parameter)
    _starts["pheno_4block"] = create_joint_distribution(add_pk_iiv(add_peripheral_compartment(pheno)))
    _starts["pred_nl"] = _pred_model()
    _starts["pred_dates"] = _pred_model(dates=True)
    lin = load_example_model("pheno_linear")
    dfl = lin.dataset[lin.dataset["ID"] <= 3].reset_index(drop=True)
    _starts["pheno_linear"] = lin.replace(dataset=dfl)
    return _starts


PRED_CODE = """$PROBLEM nonlinear PRED model without ODE system
$INPUT ID TIME X DV
$DATA data.csv IGNORE=@
$PRED
BASE = THETA(1)*EXP(ETA(1))
SLOPE = THETA(2) + ETA(2)
IPRED = BASE*EXP(-SLOPE*TIME) + X*ETA(1)**2
W = SQRT(THETA(3)**2 + IPRED**2)
Y = IPRED + W*EPS(1)
$THETA (0,10) ; TVBASE
$THETA (0,0.3) ; TVSLOPE
$THETA (0,0.5) ; ADD
$OMEGA 0.1
$OMEGA 0.2
$SIGMA 1
$ESTIMATION METHOD=1 INTER
"""


def _blockif_model(pheno):
    """pheno with a symbol that is assigned by a plain statement and then reassigned in both branches of a block IF (the first
    branch carries the first eta, the ELSE branch assigns 0)"""
    from pharmpy.modeling import read_model_from_string

    code = pheno.code
    code = code.replace("$ABBREV REPLACE ETA_CL=ETA(1)\n$ABBREV REPLACE ETA_VC=ETA(2)\n",
                        "$ABBREV REPLACE ETA_FR=ETA(1)\n$ABBREV REPLACE ETA_CL=ETA(2)\n$ABBREV REPLACE ETA_VC=ETA(3)\n")
    code = code.replace("$PK\nTVCL = THETA(1)*WGT\n",
                        "$PK\nFRAC = 1\nIF (APGR.LT.5) THEN\n  FRAC = THETA(4)*EXP(ETA_FR)\nELSE\n  FRAC = 0\nEND IF\n"
                        "TVCL = THETA(1)*WGT*(1 + FRAC)\n")
    code = code.replace("$THETA  (-.99,.1) ; COVAPGR\n", "$THETA  (-.99,.1) ; COVAPGR\n$THETA  (0,0.4) ; POP_FRAC\n")
    code = code.replace("$OMEGA  0.0309626 ; IIV_CL\n", "$OMEGA  0.02 ; IIV_FR\n$OMEGA  0.0309626 ; IIV_CL\n")
    assert "ETA_FR" in code and "POP_FRAC" in code and "IIV_FR" in code and "FRAC = 0" in code
    m = read_model_from_string(code)
    return m.replace(dataset=pheno.dataset.copy(), datainfo=pheno.datainfo, name="pheno_blockif")


def _trans1_model(pheno):
    """first-order absorption coded with rate constants (ADVAN2 TRANS1): K, KA are basic PK parameters defined in $PK"""
    from pharmpy.modeling import read_model_from_string

    code = pheno.code
    code = code.replace("$SUBROUTINE ADVAN1 TRANS2", "$SUBROUTINE ADVAN2 TRANS1")
    code = code.replace("V = VC\nS1 = VC\n", "V = VC\nK = CL/V\nKA = THETA(4)\nS2 = VC\n")
    code = code.replace("$THETA  (-.99,.1) ; COVAPGR\n", "$THETA  (-.99,.1) ; COVAPGR\n$THETA  (0,1.5) ; POP_KA\n")
    assert "ADVAN2 TRANS1" in code and "K = CL/V" in code and "POP_KA" in code
    m = read_model_from_string(code)
    return m.replace(dataset=pheno.dataset.copy(), datainfo=pheno.datainfo, name="pheno_oral_trans1")


def _pred_model(dates=False):
    """$PRED model with an in-memory dataset; with dates=True the data have an NM-TRAN DATE column and clock times"""
    import pandas as pd

    from pharmpy.modeling import read_model_from_string

    rows = []
    for i in (1, 2, 3):
        for k, t in enumerate((0.0, 1.0, 2.5, 4.0)):
            r = {"ID": i}
            if dates:
                r["DATE"] = f"10-{1 + k // 2}-2020"
                r["TIME"] = ("08:00", "10:30", "08:00", "14:15")[k]
            else:
                r["TIME"] = t
            r["X"] = 0.5 * i + 0.1 * t
            r["DV"] = 10.0 - t + 0.3 * i
            rows.append(r)
    df = pd.DataFrame(rows)
    code = PRED_CODE
    if dates:
        code = code.replace("$INPUT ID TIME X DV", "$INPUT ID DATE TIME X DV").replace("EXP(-SLOPE*TIME)", "EXP(-SLOPE*X)")
    m = read_model_from_string(code)
    if dates:
        di = m.datainfo
        di = di.set_column(di["DATE"].replace(datatype="nmtran-date", drop=False))
        di = di.set_column(di["TIME"].replace(datatype="nmtran-time"))
        m = m.replace(datainfo=di)
    return m.replace(dataset=df)


def _ops_structural():
    import pharmpy.modeling as pm

    ops = {
        "abs_fo": pm.set_first_order_absorption,
        "abs_zo": pm.set_zero_order_absorption,
        "abs_seq": pm.set_seq_zo_fo_absorption,
        "abs_inst": pm.set_instantaneous_absorption,
        "lag_on": pm.add_lag_time,
        "lag_off": pm.remove_lag_time,
        "transits_0": lambda m: pm.set_transit_compartments(m, 0),
        "transits_1": lambda m: pm.set_transit_compartments(m, 1),
        "transits_3": lambda m: pm.set_transit_compartments(m, 3),
        "transits_1_nodepot": lambda m: pm.set_transit_compartments(m, 1, keep_depot=False),
        "periph_add": pm.add_peripheral_compartment,
        "periph_remove": pm.remove_peripheral_compartment,
        "elim_fo": pm.set_first_order_elimination,
        "elim_mm": pm.set_michaelis_menten_elimination,
        "elim_mix": pm.set_mixed_mm_fo_elimination,
        "elim_zo": pm.set_zero_order_elimination,
        "bio_add": pm.add_bioavailability,
        "bio_remove": pm.remove_bioavailability,
    }
    return ops


def _ops_other():
    import pharmpy.modeling as pm

    ops = {
        "iiv_add_exp": lambda m: pm.add_iiv(m, _first_param_without_iiv(m), "exp"),
        "iiv_add_prop": lambda m: pm.add_iiv(m, _first_param_without_iiv(m), "prop"),
        "iiv_remove_first": lambda m: pm.remove_iiv(m, m.random_variables.iiv.names[0]),
        "joint_all": lambda m: pm.create_joint_distribution(m),
        "split_first": lambda m: pm.split_joint_distribution(m, m.random_variables.iiv.names[0]),
        "cov_cl_wgt_exp": lambda m: pm.add_covariate_effect(m, "CL", "WGT", "exp"),
        "cov_v_apgr_cat": lambda m: pm.add_covariate_effect(m, _vparam(m), "APGR", "cat"),
        "err_add": pm.set_additive_error_model,
        "err_prop": pm.set_proportional_error_model,
        "err_comb": pm.set_combined_error_model,
        "err_power": pm.set_power_on_ruv,
        "theta_add": lambda m: pm.add_population_parameter(m, "POP_NEW", 2.5),
        "inits": lambda m: pm.set_initial_estimates(m, {m.parameters.names[0]: m.parameters.inits[m.parameters.names[0]] * 1.5}),
        "fix_first": lambda m: pm.fix_parameters(m, m.parameters.names[0]),
        "metabolite": pm.add_metabolite,
        "metabolite_psc": lambda m: pm.add_metabolite(m, presystemic=True),
        "effect_cmt": lambda m: pm.add_effect_compartment(m, "linear"),
        "allometry": lambda m: pm.add_allometry(m, allometric_variable="WGT", reference_value=3.5),
        "iov": lambda m: pm.add_iov(m, "FA1", list_of_parameters=[m.random_variables.iiv.names[0]]),
        "iie": lambda m: pm.update_initial_individual_estimates(m, individual_estimates_table(m)),
        # a derived data column: the dataset is replaced, so the data file and $INPUT are regenerated on write
        "tad": pm.add_time_after_dose,
    }
    return ops


def individual_estimates_table(m, offset=0.0):
    """a table of individual estimates for every eta of the model (deterministic values)"""
    import pandas as pd

    ids = list(dict.fromkeys(m.dataset[m.datainfo.id_column.name]))
    etas = list(m.random_variables.etas.names)
    data = {e: [round(0.05 * (i + 1) * (1 if j % 2 == 0 else -1) + offset, 6) for i in range(len(ids))] for j, e in enumerate(etas)}
    return pd.DataFrame(data, index=pd.Index(ids, name=m.datainfo.id_column.name))


def _first_param_without_iiv(m):
    import pharmpy.modeling as pm

    have = set(pm.get_individual_parameters(m, "iiv"))
    for p in pm.get_individual_parameters(m):
        if p not in have:
            return p
    raise ValueError("no parameter without iiv")


def _vparam(m):
    for n in ("VC", "V", "V1", "V2"):
        if m.statements.find_assignment(n) is not None:
            return n
    raise ValueError("no volume parameter")


_OPS = {}


def ops(kind="structural"):
    if not _OPS:
        _OPS["structural"] = _ops_structural()
        _OPS["other"] = _ops_other()
        _OPS["all"] = dict(_OPS["structural"], **_OPS["other"])
        _OPS["serial"] = _ops_serial()
        _OPS["lookup"] = dict(_OPS["all"], **_OPS["serial"])
    return _OPS[kind]


def _ops_serial():
    """attributes that only the serialisation checks look at (not in "all": the code generator has nothing to say about them)"""
    import pharmpy.modeling as pm

    def obs_log(m):
        y = list(m.dependent_variables.keys())[0]
        return m.replace(observation_transformation={y: y.log()})

    return {"obs_log": obs_log, "dtbs": pm.set_dtbs_error_model,
            # execution step attributes that no transformation of the other alphabets sets
            "solver_tol": lambda m: pm.set_estimation_step(m, "FOCE", idx=0, solver="LSODA", solver_rtol=6, solver_atol=12),
            "solver_rtol": lambda m: pm.set_estimation_step(m, "FOCE", idx=0, solver="LSODA", solver_rtol=9),
            "est_options": lambda m: pm.set_estimation_step(m, "IMP", idx=0, isample=300, niter=5, auto=True, keep_every_nth_iter=2,
                                                            tool_options={"SEED": 123}),
            "sim_step": lambda m: pm.set_simulation(m, n=3, seed=77)}


REFUSALS = (ValueError, NotImplementedError)
CALL_TIMEOUT = 30  # seconds of wall time for one real API call (sympy may not terminate on some ODE systems)


class CallTimeout(BaseException):
    pass


class time_limit:
    """wall-clock limit for a block inside a worker (main thread): raises CallTimeout.  Nestable: an enclosing limit keeps
    running while an inner one is active."""

    def __init__(self, seconds):
        self.seconds = seconds

    def __enter__(self):
        import signal
        import time

        def handler(signum, frame):
            raise CallTimeout()

        self.t0 = time.time()
        self.prev = signal.getitimer(signal.ITIMER_REAL)[0]
        self.old = signal.signal(signal.SIGALRM, handler)
        limit = self.seconds if self.prev <= 0 else min(self.seconds, self.prev)
        signal.setitimer(signal.ITIMER_REAL, max(limit, 0.001))

    def __exit__(self, *a):
        import signal
        import time

        signal.setitimer(signal.ITIMER_REAL, 0)
        signal.signal(signal.SIGALRM, self.old)
        if self.prev > 0:
            signal.setitimer(signal.ITIMER_REAL, max(self.prev - (time.time() - self.t0), 0.001))
        return False


def apply(model, label, private=True):
    """-> (new model or None, outcome) ; outcome: 'ok' | 'refused:<Type>' | 'crash:<Type>: msg'"""
    import warnings

    f = ops("lookup")[label]
    # every call gets a private copy of the dataset: some transformations write into the DataFrame of their
    # argument (checked by C06); without this the cached parent state would change under our feet.
    # private=False hands over the very object (sibling plans: two derivations from ONE parent object)
    if private and model.dataset is not None:
        model = model.replace(dataset=model.dataset.copy())
    try:
        with warnings.catch_warnings():
            warnings.simplefilter("ignore")
            with time_limit(CALL_TIMEOUT):
                m2 = f(model)
    except CallTimeout:
        return None, "timeout"
    except REFUSALS as e:
        return None, f"refused:{type(e).__name__}"
    except Exception as e:
        from pharmpy.model import ModelError

        if isinstance(e, ModelError):
            return None, f"refused:{type(e).__name__}"
        return None, f"crash:{type(e).__name__}: {str(e)[:160]}"
    return m2, "ok"


def build(history):
    """history = (start_name, (label, ...)) -> model (replaying real calls, cached per worker)"""
    start, labels = history
    key = (start, tuple(labels))
    if key in _cache:
        return _cache[key]
    if not labels:
        m = start_models()[start]
    else:
        parent = build((start, tuple(labels[:-1])))
        if parent is None:
            m = None
        else:
            m, _ = apply(parent, labels[-1])
    if len(_cache) > 4000:
        _cache.clear()
    _cache[key] = m
    return m


def dataset_digest(model):
    import pandas as pd

    df = model.dataset
    if df is None:
        return "nodata"
    h = hashlib.sha1()
    h.update(",".join(map(str, df.columns)).encode())
    h.update(pd.util.hash_pandas_object(df, index=False).values.tobytes())
    return h.hexdigest()[:16]


def canon(model):
    return hashlib.sha1((model.code + "\0" + dataset_digest(model)).encode()).hexdigest()


# ------------------------------------------------------------------------------- evaluation grid
def grid_envs(model):
    """list of (label, env) - parameters at initial values (and scaled), etas/eps on a small grid"""
    from vlib import ireval

    etas = model.random_variables.etas.names
    epss = model.random_variables.epsilons.names
    out = []
    out.append(("init", ireval.base_env(model)))
    # values are attached to names in sorted order, so that a transformation that only reorders the random effects
    # is evaluated at the same point
    e1 = {n: (0.3 if i % 2 == 0 else -0.2) for i, n in enumerate(sorted(etas))}
    p1 = {n: (0.1 if i % 2 == 0 else -0.1) for i, n in enumerate(sorted(epss))}
    out.append(("eta,eps", ireval.base_env(model, etas=e1, eps=p1)))
    out.append(("0.8*init", ireval.base_env(model, scale=0.8, etas={n: -v for n, v in e1.items()})))
    return out


def observe(model, envs=None, max_ids=3):
    """Evaluate the model on the grid -> dict point label -> list (per record) of (y, sorted amounts) for observation records.
    Raises vlib.xeval.Undefined / ireval.Unsupported."""
    from vlib import ireval

    me = ireval.ModelEval(model)
    inds = ireval.individuals(model, max_ids=max_ids)
    dvs = [str(s) for s in model.dependent_variables.keys()]
    out = {}
    for label, env in (envs or grid_envs(model)):
        rows = []
        for recs in inds:
            res = me.run(env, recs)
            for rec, e in zip(recs, res):
                if me._is_dose(rec):
                    continue
                rows.append(tuple(e.get(d) for d in dvs))
        out[label] = rows
    return out


def same_observations(a, b, rtol=1e-6):
    from vlib.xeval import close

    if set(a) != set(b):
        return f"grid points differ {sorted(a)} vs {sorted(b)}"
    for k in a:
        if len(a[k]) != len(b[k]):
            return f"{k}: number of observation records {len(a[k])} vs {len(b[k])}"
        for i, (x, y) in enumerate(zip(a[k], b[k])):
            for u, v in zip(x, y):
                if u is None or v is None:
                    if u is not v:
                        return f"{k}: record {i}: {u} vs {v}"
                elif not close(u, v, rtol):
                    return f"{k}: observation record {i}: {u:.10g} vs {v:.10g}"
    return None
