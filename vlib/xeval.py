"""Direct numeric evaluation of pharmpy / sympy expression trees with plain floats.

Deliberately does not use sympy's subs/evalf/lambdify nor pharmpy's evaluators: it walks
the tree.  `env` maps *names* (str) to floats; applied undefined functions such as
A_CENTRAL(t) are looked up under their printed name ("A_CENTRAL(t)") and, failing that,
their function name ("A_CENTRAL").

Undefined -> raises Undefined (domain error, unknown symbol).
"""
from __future__ import annotations

import math

import sympy
from sympy.core.function import AppliedUndef
from sympy.core.relational import Relational


class Undefined(Exception):
    pass


def to_sympy(e):
    if isinstance(e, sympy.Basic):
        return e
    if hasattr(e, "_sympy_"):
        return e._sympy_()
    return sympy.sympify(e)


def ev(e, env):
    return _ev(to_sympy(e), env)


def _phi(x):
    return 0.5 * (1.0 + math.erf(x / math.sqrt(2.0)))


_FUNCS = {
    "exp": lambda x: math.exp(x),
    "log": None,  # special (two-arg)
    "sin": math.sin,
    "cos": math.cos,
    "tan": math.tan,
    "asin": math.asin,
    "acos": math.acos,
    "atan": math.atan,
    "sinh": math.sinh,
    "cosh": math.cosh,
    "tanh": math.tanh,
    "Abs": abs,
    "floor": lambda x: float(math.floor(x)),
    "ceiling": lambda x: float(math.ceil(x)),
    "sign": lambda x: (x > 0) - (x < 0),
    "loggamma": math.lgamma,
    "gamma": math.gamma,
    "erf": math.erf,
    "PHI": _phi,
    "sqrt": math.sqrt,
    "Heaviside": lambda x: 1.0 if x > 0 else (0.0 if x < 0 else 0.5),
}


def _ev(e, env):
    if e.is_Number:
        if e is sympy.zoo or e is sympy.nan:
            raise Undefined("nan")
        return float(e)
    if e.is_Symbol:
        try:
            return float(env[e.name])
        except KeyError:
            raise Undefined(f"unbound symbol {e.name}")
    if e is sympy.S.Exp1:
        return math.e
    if e is sympy.S.Pi:
        return math.pi
    if e.is_Add:
        s = 0.0
        for a in e.args:
            s += _ev(a, env)
        return s
    if e.is_Mul:
        p = 1.0
        for a in e.args:
            p *= _ev(a, env)
        return p
    if e.is_Pow:
        b = _ev(e.base, env)
        x = _ev(e.exp, env)
        try:
            if b == 0 and x < 0:
                raise Undefined("division by zero")
            r = b**x
        except (OverflowError, ZeroDivisionError, ValueError) as err:
            raise Undefined(str(err))
        if isinstance(r, complex):
            raise Undefined("complex power")
        return r
    if isinstance(e, sympy.Piecewise):
        for val, cond in e.args:
            if _evb(cond, env):
                return _ev(val, env)
        raise Undefined("no piecewise branch")
    if isinstance(e, AppliedUndef):
        key = str(e)
        if key in env:
            return float(env[key])
        if e.func.__name__ in env:
            return float(env[e.func.__name__])
        raise Undefined(f"unbound function {key}")
    if isinstance(e, sympy.Function) or isinstance(e, sympy.Abs):
        name = e.func.__name__
        args = [_ev(a, env) for a in e.args]
        try:
            if name == "log":
                if args[0] <= 0:
                    raise Undefined("log of non-positive")
                if len(args) == 2:
                    return math.log(args[0]) / math.log(args[1])
                return math.log(args[0])
            if name == "Mod":
                # sympy.Mod semantics: result has the sign of the divisor
                if args[1] == 0:
                    raise Undefined("mod zero")
                return args[0] - args[1] * math.floor(args[0] / args[1])
            if name == "Max":
                return max(args)
            if name == "Min":
                return min(args)
            f = _FUNCS.get(name)
            if f is None:
                raise Undefined(f"unknown function {name}")
            return float(f(*args))
        except (ValueError, OverflowError, ZeroDivisionError) as err:
            raise Undefined(str(err))
    if isinstance(e, sympy.Derivative):
        key = str(e)
        if key in env:
            return float(env[key])
        raise Undefined("derivative")
    if e is sympy.S.Infinity:
        return math.inf
    if e is sympy.S.NegativeInfinity:
        return -math.inf
    if e.is_Boolean or isinstance(e, Relational):
        return 1.0 if _evb(e, env) else 0.0
    raise Undefined(f"cannot evaluate {type(e).__name__}: {e}")


def _evb(c, env):
    if c is sympy.true or c is True:
        return True
    if c is sympy.false or c is False:
        return False
    if isinstance(c, Relational):
        a = _ev(c.lhs, env)
        b = _ev(c.rhs, env)
        op = c.rel_op
        if op == "==":
            return a == b
        if op == "!=":
            return a != b
        if op == "<":
            return a < b
        if op == "<=":
            return a <= b
        if op == ">":
            return a > b
        if op == ">=":
            return a >= b
        raise Undefined(op)
    if isinstance(c, sympy.And):
        return all(_evb(a, env) for a in c.args)
    if isinstance(c, sympy.Or):
        return any(_evb(a, env) for a in c.args)
    if isinstance(c, sympy.Not):
        return not _evb(c.args[0], env)
    if c.is_Symbol:
        return bool(env[c.name])
    raise Undefined(f"cannot evaluate condition {c}")


def close(a, b, rtol=1e-7):
    if a is None or b is None:
        return a is None and b is None
    if math.isnan(a) or math.isnan(b):
        return math.isnan(a) and math.isnan(b)
    if math.isinf(a) or math.isinf(b):
        return a == b
    return abs(a - b) <= rtol * max(1.0, abs(a), abs(b))
