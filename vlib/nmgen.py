"""Generators of NM-TRAN inputs for C01/C02/C04 (bounded, deterministic, simplest first)."""
from __future__ import annotations

import itertools

# --------------------------------------------------------------------------- expressions
OPS = ["+", "-", "*", "/", "**"]
ATOMS = ["X", "THETA(1)", "2", "0.5"]
FUNCS1 = ["EXP", "LOG", "LOG10", "SQRT", "ABS", "INT", "SIN", "COS", "TAN", "ASIN", "ACOS", "ATAN", "GAMLN", "PHI",
          "PEXP", "PLOG", "PLOG10", "PSQRT", "PDZ", "PZR", "PNP", "PHE", "PNG"]


def expressions(tier):
    """strings; every binary/ternary operator combination without parentheses (precedence and associativity),
    signed operands, parenthesised variants, every intrinsic/protected function"""
    out = []
    atoms = ATOMS
    for a in atoms + ["-2", "1D1", "1.5E0", "A", "-X", "+X", "-2**2", "-X**2", "2**-1", "X**-2"]:
        out.append(a)
    for a, op, b in itertools.product(atoms, OPS, atoms):
        out.append(f"{a}{op}{b}")
    for a, op1, b, op2, c in itertools.product(atoms, OPS, atoms, OPS, atoms):
        out.append(f"{a}{op1}{b}{op2}{c}")
    for a, op, b in itertools.product(atoms, OPS, atoms):
        out.append(f"-{a}{op}{b}")
        if op in ("*", "/", "**"):
            out.append(f"{a}{op}-{b}")
        out.append(f"{a}{op}(-{b})")
    if tier == "thorough":
        for a, op1, b, op2, c in itertools.product(atoms, OPS, atoms, OPS, atoms):
            out.append(f"({a}{op1}{b}){op2}{c}")
            out.append(f"{a}{op1}({b}{op2}{c})")
            out.append(f"-{a}{op1}{b}{op2}{c}")
    else:
        for a, op1, b, op2, c in itertools.product(["X", "2"], OPS, ["THETA(1)", "0.5"], OPS, ["X", "2"]):
            out.append(f"({a}{op1}{b}){op2}{c}")
            out.append(f"{a}{op1}({b}{op2}{c})")
            out.append(f"-{a}{op1}{b}{op2}{c}")
    args = ["X", "THETA(1)", "0.5", "-X", "X*100", "X-100.5", "X/4", "X*1E-104", "X+THETA(1)"]
    for f in FUNCS1:
        for a in args:
            out.append(f"{f}({a})")
        out.append(f"{f}(X)+2")
        out.append(f"2*{f}(X)**2")
    for a, b in itertools.product(["X", "-X", "X*3", "5.5", "-5.5"], ["2", "-2", "THETA(1)", "X"]):
        out.append(f"MOD({a},{b})")
    return out


# --------------------------------------------------------------------------- control flow
CONDS = ["X.GT.0", "A.GT.1", "X.EQ.2.OR.A.LT.1", "X.LT.0.AND.B.NE.2", "X<=0", "A==B", "X/=2", ".NOT.(X.GE.0.AND.B.NE.2)"]
SIMPLE = ["A = 1", "A = X", "A = A + 1", "A = B*2", "B = 2", "B = A", "B = B + X"]
BRANCH_ST = ["A = 2", "B = A + 1", "A = A*2", "B = 3"]


def logical_ifs(tier):
    conds = CONDS if tier == "thorough" else CONDS[:5]
    return [f"IF ({c}) {s}" for c in conds for s in BRANCH_ST[:3]]


def block_ifs(tier):
    c1s = CONDS[:4] if tier == "quick" else CONDS
    # "X.LT.-1" can hold where the X-only first conditions fail (X.GT.1 cannot when the first condition is X.GT.0)
    c2s = ["X.GT.1", "X.LT.-1", "B.GT.2"]
    S = BRANCH_ST
    out = []
    for c in c1s:
        for s in S:
            out.append(("T1", f"IF ({c}) THEN\n{s}\nENDIF"))
    for c, s1, s2 in itertools.product(c1s, S, S):
        out.append(("T2", f"IF ({c}) THEN\n{s1}\nELSE\n{s2}\nEND IF"))
    for c, c2, s1, s2, s3 in itertools.product(c1s, c2s, S, S[:2], S[2:]):
        out.append(("T3", f"IF ({c}) THEN\n{s1}\nELSE IF ({c2}) THEN\n{s2}\nELSE\n{s3}\nENDIF"))
    for c, c2, s1, s2 in itertools.product(c1s[:2], c2s, S[:2], S[2:]):
        out.append(("T3b", f"IF ({c}) THEN\n{s1}\nELSEIF ({c2}) THEN\n{s2}\nENDIF"))
    for c, s1, s2 in itertools.product(c1s, S, S):
        out.append(("T4", f"IF ({c}) THEN\n{s1}\n{s2}\nENDIF"))
    for c, s1, s2, s3 in itertools.product(c1s, S[:2], S, S):
        out.append(("T5", f"IF ({c}) THEN\n{s1}\nELSE\n{s2}\n{s3}\nENDIF"))
    for c, c2, s1, s2, s3 in itertools.product(c1s, c2s, S[:2], S, S[2:]):
        out.append(("T6", f"IF ({c}) THEN\n{s1}\nIF ({c2}) THEN\n{s2}\nENDIF\nELSE\n{s3}\nENDIF"))
    # three branches assigning different sets of symbols, conditions on data only, a two-statement ELSE
    for c, c2, s1, s2, s3, s4 in itertools.product(["X.GT.0", "X<=0"], ["X.LT.-1", "X.GT.1"], S, S, S[:2], S[2:]):
        out.append(("T7", f"IF ({c}) THEN\n{s1}\nELSE IF ({c2}) THEN\n{s2}\nELSE\n{s3}\n{s4}\nENDIF"))
    for c, c2, c3, s1, s2, s3 in itertools.product(["X.GT.1"], ["X.GT.0"], ["X.LT.-1"], S, S, S):
        out.append(("T8", f"IF ({c}) THEN\n{s1}\nELSE IF ({c2}) THEN\n{s2}\nELSE IF ({c3}) THEN\n{s3}\nENDIF"))
    for c, c2, s1, s2 in itertools.product(c1s[:2], c2s, S[:2], S[2:]):
        out.append(("T6b", f"IF ({c}) THEN\nIF ({c2}) {s1}\nELSE\n{s2}\nENDIF"))
    return out


def flow_programs(tier):
    """list of (family, code text) - $PRED bodies"""
    out = []
    simple = SIMPLE
    lif = logical_ifs(tier)
    flat = simple + lif
    # (a) straight programs of simple statements and logical IFs
    maxlen = 3
    for n in range(1, maxlen + 1):
        if n == 3 and tier == "quick":
            pool = simple + lif[:6]
        else:
            pool = flat
        for combo in itertools.product(pool, repeat=n):
            out.append(("flat", "\n".join(combo) + "\nY = A + B*10"))
    # (b) one block IF after an initialising prefix, optionally one more statement before / after
    blocks = block_ifs(tier)
    for fam, b in blocks:
        out.append((fam, f"A = X\nB = 1\n{b}\nY = A + B*10"))
    pre = simple if tier == "thorough" else ["A = A + 1", "B = A"]
    post = ["A = A + B", "IF (A.GT.2) B = 0"]
    for fam, b in blocks:
        for p in pre:
            out.append((fam + "+pre", f"A = X\nB = 1\n{p}\n{b}\nY = A + B*10"))
        for p in post:
            out.append((fam + "+post", f"A = X\nB = 1\n{b}\n{p}\nY = A + B*10"))
    if tier == "thorough":
        for (f1, b1), (f2, b2) in itertools.product(blocks[::7], blocks[::11]):
            out.append((f1 + "+" + f2, f"A = X\nB = 1\n{b1}\n{b2}\nY = A + B*10"))
    return out


# --------------------------------------------------------------------------- parameter records
def theta_items():
    return ["1.5", "(0,1.5)", "(0,1.5,3)", "(0.5,,3)", "(-INF,1.5,INF)", "1.5 FIX", "(1.5 FIX)", "(0,1.5,3) FIX", "(0,1.5,3 FIXED)",
            "(1.5)x2", "(0,1.5)x2", "(2,2,2)", "(-1000000,1.5,1000000)", "(0 1.5 3)", "1.5E-1", "-.5", "(0,1.5) ; CL"]


def theta_records(tier):
    items = theta_items()
    out = []
    for a in items:
        out.append([f"$THETA {a}"])
    for a, b in itertools.product(items, repeat=2):
        out.append([f"$THETA {a} {b}"])
        out.append([f"$THETA {a}", f"$THETA {b}"])
    if tier == "thorough":
        for a, b, c in itertools.product(items[:10], repeat=3):
            out.append([f"$THETA {a} {b}\n  {c}"])
    return out


def omega_records(tier):
    """list of lists of $OMEGA records"""
    diag = ["0.1", "0.1 0.2", "0.1 FIX", "(0.1 FIX) 0.2", "0.3 SD", "(0.3 SD)", "DIAGONAL(2) 0.1 0.2", "(0.1)x2", "0.1 ; IIV_CL\n 0.2 ; IIV_V", "(0.1)x2 0.3", "0.3 (0.1)x2 0.4"]
    blocks = ["BLOCK(1) 0.1", "BLOCK(2) 0.1 0.01 0.2", "BLOCK(2) 0.1\n 0.01 0.2", "BLOCK(2) FIX 0.1 0.01 0.2", "BLOCK(2) 0.1 0.01 0.2 FIX",
              "BLOCK(2) SD 0.3 0.01 0.4", "BLOCK(2) CORRELATION 0.1 0.5 0.2", "BLOCK(2) SD CORRELATION 0.3 0.5 0.4",
              "BLOCK(2) CHOLESKY 0.3 0.1 0.4", "BLOCK(3) 0.1 0.01 0.2 0.02 0.03 0.3", "BLOCK(2) VALUES(0.1,0.01)",
              "BLOCK(2) (0.1)x3" if False else "BLOCK(2) 0.1 (0.01)x2", "BLOCK(1) 0.1 FIX"]
    out = []
    for a in diag + blocks:
        out.append([f"$OMEGA {a}"])
    for a in blocks:
        out.append([f"$OMEGA {a}", "$OMEGA BLOCK SAME" if False else f"$OMEGA BLOCK({_bsize(a)}) SAME"])
        out.append([f"$OMEGA {a}", f"$OMEGA BLOCK({_bsize(a)}) SAME(2)"])
        out.append([f"$OMEGA {a}", f"$OMEGA BLOCK({_bsize(a)}) SAME", f"$OMEGA BLOCK({_bsize(a)}) SAME"])
        out.append(["$OMEGA 0.5", f"$OMEGA {a}", "$OMEGA 0.7"])
    for a, b in itertools.product(["0.1 0.2", "0.1 0.2 0.3", "0.3"], ["0.4 0.5", "0.4 0.5 0.6"]):
        out.append([f"$OMEGA {a}", f"$OMEGA {b}"])
    for a, b in itertools.product(diag, blocks):
        out.append([f"$OMEGA {a}", f"$OMEGA {b}"])
        if tier == "thorough":
            out.append([f"$OMEGA {b}", f"$OMEGA {a}"])
    return out


def _bsize(txt):
    import re

    return int(re.search(r"BLOCK\((\d)\)", txt).group(1))


# --------------------------------------------------------------------------- kinetic library
TRANS = {1: [1, 2], 2: [1, 2], 3: [1, 3, 4, 5, 6], 4: [1, 3, 4, 5, 6], 10: [1], 11: [1, 4, 6], 12: [1, 4, 6]}


def pk_params(advan, trans):
    """ordered list of (name, value) PK parameters the user defines for this ADVAN/TRANS"""
    if advan == 1:
        base = {1: [("K", 0.14)], 2: [("CL", 2.1), ("V", 15.0)]}[trans]
    elif advan == 2:
        base = {1: [("K", 0.14), ("KA", 0.9)], 2: [("CL", 2.1), ("V", 15.0), ("KA", 0.9)]}[trans]
    elif advan in (3, 4):
        c, p = (1, 2) if advan == 3 else (2, 3)
        base = {
            1: [("K", 0.14), (f"K{c}{p}", 0.09), (f"K{p}{c}", 0.05)],
            3: [("CL", 2.1), ("V", 15.0), ("Q", 1.3), ("VSS", 40.0)],
            4: [("CL", 2.1), (f"V{c}", 15.0), ("Q", 1.3), (f"V{p}", 25.0)],
            5: [("AOB", 0.7), ("ALPHA", 0.5), ("BETA", 0.05)],
            6: [("ALPHA", 0.5), ("BETA", 0.05), (f"K{p}{c}", 0.2)],
        }[trans]
        if advan == 4:
            base = base + [("KA", 0.9)]
    elif advan == 10:
        base = [("VM", 12.0), ("KM", 30.0)]
    elif advan in (11, 12):
        c, p1, p2 = (1, 2, 3) if advan == 11 else (2, 3, 4)
        base = {
            1: [("K", 0.14), (f"K{c}{p1}", 0.09), (f"K{p1}{c}", 0.05), (f"K{c}{p2}", 0.03), (f"K{p2}{c}", 0.011)],
            4: [("CL", 2.1), (f"V{c}", 15.0), (f"Q{p1}", 1.3), (f"V{p1}", 25.0), (f"Q{p2}", 0.4), (f"V{p2}", 60.0)],
            6: [("ALPHA", 1.0), ("BETA", 0.2), ("GAMMA", 0.03), (f"K{p1}{c}", 0.5), (f"K{p2}{c}", 0.05)],
        }[trans]
        if advan == 12:
            base = base + [("KA", 0.9)]
    else:
        raise ValueError(advan)
    return base


def dose_obs(advan):
    return {1: (1, 1), 2: (1, 2), 3: (1, 1), 4: (1, 2), 10: (1, 1), 11: (1, 1), 12: (1, 2)}[advan]


DATA_BOLUS = [
    # ID TIME AMT DV
    (1, 0.0, 100.0, 0.0), (1, 0.5, 0.0, 1.0), (1, 1.0, 0.0, 1.0), (1, 2.5, 0.0, 1.0), (1, 6.0, 50.0, 0.0), (1, 6.5, 0.0, 1.0), (1, 11.0, 0.0, 1.0),
    (2, 0.0, 0.0, 1.0), (2, 1.0, 80.0, 0.0), (2, 1.0, 0.0, 1.0), (2, 3.0, 0.0, 1.0), (2, 3.0, 40.0, 0.0), (2, 8.0, 0.0, 1.0),
]


def dataset_text(form, cmtcol=None):
    """csv text + column list.  form in bolus|rate|r|d ; dose records get RATE 0 / 25 / -1 / -2."""
    cols = ["ID", "TIME", "AMT", "DV"]
    if form != "bolus":
        cols.insert(3, "RATE")
    if cmtcol:
        cols.append("CMT")
    lines = []
    for (i, t, amt, dv) in DATA_BOLUS:
        row = {"ID": i, "TIME": t, "AMT": amt, "DV": dv}
        if form != "bolus":
            row["RATE"] = 0 if amt == 0 else {"rate": 25.0, "r": -1, "d": -2}[form]
        if cmtcol:
            row["CMT"] = cmtcol[0] if amt != 0 else cmtcol[1]
        lines.append(",".join(str(row[c]) for c in cols))
    return "\n".join(lines) + "\n", cols


def kinetic_models(tier):
    """yield dict(name, code, data, cols).  $PK defines each PK parameter as THETA(i) (first two with EXP(ETA))."""
    out = []
    for advan, translist in TRANS.items():
        for trans in translist:
            for scale in ("none", "Sn", "SC"):
                for lag in (False, True):
                    for bio in (False, True):
                        for form in ("bolus", "rate", "r", "d"):
                            if tier == "quick":
                                # quick: full cross for bolus, the other dose forms with one option combination each
                                if form != "bolus" and (scale, lag, bio) not in (("Sn", False, False), ("none", True, True)):
                                    continue
                            out.append(_closed_model(advan, trans, scale, lag, bio, form))
    # observation records that name another compartment than the default one in the CMT data item; every combination of
    # scale definitions (default compartment through Sn or SC or not at all, observed compartment scaled or not)
    for advan, trans, other in ((3, 4, 2), (4, 4, 3), (11, 4, 3), (12, 4, 4), (4, 1, 3)):
        dose, obs = dose_obs(advan)
        for dflt in ("", f"S{obs}", "SC"):
            for oth in ("", f"S{other}"):
                names = "+".join(x for x in (dflt, oth) if x)
                out.append(_closed_model(advan, trans, "obs:" + names if names else "none", False, False, "bolus", cmtcol=(dose, other)))
    out.extend(general_models(tier))
    return out


def _closed_model(advan, trans, scale, lag, bio, form, cmtcol=None):
    dose, obs = dose_obs(advan)
    params = list(pk_params(advan, trans))
    if scale == "Sn":
        params.append((f"S{obs}", 0.5))
    elif scale == "SC":
        params.append(("SC", 0.5))
    elif scale.startswith("obs:"):
        # observations in another compartment (CMT data item): scale of the default compartment / of the observed one
        for nm in scale[4:].split("+"):
            params.append((nm, {"SC": 0.5}.get(nm, 0.5 if nm == f"S{obs}" else 0.02)))
    if lag:
        params.append((f"ALAG{dose}", 0.4))
    if bio:
        params.append((f"F{dose}", 0.8))
    if form == "r":
        params.append((f"R{dose}", 30.0))
    if form == "d":
        params.append((f"D{dose}", 2.5))
    pk = []
    thetas = []
    for i, (nm, val) in enumerate(params, 1):
        if i <= 2:
            pk.append(f"{nm} = THETA({i})*EXP(ETA({i}))")
        else:
            pk.append(f"{nm} = THETA({i})")
        thetas.append(val)
    data, cols = dataset_text(form, cmtcol)
    code = (
        "$PROBLEM kin\n$INPUT " + " ".join(cols) + "\n$DATA data.csv IGNORE=@\n"
        f"$SUBROUTINE ADVAN{advan} TRANS{trans}\n$PK\n" + "\n".join(pk) + "\n$ERROR\nIPRED = F\nY = IPRED + IPRED*EPS(1) + EPS(2)\n"
        + "".join(f"$THETA {v}\n" for v in thetas)
        + "$OMEGA 0.1\n$OMEGA 0.2\n$SIGMA 0.01\n$SIGMA 0.5\n$ESTIMATION METHOD=1 INTER\n"
    )
    return {"name": f"ADVAN{advan} TRANS{trans} scale={scale} lag={lag} F={bio} dose={form}" + (f" cmt={cmtcol}" if cmtcol else ""),
            "code": code, "data": data, "cols": cols, "ntheta": len(thetas), "advan": advan, "trans": trans}


def general_models(tier):
    out = []
    # ADVAN5/7: $MODEL + Kij names
    graphs = [
        (["CENTRAL"], {"K10": 0.14}),
        (["DEPOT", "CENTRAL"], {"K12": 0.9, "K20": 0.14}),
        (["CENTRAL", "PERI"], {"K10": 0.14, "K12": 0.09, "K21": 0.05}),
        (["DEPOT", "CENTRAL", "PERI"], {"K12": 0.9, "K20": 0.14, "K23": 0.09, "K32": 0.05}),
        (["DEPOT", "TRANS1", "CENTRAL"], {"K12": 1.1, "K23": 1.1, "K30": 0.14}),
        (["CENTRAL", "PERI1", "PERI2"], {"K10": 0.14, "K12": 0.09, "K21": 0.05, "K13": 0.03, "K31": 0.011}),
        (["DEPOT", "CENTRAL", "MET"], {"K12": 0.9, "K20": 0.1, "K23": 0.04, "K30": 0.2}),
        (["CENTRAL", "PERI"], {"K1T0": 0.14, "K1T2": 0.09, "K2T1": 0.05}),
    ]
    for advan in (5, 7):
        for comps, rates in graphs:
            for form in (("bolus", "rate") if tier == "quick" else ("bolus", "rate", "r", "d")):
                for scale in (False, True):
                    out.append(_general_model(advan, comps, rates, form, scale, des=False))
    # default dose compartment given by DEFDOSE alone: on the observation compartment although a DEPOT exists, on a peripheral
    # compartment, and with compartment names that follow no convention
    odd = [
        (graphs[1], "CENTRAL", None), (graphs[3], "CENTRAL", None), (graphs[2], "PERI", None), (graphs[4], "TRANS1", None),
        (graphs[1], "CENTRAL", {"DEPOT": "GUT", "CENTRAL": "BLOOD"}), (graphs[1], None, {"DEPOT": "GUT", "CENTRAL": "BLOOD"}),
        (graphs[2], "PERI", {"CENTRAL": "BLOOD", "PERI": "TISSUE"}),
    ]
    for advan, des in ((5, False), (13, True)):
        for (comps, rates), dose_at, names in odd:
            for form in ("bolus", "rate"):
                out.append(_general_model(advan, comps, rates, form, True, des=des, dose_at=dose_at, names=names))
    # $DES models (ADVAN6 / ADVAN13)
    for advan in ((6, 13) if tier == "thorough" else (13,)):
        for comps, rates in graphs[:7]:
            for form in (("bolus", "rate") if tier == "quick" else ("bolus", "rate", "r", "d")):
                out.append(_general_model(advan, comps, rates, form, True, des=True))
        # non-linear: Michaelis-Menten elimination and zero-order production
        for form in ("bolus", "rate"):
            out.append(_general_model(advan, ["CENTRAL"], {}, form, True, des=True,
                                      des_lines=["DADT(1) = -VM*A(1)/(KM + A(1))"], extra=[("VM", 12.0), ("KM", 30.0)]))
            out.append(_general_model(advan, ["DEPOT", "CENTRAL"], {}, form, True, des=True,
                                      des_lines=["DADT(1) = -KA*A(1)", "DADT(2) = KA*A(1) - CL/V*A(2) - VM*A(2)/(KM + A(2))"],
                                      extra=[("KA", 0.9), ("CL", 1.1), ("V", 15.0), ("VM", 6.0), ("KM", 30.0)]))
            # a transfer between two compartments written as several additive first-order terms / in factored form
            out.append(_general_model(advan, ["DEPOT", "CENTRAL"], {}, form, True, des=True,
                                      des_lines=["DADT(1) = -KA*A(1) - KB*A(1)", "DADT(2) = KA*A(1) + KB*A(1) - KE*A(2)"],
                                      extra=[("KA", 0.9), ("KB", 0.35), ("KE", 0.14)]))
            out.append(_general_model(advan, ["DEPOT", "CENTRAL"], {}, form, True, des=True,
                                      des_lines=["DADT(1) = -(KA + KB)*A(1)", "DADT(2) = (KA + KB)*A(1) - KE*A(2)"],
                                      extra=[("KA", 0.9), ("KB", 0.35), ("KE", 0.14)]))
            out.append(_general_model(advan, ["CENTRAL", "PERI"], {}, form, True, des=True,
                                      des_lines=["DADT(1) = -KE*A(1) - Q1/V1*A(1) - Q2/V1*A(1) + Q1/V2*A(2) + Q2/V2*A(2)",
                                                 "DADT(2) = Q1/V1*A(1) + Q2/V1*A(1) - Q1/V2*A(2) - Q2/V2*A(2)"],
                                      extra=[("KE", 0.14), ("Q1", 1.2), ("Q2", 0.4), ("V1", 15.0), ("V2", 30.0)]))
    return out


def _general_model(advan, comps, rates, form, scale, des, des_lines=None, extra=None, dose_at=None, names=None):
    n = len(comps)
    dose = (comps.index("DEPOT") + 1) if "DEPOT" in comps else 1
    obs = comps.index("CENTRAL") + 1
    if dose_at is not None:  # the default dose compartment is named by its attribute only (no name / position convention)
        dose = comps.index(dose_at) + 1
    shown = [(names or {}).get(c, c) for c in comps]
    params = list(extra or []) + [(k, v) for k, v in rates.items()]
    if scale:
        params.append((f"S{obs}", 0.5))
    if form == "r":
        params.append((f"R{dose}", 30.0))
    if form == "d":
        params.append((f"D{dose}", 2.5))
    pk = []
    thetas = []
    for i, (nm, val) in enumerate(params, 1):
        pk.append(f"{nm} = THETA({i})" + ("*EXP(ETA(%d))" % i if i <= 2 else ""))
        thetas.append(val)
    model_rec = "$MODEL " + " ".join(
        "COMPARTMENT=(" + c + (" DEFDOSE" if i + 1 == dose else "") + (" DEFOBSERVATION" if i + 1 == obs else "") + ")"
        for i, c in enumerate(shown))
    des_rec = ""
    if des:
        if des_lines is None:
            lines = []
            for i in range(1, n + 1):
                terms = []
                for k in rates:
                    a, b = _kij(k)
                    if a == i:
                        terms.append(f"-{k}*A({i})")
                    if b == i:
                        terms.append(f"+{k}*A({a})")
                lines.append(f"DADT({i}) = " + " ".join(terms).lstrip("+"))
            des_lines = lines
        des_rec = "$DES\n" + "\n".join(des_lines) + "\n"
    data, cols = dataset_text(form)
    code = (
        "$PROBLEM gen\n$INPUT " + " ".join(cols) + "\n$DATA data.csv IGNORE=@\n"
        f"$SUBROUTINE ADVAN{advan}" + (" TOL=9" if des else "") + "\n" + model_rec + "\n$PK\n" + "\n".join(pk) + "\n" + des_rec
        + "$ERROR\nIPRED = F\nY = IPRED + IPRED*EPS(1) + EPS(2)\n" + "".join(f"$THETA {v}\n" for v in thetas)
        + "$OMEGA 0.1\n$OMEGA 0.2\n$SIGMA 0.01\n$SIGMA 0.5\n$ESTIMATION METHOD=1 INTER\n"
    )
    return {"name": f"ADVAN{advan} {'-'.join(shown)} rates={sorted(rates)} dose={form} scale={scale}" + (" custom-des" if extra else "")
                    + (f" dose-into-{(names or {}).get(dose_at, dose_at)}" if dose_at else ""),
            "code": code, "data": data, "cols": cols, "ntheta": len(thetas), "advan": advan, "trans": 1}


def _kij(k):
    import re

    m = re.fullmatch(r"K(\d)T(\d)", k) or re.fullmatch(r"K(\d)(\d)", k)
    return int(m.group(1)), int(m.group(2))
