"""Runner core: sharded exhaustive enumeration, violation triage against the
known-findings file, replay artefacts and evidence files.

A check module (checks/cNN.py) provides

    PROPERTY = "C10"
    LEVEL = "model_checking"
    def shards(tier) -> list            # picklable shard descriptors (enumeration split)
    def run_shard(shard, tier) -> dict  # see ShardResult below
    def replay(witness) -> list[str]    # re-executes one witness on the real code,
                                        # returns list of failure strings (empty = holds)
    def classify(witness) -> str|None   # name of a known-finding pattern or None
    RULE, ASSUMPTIONS                   # strings for the evidence file

run_shard returns a dict with integer counters (summed over shards), plus
    "violations": [witness, ...]  (each witness is a JSON-able dict with key "what")
    "samples": [...]              (a few cases, JSON-able)
    "outcomes": {label: count}    (distinct observed outcome classes)
    "capped": bool                (a cap was hit => not exhaustive)
"""
from __future__ import annotations

import hashlib
import importlib
import json
import multiprocessing as mp
import os
import sys
import time
import traceback

ROOT = os.path.dirname(os.path.dirname(os.path.abspath(__file__)))
EVIDENCE_DIR = os.path.join(ROOT, "evidence")
REPLAY_DIR = os.path.join(ROOT, "replays")
KNOWN_FILE = os.path.join(ROOT, "known_findings.json")

NCPU = int(os.environ.get("VERIF_JOBS", "16"))
REPO = os.environ.get("VERIF_REPO", "/repo")  # tree under test (registered commands use /repo)
if REPO != "/repo":  # runs against a scratch tree never touch the committed evidence
    EVIDENCE_DIR = os.path.join(os.environ.get("TMPDIR", "/tmp"), "verif-alt-evidence")
    REPLAY_DIR = os.path.join(os.environ.get("TMPDIR", "/tmp"), "verif-alt-replays")


def seed() -> int:
    try:
        return int(os.environ.get("VERIF_SEED", "0"))
    except ValueError:
        return 0


def jdump(obj) -> str:
    return json.dumps(obj, sort_keys=True, default=repr)


def whash(obj) -> str:
    return hashlib.sha1(jdump(obj).encode()).hexdigest()[:12]


def load_known(prop):
    with open(KNOWN_FILE) as fh:
        data = json.load(fh)
    known = {}
    for e in data.get("findings", []):
        if e.get("property") == prop and e.get("kind") == "known":
            known[e["pattern"]] = e
    return known


def _worker(args):
    modname, shard, tier = args
    os.environ.setdefault("PYTHONHASHSEED", "0")
    mod = importlib.import_module(modname)
    t0 = time.time()
    try:
        res = mod.run_shard(shard, tier)
    except BaseException:  # a harness crash must be loud, never a silent pass
        return {"harness_error": traceback.format_exc(), "shard": repr(shard)[:300]}
    res["_wall"] = time.time() - t0
    return res


def _die_with_parent():
    """workers must not outlive a killed parent (timeouts of the harness that runs the checks)"""
    try:
        import ctypes
        import signal

        ctypes.CDLL("libc.so.6").prctl(1, signal.SIGKILL)  # PR_SET_PDEATHSIG
    except Exception:
        pass


def merge(results):
    tot = {"violations": [], "samples": [], "outcomes": {}, "capped": False}
    for r in results:
        for k, v in r.items():
            if k == "violations":
                tot["violations"].extend(v)
            elif k == "samples":
                tot["samples"].extend(v)
            elif k == "outcomes":
                for o, c in v.items():
                    tot["outcomes"][o] = tot["outcomes"].get(o, 0) + c
            elif k == "capped":
                tot["capped"] = tot["capped"] or bool(v)
            elif k.startswith("_"):
                continue
            elif isinstance(v, bool):
                tot[k] = tot.get(k, False) or v
            elif isinstance(v, (int, float)):
                tot[k] = tot.get(k, 0) + v
            elif isinstance(v, list):
                tot.setdefault(k, []).extend(v)
            elif isinstance(v, dict):
                d = tot.setdefault(k, {})
                for kk, vv in v.items():
                    if isinstance(vv, (int, float)):
                        d[kk] = d.get(kk, 0) + vv
                    else:
                        d[kk] = vv
    return tot


def pmap(modname, shard_list, tier, jobs=None):
    """Run run_shard over all shards in forked worker processes."""
    jobs = jobs or NCPU
    s = seed()
    order = list(range(len(shard_list)))
    if s:  # seed only rotates the order in which shards are explored
        k = s % max(1, len(order))
        order = order[k:] + order[:k]
    args = [(modname, shard_list[i], tier) for i in order]
    if jobs <= 1 or len(args) <= 1:
        return [_worker(a) for a in args]
    ctx = mp.get_context("fork")
    with ctx.Pool(min(jobs, len(args)), initializer=_die_with_parent, maxtasksperchild=None) as pool:
        return list(pool.imap_unordered(_worker, args, chunksize=1))


def main(mod, tier, preimport=()):
    """Drive one check module; returns process exit code."""
    prop = mod.PROPERTY
    t0 = time.time()
    os.makedirs(EVIDENCE_DIR, exist_ok=True)
    os.makedirs(REPLAY_DIR, exist_ok=True)
    for m in preimport:
        importlib.import_module(m)
    if hasattr(mod, "drive"):
        # multi-round exploration (level-synchronised BFS): the module calls core.pmap itself
        results = mod.drive(tier)
    else:
        shard_list = mod.shards(tier)
        results = pmap(mod.__name__, shard_list, tier, jobs=getattr(mod, "JOBS", None))
    herr = [r for r in results if "harness_error" in r]
    if herr:
        for r in herr[:3]:
            print("HARNESS-ERROR", prop, r["shard"])
            print(r["harness_error"])
        # a harness error is not a verdict about pharmpy: fail loudly, no VIOLATION line
        return 2
    tot = merge(results)
    if hasattr(mod, "post"):
        mod.post(tot, tier)
    if os.environ.get("VERIF_DUMP"):
        with open(os.environ["VERIF_DUMP"], "w") as fh:
            json.dump(tot["violations"], fh, indent=0, default=repr)
    known = load_known(prop)
    printed_known = set()
    unknown = []
    for w in tot["violations"]:
        pat = None
        try:
            pat = mod.classify(w)
        except Exception:
            pat = None
        if pat is not None and pat in known:
            if pat not in printed_known:
                printed_known.add(pat)
                print(f"KNOWN-FINDING: property={prop} {known[pat]['what']} [pattern={pat}]")
            continue
        unknown.append(w)
    # deduplicate unknown violations by their 'what' class, keep smallest witness first
    unknown.sort(key=lambda w: (len(jdump(w)), jdump(w)))
    reported = 0
    seen_what = set()
    for w in unknown:
        key = w.get("class", w.get("what", ""))[:200]
        if key in seen_what:
            continue
        seen_what.add(key)
        if reported >= 10:
            break
        path = os.path.join(REPLAY_DIR, f"{prop}-{whash(w)}.json")
        with open(path, "w") as fh:
            json.dump({"property": prop, "witness": w}, fh, indent=1, sort_keys=True, default=repr)
        print(f"VIOLATION property={prop} replay={path}")
        print("   ", w.get("what", "")[:400])
        reported += 1
    wall = time.time() - t0
    write_evidence(mod, tier, tot, len(unknown), sorted(printed_known), wall)
    n_k = sum(1 for w in tot["violations"]) - len(unknown)
    print(f"{prop} tier={tier} states={tot.get('states', 0)} transitions={tot.get('transitions', 0)} "
          f"evaluations={tot.get('evaluations', 0)} outcomes={len(tot['outcomes'])} "
          f"violations={len(unknown)} known_hits={n_k} capped={tot['capped']} wall={wall:.1f}s")
    return 1 if unknown else 0


def write_evidence(mod, tier, tot, nviol, known_patterns, wall):
    prop = mod.PROPERTY
    cov = {}
    for k, v in tot.items():
        if k in ("violations", "samples"):
            continue
        cov[k] = v
    samples = tot["samples"]
    # keep a handful of samples, spread over the run
    if len(samples) > 6:
        step = len(samples) // 6
        samples = samples[::step][:6]
    cov["samples"] = samples or ["(no sample recorded)"]
    cov.setdefault("states", 0)
    cov.setdefault("transitions", 0)
    cov.setdefault("evaluations", cov.get("states", 0))
    cov.setdefault("distinct_nontrivial", 0)
    cov.setdefault("traces_validated_against_impl", 0)
    cov["rule"] = getattr(mod, "RULE", "")
    cov["exhaustive"] = not tot.get("capped", False)
    cov["distinct_outcomes"] = len(tot["outcomes"])
    cov["known_finding_patterns_hit"] = known_patterns
    bound = getattr(mod, "BOUNDS", {}).get(tier)
    if bound is not None:
        cov["bound"] = bound
    ev = {
        "property_id": prop,
        "tier": tier,
        "seed": seed(),
        "level": getattr(mod, "LEVEL", "model_checking"),
        "coverage": cov,
        "assumptions": list(getattr(mod, "ASSUMPTIONS", [])),
        "wall_s": round(wall, 2),
        "violations": nviol,
    }
    path = os.path.join(EVIDENCE_DIR, f"{prop}.json")
    tmp = path + ".tmp"
    with open(tmp, "w") as fh:
        json.dump(ev, fh, indent=1, sort_keys=True, default=repr)
    os.replace(tmp, path)


def run_replay(mod, path):
    with open(path) as fh:
        data = json.load(fh)
    w = data["witness"]
    a = mod.replay(w)
    b = mod.replay(w)
    if a != b:
        print("REPLAY-NONDETERMINISTIC", a, b)
        return 2
    if a:
        print(f"VIOLATION property={mod.PROPERTY} replay={path}")
        for line in a:
            print("   ", line)
        return 1
    print("replay: property holds on this witness")
    return 0
