"""Reference models for C11 (random-effect algebra, covariance repair, conversions).

Nothing here imports pharmpy.  Three independent pieces:

* ``Ref``  - a collection of normal / joint normal distributions as plain data: an ordered list of
  blocks ``(level, names)``, a dict ``name -> mean entry`` and a symmetric dict of covariance entries
  for pairs of variables in one block.  Entries are tokens ``("s", name)`` (a symbol) or
  ``("n", number)``.  join / unjoin / select / slice / concatenate / substitute are written from
  their documented meaning.
* exact rational linear algebra (``Fraction``): determinants, principal-minor PSD / PD tests,
  inverse.
* the definitions of sd/corr form, Higham's nearest PSD matrix (via ``numpy.linalg.eigh``) and the
  defect predictor used to classify the known UCP sign finding.
"""
from __future__ import annotations

import itertools
from fractions import Fraction

ZERO = ("n", 0)


def is_zero(e):
    return e[0] == "n" and e[1] == 0


def entry_json(e):
    return [e[0], e[1]]


# ----------------------------------------------------------------------------- Ref
class Ref:
    __slots__ = ("blocks", "mean", "cov")

    def __init__(self, blocks, mean, cov):
        self.blocks = tuple((lev, tuple(ns)) for lev, ns in blocks)
        self.mean = dict(mean)
        self.cov = dict(cov)  # (n1, n2) -> entry, both orders, n1 == n2 is the variance

    # -- queries
    def names(self):
        return [n for _, ns in self.blocks for n in ns]

    def partition(self):
        return {frozenset(ns) for _, ns in self.blocks}

    def level_of(self):
        return {n: lev for lev, ns in self.blocks for n in ns}

    def block_of(self):
        return {n: i for i, (_, ns) in enumerate(self.blocks) for n in ns}

    def entry(self, a, b):
        """covariance entry of the block-diagonal composition"""
        return self.cov.get((a, b), ZERO)

    def matrix(self):
        ns = self.names()
        return [[self.entry(a, b) for b in ns] for a in ns]

    def variance_parameters(self):
        """ordered, duplicate-free names of the variance symbols; None if a variance is not a symbol"""
        out = []
        for n in self.names():
            e = self.cov[(n, n)]
            if e[0] != "s":
                return None
            if e[1] not in out:
                out.append(e[1])
        return out

    def parameter_names(self):
        s = set()
        for e in self.cov.values():
            if e[0] == "s":
                s.add(e[1])
        for e in self.mean.values():
            if e[0] == "s":
                s.add(e[1])
        return sorted(s)

    def key(self):
        ns = self.names()
        return (
            self.blocks,
            tuple(self.mean[n] for n in ns),
            tuple(self.cov[(a, b)] for _, bl in self.blocks for a in bl for b in bl),
        )

    # -- construction helpers
    def _restrict(self, blocks):
        keepn = {n for _, ns in blocks for n in ns}
        blk = {n: i for i, (_, ns) in enumerate(blocks) for n in ns}
        mean = {n: self.mean[n] for n in keepn}
        cov = {}
        for (a, b), e in self.cov.items():
            if a in keepn and b in keepn and blk[a] == blk[b]:
                cov[(a, b)] = e
        return Ref(blocks, mean, cov)

    # -- operations (the order produced here is the order-preserving one; the checks never
    #    compare the implementation's order with it directly, see order_failures)
    def unjoin(self, S):
        S = set(S)
        blocks = []
        for lev, ns in self.blocks:
            if len(ns) == 1 or not (S & set(ns)):
                blocks.append((lev, ns))
                continue
            kept = tuple(n for n in ns if n not in S)
            placed = False
            for n in ns:
                if n in S:
                    blocks.append((lev, (n,)))
                elif not placed:
                    placed = True
                    blocks.append((lev, kept))
        return self._restrict(blocks)

    def join(self, S, fill=None, template_names=None, template="IIV_{}_IIV_{}"):
        """S: names (any order).  fill: entry for new / zero covariances (None -> 0).
        template_names: dict name -> parameter name for the name_template form."""
        Sset = set(S)
        order = [n for n in self.names() if n in Sset]
        lev = self.level_of()[order[0]]
        un = self.unjoin(Sset)
        blocks = []
        placed = False
        for blev, ns in un.blocks:
            if ns[0] in Sset:
                if not placed:
                    placed = True
                    blocks.append((lev, tuple(order)))
            else:
                blocks.append((blev, ns))
        new = un._restrict([b for b in blocks if b[1][0] not in Sset])
        new.blocks = tuple(blocks)
        created = {}
        for n in order:
            new.mean[n] = self.mean[n]
        for i, a in enumerate(order):
            for j, b in enumerate(order):
                if i == j:
                    new.cov[(a, a)] = self.cov[(a, a)]
                    continue
                e = self.entry(a, b)
                if is_zero(e):
                    if fill is not None and not is_zero(fill):
                        e = fill
                    elif template_names is not None:
                        lo, hi = (a, b) if i < j else (b, a)
                        nm = template.format(template_names[lo], template_names[hi])
                        e = ("s", nm)
                        created[nm] = (self.cov[(hi, hi)], self.cov[(lo, lo)])
                new.cov[(a, b)] = e
        return new, created

    def select(self, S):
        S = set(S)
        blocks = []
        for lev, ns in self.blocks:
            k = tuple(n for n in ns if n in S)
            if k:
                blocks.append((lev, k))
        return self._restrict(blocks)

    def slice(self, i, j):
        return self._restrict(list(self.blocks[i:j]))

    def by_levels(self, levels):
        return self._restrict([b for b in self.blocks if b[0] in levels])

    def concat(self, other, front=False):
        blocks = (other.blocks + self.blocks) if front else (self.blocks + other.blocks)
        mean = dict(self.mean)
        mean.update(other.mean)
        cov = dict(self.cov)
        cov.update(other.cov)
        return Ref(blocks, mean, cov)

    def subs(self, params=None, names=None):
        """params: symbol name -> entry; names: variable name -> new variable name"""
        params = params or {}
        names = names or {}

        def fe(e):
            if e[0] == "s" and e[1] in params:
                return params[e[1]]
            return e

        def fn(n):
            return names.get(n, n)

        blocks = [(lev, tuple(fn(n) for n in ns)) for lev, ns in self.blocks]
        mean = {fn(n): fe(e) for n, e in self.mean.items()}
        cov = {(fn(a), fn(b)): fe(e) for (a, b), e in self.cov.items()}
        return Ref(blocks, mean, cov)

    def reordered(self, actual_blocks):
        """Same content with the blocks (and members) in the order the implementation produced.
        Precondition: same partition."""
        lev = self.level_of()
        blocks = [(lev[ns[0]], tuple(ns)) for ns in actual_blocks]
        return Ref(blocks, self.mean, self.cov)


def order_failures(orig, result, res_blocks, touched, selecting=False):
    """The order demands of the property.

    orig: names before; result: names after; res_blocks: the blocks (tuples of names) after;
    touched: the names given to join/unjoin (None for selection).
    Returns a list of (class, text).
    """
    fails = []
    pos = {n: i for i, n in enumerate(orig)}
    if any(n not in pos for n in result):
        return fails  # renamed / added names: nothing to say
    # members of every block keep their original relative order
    for ns in res_blocks:
        idx = [pos[n] for n in ns]
        if idx != sorted(idx):
            fails.append(("order-within-block", f"block {list(ns)} does not keep the original relative order "
                                                f"of its members (before: {orig})"))
    # untouched variables keep their relative order
    if touched is not None:
        out = [n for n in result if n not in touched]
        idx = [pos[n] for n in out]
        if idx != sorted(idx):
            fails.append(("order-untouched", f"variables outside {sorted(touched)} changed their relative order: "
                                             f"{orig} -> {result}"))
    # nothing has to move  =>  nothing moves
    expect = [n for n in orig if n in set(result)]
    if result != expect:
        rp = {n: i for i, n in enumerate(expect)}
        contiguous = True
        for ns in res_blocks:
            idx = sorted(rp[n] for n in ns)
            if idx != list(range(idx[0], idx[0] + len(idx))):
                contiguous = False
                break
        if contiguous:
            fails.append(("order-unneeded", f"every resulting block is already contiguous in the order {expect} "
                                            f"but the result is ordered {result}"))
    return fails


# ------------------------------------------------ predictor of the known order finding (triage only)
def hoisting_unjoin_blocks(blocks, S):
    """Order produced when, inside every block, the split-off variables are emitted first and the
    kept remainder of the block last (the behaviour recorded as a known finding)."""
    out = []
    for ns in blocks:
        ns = tuple(ns)
        if len(ns) > 1 and any(n in S for n in ns):
            out.extend((n,) for n in ns if n in S)
            kept = tuple(n for n in ns if n not in S)
            if kept:
                out.append(kept)
        else:
            out.append(ns)
    return out


def hoisting_join_blocks(blocks, S):
    order = tuple(n for ns in blocks for n in ns if n in S)
    out = []
    first = True
    for ns in hoisting_unjoin_blocks(blocks, S):
        if ns[0] in S:
            if first:
                first = False
                out.append(order)
        else:
            out.append(ns)
    return out


# ----------------------------------------------------------------------------- partitions
def set_partitions(n):
    """All set partitions of range(n) as lists of blocks (restricted growth strings), blocks
    ordered by smallest member, members ascending."""
    out = []

    def rec(i, rgs, mx):
        if i == n:
            k = mx + 1
            blocks = [[] for _ in range(k)]
            for idx, b in enumerate(rgs):
                blocks[b].append(idx)
            out.append(blocks)
            return
        for b in range(mx + 2):
            rec(i + 1, rgs + [b], max(mx, b))

    if n == 0:
        return [[]]
    rec(1, [0], 0)
    return out


# ----------------------------------------------------------------------------- exact algebra
def fr(x):
    return x if isinstance(x, Fraction) else Fraction(x)


def det(M):
    """exact determinant by fraction Gaussian elimination"""
    n = len(M)
    if n == 0:
        return Fraction(1)
    A = [[fr(x) for x in row] for row in M]
    d = Fraction(1)
    for c in range(n):
        p = None
        for r in range(c, n):
            if A[r][c] != 0:
                p = r
                break
        if p is None:
            return Fraction(0)
        if p != c:
            A[p], A[c] = A[c], A[p]
            d = -d
        d *= A[c][c]
        for r in range(c + 1, n):
            f = A[r][c] / A[c][c]
            if f != 0:
                for k in range(c, n):
                    A[r][k] -= f * A[c][k]
    return d


def sub(M, idx):
    return [[M[i][j] for j in idx] for i in idx]


def is_psd_exact(M):
    """symmetric M is PSD iff every principal minor is >= 0"""
    n = len(M)
    for k in range(1, n + 1):
        for idx in itertools.combinations(range(n), k):
            if det(sub(M, idx)) < 0:
                return False
    return True


def is_pd_exact(M):
    """symmetric M is PD iff every leading principal minor is > 0"""
    n = len(M)
    for k in range(1, n + 1):
        if det(sub(M, list(range(k)))) <= 0:
            return False
    return True


def inverse(M):
    n = len(M)
    A = [[fr(x) for x in row] + [Fraction(int(i == j)) for j in range(n)] for i, row in enumerate(M)]
    for c in range(n):
        p = next(r for r in range(c, n) if A[r][c] != 0)
        A[p], A[c] = A[c], A[p]
        pv = A[c][c]
        A[c] = [x / pv for x in A[c]]
        for r in range(n):
            if r != c and A[r][c] != 0:
                f = A[r][c]
                A[r] = [x - f * y for x, y in zip(A[r], A[c])]
    return [row[n:] for row in A]


def sym_from_lower(n, vals):
    """vals in row-major lower-triangle order"""
    M = [[None] * n for _ in range(n)]
    it = iter(vals)
    for i in range(n):
        for j in range(i + 1):
            v = next(it)
            M[i][j] = v
            M[j][i] = v
    return M


def lower_positions(n):
    return [(i, j) for i in range(n) for j in range(i + 1)]


# ----------------------------------------------------------------------------- numeric references
def higham_nearest_psd(A):
    """Nearest PSD matrix in Frobenius norm of a symmetric matrix: clip negative eigenvalues."""
    import numpy as np

    w, V = np.linalg.eigh(np.asarray(A, dtype=float))
    return (V * np.maximum(w, 0.0)) @ V.T


def min_eig(A):
    import numpy as np

    A = np.asarray(A, dtype=float)
    return float(np.linalg.eigvalsh((A + A.T) / 2).min())


def sdcorr(A):
    """definition: sd on the diagonal, correlation off the diagonal"""
    import math

    n = len(A)
    sd = [math.sqrt(float(A[i][i])) for i in range(n)]
    return [[sd[i] if i == j else float(A[i][j]) / (sd[i] * sd[j]) for j in range(n)] for i in range(n)]


def sdcorr_inv(R):
    n = len(R)
    return [[R[i][i] ** 2 if i == j else R[i][j] * R[i][i] * R[j][j] for j in range(n)] for i in range(n)]


def cholesky(A):
    import math

    n = len(A)
    L = [[0.0] * n for _ in range(n)]
    for i in range(n):
        for j in range(i + 1):
            s = float(A[i][j]) - sum(L[i][k] * L[j][k] for k in range(j))
            L[i][j] = math.sqrt(s) if i == j else s / L[j][j]
    return L


def abs_cholesky_product(A):
    """What comes back when the sign of the off-diagonal Cholesky elements is dropped:
    |L| |L|^T  (predictor for the known UCP finding)."""
    L = cholesky(A)
    n = len(A)
    La = [[abs(x) for x in row] for row in L]
    return [[sum(La[i][k] * La[j][k] for k in range(n)) for j in range(n)] for i in range(n)]


def close(a, b, rtol=1e-7):
    try:
        a = float(a)
        b = float(b)
    except (TypeError, ValueError):
        return False
    if a != a or b != b:
        return False
    if a in (float("inf"), float("-inf")) or b in (float("inf"), float("-inf")):
        return a == b  # an infinite value is never "close" to a finite one (the tolerance itself would be infinite)
    return abs(a - b) <= rtol * max(1.0, abs(a), abs(b))
