"""crashfs - enumerate crash states of a file-system workload.

Inside the harness process only, the mutating entry points that pharmpy's database/context
code reaches (builtins.open / io.open in write modes, os.open with O_CREAT, os.mkdir,
os.unlink, os.rmdir, os.rename, os.replace, os.symlink, os.utime) are wrapped.  Every
mutating operation below a watched root is a *crash point*: immediately before it is
performed a callback receives the operation; the harness uses it to snapshot the directory
tree ("the process died here").  File data written through open(..., 'w'/'a') is buffered
in user space and reaches the file in one raw write at close(), exactly as CPython's
buffered writer does for small files; that write is its own crash point with torn variants.

Crash model: process death.  Completed calls persist, the call in flight is absent or (for a
data write) torn, user-space buffers are lost.  No reordering below completed calls.
"""
from __future__ import annotations

import builtins
import io
import os
import shutil


class Recorder:
    def __init__(self, root, on_op):
        self.root = os.path.realpath(root)
        self.on_op = on_op  # callable(op: dict) called BEFORE the operation is performed
        self.ops = []
        self.active = False
        self._saved = {}

    def _watched(self, path):
        try:
            p = os.path.abspath(os.fspath(path))
        except TypeError:
            return False
        if isinstance(p, bytes):
            p = p.decode()
        rp = os.path.realpath(os.path.dirname(p))
        return (rp + os.sep).startswith(self.root + os.sep) or rp == self.root

    def _op(self, kind, path, **kw):
        op = {"i": len(self.ops), "kind": kind, "path": os.path.relpath(os.path.abspath(os.fspath(path)), self.root)}
        op.update(kw)
        self.ops.append(op)
        self.on_op(op)
        return op

    # ------------------------------------------------------------------
    def __enter__(self):
        rec = self
        S = self._saved
        S["open"] = builtins.open
        S["io_open"] = io.open
        for nm in ("open", "mkdir", "unlink", "remove", "rmdir", "rename", "replace", "symlink", "utime", "makedirs"):
            S["os_" + nm] = getattr(os, nm)
        real_open = S["open"]

        class WFile:
            """user-space buffered writer: create/truncate at open, one raw write at close"""

            def __init__(self, path, mode, kwargs):
                self.path = path
                self.mode = mode
                self.kwargs = {k: v for k, v in kwargs.items() if k in ("encoding", "errors", "newline")}
                self.binary = "b" in mode
                self.buf = io.BytesIO() if self.binary else io.StringIO(newline=self.kwargs.get("newline"))
                self.closed = False
                self.name = os.fspath(path)
                exists = os.path.exists(path)
                if "x" in mode and exists:
                    raise FileExistsError(17, "File exists", self.name)
                if "a" in mode:
                    if not exists:
                        rec._op("create", path)
                        real_open(path, "ab").close()
                else:
                    rec._op("create" if not exists else "truncate", path)
                    real_open(path, "wb").close()

            def write(self, data):
                return self.buf.write(data)

            def writelines(self, lines):
                for ln in lines:
                    self.buf.write(ln)

            def flush(self):
                pass

            def writable(self):
                return True

            def readable(self):
                return False

            def seekable(self):
                return False

            def tell(self):
                return self.buf.tell()

            def close(self):
                if self.closed:
                    return
                self.closed = True
                data = self.buf.getvalue()
                if not self.binary:
                    enc = self.kwargs.get("encoding") or "utf-8"
                    data = data.encode(enc, self.kwargs.get("errors") or "strict")
                if data:
                    rec._op("write", self.path, data=data)
                    with real_open(self.path, "ab") as fh:
                        fh.write(data)

            def __enter__(self):
                return self

            def __exit__(self, *a):
                self.close()

            def __iter__(self):
                raise io.UnsupportedOperation("not readable")

        def w_open(file, mode="r", *args, **kwargs):
            if rec.active and isinstance(file, (str, bytes, os.PathLike)) and any(c in mode for c in "wax") and "+" not in mode \
                    and rec._watched(file):
                if args:
                    names = ("buffering", "encoding", "errors", "newline")
                    for n, v in zip(names, args):
                        kwargs[n] = v
                return WFile(file, mode, kwargs)
            return real_open(file, mode, *args, **kwargs)

        def w_os_open(path, flags, mode=0o777, *, dir_fd=None):
            if rec.active and dir_fd is None and (flags & os.O_CREAT) and rec._watched(path):
                if not os.path.exists(path):
                    rec._op("create", path)
                elif flags & os.O_EXCL:
                    pass
                elif flags & os.O_TRUNC:
                    rec._op("truncate", path)
            if dir_fd is None:
                return S["os_open"](path, flags, mode)
            return S["os_open"](path, flags, mode, dir_fd=dir_fd)

        def wrap1(nm, kind):
            real = S["os_" + nm]

            def f(path, *a, **kw):
                if rec.active and "dir_fd" not in kw and rec._watched(path):
                    rec._op(kind, path)
                return real(path, *a, **kw)
            return f

        def w_rename(src, dst, *a, **kw):
            if rec.active and rec._watched(dst):
                rec._op("rename", dst, src=os.fspath(src))
            return S["os_rename"](src, dst, *a, **kw)

        def w_replace(src, dst, *a, **kw):
            if rec.active and rec._watched(dst):
                rec._op("rename", dst, src=os.fspath(src))
            return S["os_replace"](src, dst, *a, **kw)

        def w_symlink(src, dst, *a, **kw):
            if rec.active and rec._watched(dst):
                rec._op("symlink", dst, target=os.fspath(src))
            return S["os_symlink"](src, dst, *a, **kw)

        def w_utime(path, *a, **kw):
            # timestamps are not part of the observable state
            return S["os_utime"](path, *a, **kw)

        builtins.open = w_open
        io.open = w_open
        os.open = w_os_open
        os.mkdir = wrap1("mkdir", "mkdir")
        os.unlink = wrap1("unlink", "unlink")
        os.remove = wrap1("remove", "unlink")
        os.rmdir = wrap1("rmdir", "rmdir")
        os.rename = w_rename
        os.replace = w_replace
        os.symlink = w_symlink
        os.utime = w_utime
        self.active = True
        return self

    def __exit__(self, *a):
        self.active = False
        S = self._saved
        builtins.open = S["open"]
        io.open = S["io_open"]
        for nm in ("open", "mkdir", "unlink", "remove", "rmdir", "rename", "replace", "symlink", "utime", "makedirs"):
            setattr(os, nm, S["os_" + nm])


def tree_digest(root):
    """canonical content of a directory tree (relative paths, file bytes, symlink targets)"""
    import hashlib

    h = hashlib.sha1()
    for d, dirs, files in os.walk(root):
        dirs.sort()
        rel = os.path.relpath(d, root)
        h.update(b"D" + rel.encode())
        for nm in sorted(dirs):
            p = os.path.join(d, nm)
            if os.path.islink(p):
                h.update(b"L" + nm.encode() + os.readlink(p).encode())
        for nm in sorted(files):
            p = os.path.join(d, nm)
            if os.path.islink(p):
                h.update(b"L" + nm.encode() + os.readlink(p).encode())
            else:
                with open(p, "rb") as fh:
                    h.update(b"F" + nm.encode() + b"\0" + fh.read())
    return h.hexdigest()


def copy_tree(src, dst):
    if os.path.exists(dst):
        shutil.rmtree(dst)
    shutil.copytree(src, dst, symlinks=True)
