"""nmref.code - independent tokenizer, recursive-descent parser and interpreter for NM-TRAN
abbreviated code, written from the Fortran / NONMEM-guide rules (NOT from pharmpy's grammar).

Rules: DESIGN.md section B.  Anything outside the supported subset raises Unsupported.
"""
from __future__ import annotations

import math
import re


class Unsupported(Exception):
    pass


class ParseError(Exception):
    pass


SMALLZ = 2.8e-103

_TOKEN = re.compile(
    r"""
    (?P<ws>[ \t]+)
  | (?P<num>(?:\d+\.\d*|\.\d+|\d+)(?:[EeDd][+-]?\d+)?)
  | (?P<dotop>\.(?:LT|LE|GT|GE|EQ|NE|EQN|NEN|AND|OR|NOT|TRUE|FALSE)\.)
  | (?P<id>[A-Za-z_][A-Za-z0-9_]*)
  | (?P<op>\*\*|==|/=|<=|>=|<|>|[-+*/(),=])
    """,
    re.VERBOSE | re.IGNORECASE,
)


def tokenize(line):
    toks = []
    pos = 0
    while pos < len(line):
        # a number followed by a dot-operator:  1.EQ.2  -> treat "1" "." ambiguity in favour of operator
        m = _TOKEN.match(line, pos)
        if not m:
            raise ParseError(f"bad character {line[pos]!r} in {line!r}")
        kind = m.lastgroup
        text = m.group()
        if kind == "num":
            # "1.EQ.2": do not swallow the dot of a following dot-operator
            m2 = re.match(r"(\d+)\.(?:LT|LE|GT|GE|EQ|NE|EQN|NEN|AND|OR)\.", line[pos:], re.IGNORECASE)
            if m2:
                text = m2.group(1)
                toks.append(("num", text))
                pos += len(text)
                continue
        pos = m.end()
        if kind == "ws":
            continue
        if kind == "dotop":
            toks.append(("op", text.upper()))
        elif kind == "id":
            toks.append(("id", text.upper()))
        else:
            toks.append((kind, text))
    return toks


def logical_lines(text):
    """strip comments, join continuation lines (& at end), drop blank lines"""
    out = []
    cur = ""
    for raw in text.splitlines():
        line = raw.split(";", 1)[0].rstrip()
        if not line.strip():
            continue
        if line.lstrip().startswith('"'):
            raise Unsupported("verbatim code")
        if line.endswith("&"):
            cur += line[:-1] + " "
            continue
        out.append(cur + line)
        cur = ""
    if cur.strip():
        out.append(cur)
    return out


RELOPS = {".LT.": "<", "<": "<", ".LE.": "<=", "<=": "<=", ".GT.": ">", ">": ">", ".GE.": ">=", ">=": ">=",
          ".EQ.": "==", "==": "==", ".NE.": "!=", "/=": "!=", ".EQN.": "==", ".NEN.": "!="}


class Parser:
    def __init__(self, toks):
        self.t = toks
        self.i = 0

    def peek(self):
        return self.t[self.i] if self.i < len(self.t) else (None, None)

    def next(self):
        tok = self.peek()
        self.i += 1
        return tok

    def accept(self, text):
        if self.peek()[1] == text:
            self.i += 1
            return True
        return False

    def expect(self, text):
        if not self.accept(text):
            raise ParseError(f"expected {text!r} at token {self.i}: {self.t}")

    def at_end(self):
        return self.i >= len(self.t)

    # expr grammar ---------------------------------------------------------
    def expr(self):
        return self.or_()

    def or_(self):
        a = self.and_()
        while self.accept(".OR."):
            a = ("or", a, self.and_())
        return a

    def and_(self):
        a = self.not_()
        while self.accept(".AND."):
            a = ("and", a, self.not_())
        return a

    def not_(self):
        if self.accept(".NOT."):
            return ("not", self.not_())
        return self.rel()

    def rel(self):
        a = self.arith()
        k, t = self.peek()
        if t in RELOPS:
            self.next()
            b = self.arith()
            return ("rel", RELOPS[t], a, b)
        return a

    def arith(self):
        k, t = self.peek()
        if t in ("+", "-"):
            self.next()
            a = self.term()
            if t == "-":
                a = ("neg", a)
        else:
            a = self.term()
        while True:
            k, t = self.peek()
            if t == "+":
                self.next()
                a = ("add", a, self.term())
            elif t == "-":
                self.next()
                a = ("sub", a, self.term())
            else:
                return a

    def term(self):
        a = self.factor()
        while True:
            k, t = self.peek()
            if t == "*":
                self.next()
                a = ("mul", a, self.signed_factor())
            elif t == "/":
                self.next()
                a = ("div", a, self.signed_factor())
            else:
                return a

    def signed_factor(self):
        # a*-b  (extension accepted by the compilers NM-TRAN targets)
        k, t = self.peek()
        if t == "-":
            self.next()
            return ("neg", self.factor())
        if t == "+":
            self.next()
        return self.factor()

    def factor(self):
        a = self.primary()
        if self.accept("**"):
            k, t = self.peek()
            if t == "-":
                self.next()
                b = ("neg", self.factor())
            elif t == "+":
                self.next()
                b = self.factor()
            else:
                b = self.factor()  # right associative
            return ("pow", a, b)
        return a

    def primary(self):
        k, t = self.next()
        if k == "num":
            return ("num", float(t.upper().replace("D", "E")))
        if t == "(":
            e = self.expr()
            self.expect(")")
            return e
        if t == ".TRUE.":
            return ("num", 1.0)
        if t == ".FALSE.":
            return ("num", 0.0)
        if k == "id":
            if self.accept("("):
                args = [self.expr()]
                while self.accept(","):
                    args.append(self.expr())
                self.expect(")")
                return ("call", t, args)
            return ("var", t)
        raise ParseError(f"unexpected token {t!r} in {self.t}")


# --------------------------------------------------------------------------- statements
def parse_code(text):
    """-> list of statements:
    ('assign', target, expr) ; target = ('var', NAME) | ('idx', NAME, n)
    ('if', [(cond, [stmts]), ...], else_stmts or None)
    """
    lines = [tokenize(ln) for ln in logical_lines(text)]
    pos = [0]

    def parse_block(terminators):
        out = []
        while pos[0] < len(lines):
            toks = lines[pos[0]]
            head = toks[0][1] if toks else None
            joined = [t for _, t in toks]
            # normalise "END IF" / "ELSE IF"
            if head == "END" and len(joined) >= 2 and joined[1] == "IF":
                kind = "ENDIF"
            elif head == "ENDIF":
                kind = "ENDIF"
            elif head == "ELSEIF" or (head == "ELSE" and len(joined) >= 2 and joined[1] == "IF"):
                kind = "ELSEIF"
            elif head == "ELSE":
                kind = "ELSE"
            else:
                kind = None
            if kind in terminators:
                return out, kind
            if kind is not None:
                raise ParseError(f"unexpected {kind}")
            pos[0] += 1
            out.append(parse_statement(toks))
        if terminators:
            raise ParseError("missing ENDIF")
        return out, None

    def parse_statement(toks):
        head = toks[0][1]
        if head in ("CALL", "EXIT", "RETURN", "DO", "ENDDO", "WRITE", "PRINT", "OPEN", "CLOSE", "REWIND", "COMRES", "WHILE"):
            raise Unsupported(head)
        if head == "IF":
            p = Parser(toks)
            p.next()
            p.expect("(")
            cond = p.expr()
            p.expect(")")
            if p.accept("THEN"):
                if not p.at_end():
                    raise ParseError("tokens after THEN")
                branches = []
                body, term = parse_block({"ELSEIF", "ELSE", "ENDIF"})
                branches.append((cond, body))
                else_body = None
                while True:
                    ttoks = lines[pos[0]]
                    pos[0] += 1
                    if term == "ENDIF":
                        break
                    if term == "ELSEIF":
                        p2 = Parser(ttoks)
                        p2.next()
                        if ttoks[0][1] == "ELSE":
                            p2.next()
                        p2.expect("(")
                        c2 = p2.expr()
                        p2.expect(")")
                        p2.expect("THEN")
                        body, term = parse_block({"ELSEIF", "ELSE", "ENDIF"})
                        branches.append((c2, body))
                    elif term == "ELSE":
                        else_body, term = parse_block({"ENDIF"})
                return ("if", branches, else_body)
            # logical IF
            rest = toks[p.i:]
            st = parse_statement(rest)
            if st[0] != "assign":
                raise Unsupported("logical IF with non-assignment")
            return ("if", [(cond, [st])], None)
        # assignment
        p = Parser(toks)
        k, name = p.next()
        if k != "id":
            raise ParseError(f"bad statement {toks}")
        target = ("var", name)
        if p.accept("("):
            k2, n = p.next()
            if k2 != "num":
                raise Unsupported("non-constant subscript")
            p.expect(")")
            target = ("idx", name, int(float(n)))
        p.expect("=")
        e = p.expr()
        if not p.at_end():
            raise ParseError(f"trailing tokens in {toks}")
        return ("assign", target, e)

    prog, _ = parse_block(set())
    return prog


# --------------------------------------------------------------------------- evaluation
class Undefined(Exception):
    """arithmetic outside the real domain / division by zero"""


def _phi(x):
    return 0.5 * (1.0 + math.erf(x / math.sqrt(2.0)))


def _pexp(x):
    return math.exp(100.0) if x > 100 else math.exp(x)


def _plog(x):
    return math.log(SMALLZ) if x < SMALLZ else math.log(x)


def _plog10(x):
    return math.log10(SMALLZ) if x < SMALLZ else math.log10(x)


def _psqrt(x):
    return 0.0 if x < 0 else math.sqrt(x)


def _pdz(x):
    return 1.0 / SMALLZ if abs(x) < SMALLZ else 1.0 / x


def _pzr(x):
    return SMALLZ if abs(x) < SMALLZ else x


def _pnp(x):
    return SMALLZ if x < SMALLZ else x


def _phe(x):
    return 100.0 if x > 100 else x


def _png(x):
    return 0.0 if x < 0 else x


def _int(x):
    return float(math.trunc(x))


def _mod(a, b):
    if b == 0:
        raise Undefined("MOD by zero")
    return a - _int(a / b) * b


def _log(x):
    if x <= 0:
        raise Undefined("log")
    return math.log(x)


def _log10(x):
    if x <= 0:
        raise Undefined("log10")
    return math.log10(x)


def _sqrt(x):
    if x < 0:
        raise Undefined("sqrt")
    return math.sqrt(x)


def _gamln(x):
    if x <= 0:
        raise Undefined("gamln")
    return math.lgamma(x)


FUNCS = {
    "EXP": math.exp, "DEXP": math.exp, "LOG": _log, "DLOG": _log, "LOG10": _log10, "SQRT": _sqrt, "DSQRT": _sqrt,
    "ABS": abs, "DABS": abs, "INT": _int, "SIN": math.sin, "COS": math.cos, "TAN": math.tan, "ASIN": math.asin,
    "ACOS": math.acos, "ATAN": math.atan, "GAMLN": _gamln, "PHI": _phi, "PEXP": _pexp, "PLOG": _plog,
    "PLOG10": _plog10, "PSQRT": _psqrt, "PDZ": _pdz, "PZR": _pzr, "PNP": _pnp, "PHE": _phe, "PNG": _png,
    "MOD": _mod, "MIN": min, "MAX": max,
}
VECTORS = ("THETA", "ETA", "EPS", "ERR", "A", "DADT", "A_0", "A_INITIAL")


class Env:
    """numeric environment.  `vals`: scalars by upper-case name; `vec`: dict name -> {index: value}.
    Reading a scalar never assigned returns 0.0 and taints the result (NM-TRAN leaves it uninitialised)."""

    def __init__(self, vals=None, vec=None, data=None):
        self.vals = dict(vals or {})
        self.vec = {k: dict(v) for k, v in (vec or {}).items()}
        self.data = dict(data or {})
        self.tainted = set()  # names whose value derives from an uninitialised read
        self.uninit_reads = set()


def eval_expr(e, env, taint=None):
    k = e[0]
    if k == "num":
        return e[1]
    if k == "var":
        name = e[1]
        if name in env.vals:
            if taint is not None and name in env.tainted:
                taint.add(name)
            return env.vals[name]
        if name in env.data:
            return env.data[name]
        env.uninit_reads.add(name)
        if taint is not None:
            taint.add(name)
        return 0.0
    if k == "call":
        name, args = e[1], e[2]
        if name in VECTORS:
            if len(args) != 1 or args[0][0] != "num":
                raise Unsupported("non-constant subscript")
            idx = int(args[0][1])
            if name == "ERR":
                name = "EPS"
            try:
                return env.vec[name][idx]
            except KeyError:
                if name in ("A", "DADT", "A_0"):
                    raise Unsupported(f"{name}({idx}) not available here")
                raise Undefined(f"{name}({idx}) out of range")
        f = FUNCS.get(name)
        if f is None:
            raise Unsupported(f"function {name}")
        vals = [eval_expr(a, env, taint) for a in args]
        try:
            return float(f(*vals))
        except (OverflowError, ValueError, ZeroDivisionError) as err:
            raise Undefined(str(err))
        except TypeError:
            raise ParseError(f"wrong number of arguments for {name}")
    if k == "neg":
        return -eval_expr(e[1], env, taint)
    if k in ("add", "sub", "mul", "div", "pow"):
        a = eval_expr(e[1], env, taint)
        b = eval_expr(e[2], env, taint)
        try:
            if k == "add":
                return a + b
            if k == "sub":
                return a - b
            if k == "mul":
                return a * b
            if k == "div":
                if b == 0:
                    raise Undefined("division by zero")
                return a / b
            if a == 0 and b < 0:
                raise Undefined("0**negative")
            r = a**b
            if isinstance(r, complex):
                raise Undefined("negative base with fractional exponent")
            return r
        except OverflowError as err:
            raise Undefined(str(err))
    if k == "rel":
        a = eval_expr(e[2], env, taint)
        b = eval_expr(e[3], env, taint)
        op = e[1]
        r = {"<": a < b, "<=": a <= b, ">": a > b, ">=": a >= b, "==": a == b, "!=": a != b}[op]
        return 1.0 if r else 0.0
    if k == "and":
        return 1.0 if (eval_expr(e[1], env, taint) != 0 and eval_expr(e[2], env, taint) != 0) else 0.0
    if k == "or":
        return 1.0 if (eval_expr(e[1], env, taint) != 0 or eval_expr(e[2], env, taint) != 0) else 0.0
    if k == "not":
        return 0.0 if eval_expr(e[1], env, taint) != 0 else 1.0
    raise ParseError(f"bad node {k}")


def execute(prog, env, trace=None):
    """Run statements sequentially, updating env.  trace (list) receives (name, value, tainted) after every
    assignment executed."""
    for st in prog:
        if st[0] == "assign":
            taint = set()
            v = eval_expr(st[2], env, taint)
            tgt = st[1]
            if tgt[0] == "var":
                name = tgt[1]
                env.vals[name] = v
                if taint:
                    env.tainted.add(name)
                else:
                    env.tainted.discard(name)
                if trace is not None:
                    trace.append((name, v, bool(taint)))
            else:
                env.vec.setdefault(tgt[1], {})[tgt[2]] = v
                nm = f"{tgt[1]}({tgt[2]})"
                if taint:
                    env.tainted.add(nm)
                else:
                    env.tainted.discard(nm)
        elif st[0] == "if":
            done = False
            cond_taint = set()
            for cond, body in st[1]:
                c = eval_expr(cond, env, cond_taint)
                if c != 0:
                    execute(body, env, trace)
                    done = True
                    break
            if not done and st[2] is not None:
                execute(st[2], env, trace)
            if cond_taint:
                # everything assigned anywhere in this IF depends on an uninitialised value
                for name in assigned_names(st):
                    env.tainted.add(name)
    return env


def assigned_names(st):
    out = set()
    if st[0] == "assign":
        t = st[1]
        out.add(t[1] if t[0] == "var" else f"{t[1]}({t[2]})")
    elif st[0] == "if":
        for _, body in st[1]:
            for s in body:
                out |= assigned_names(s)
        for s in st[2] or []:
            out |= assigned_names(s)
    return out


def all_assigned(prog):
    out = set()
    for st in prog:
        out |= assigned_names(st)
    return out
