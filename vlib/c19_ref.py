"""Reference model for C19 (ranking, selection criteria, result statistics).

Everything in here is written from the documented definitions and never calls the pharmpy
functions under test (rank_models, is_strictness_fulfilled, calculate_aic/bic, lrt.*, the
bootstrap/cdd/simeval result calculators, the shrinkage functions, se_delta_method).

Parts
  * abstract corpus models: which parameters exist, their kind (theta/omega/sigma), bounds,
    fixed flags and which individual parameter they belong to - annotated by hand per edit
  * information criteria from the documented formulas
  * chi-square tail / inverse tail through the regularised incomplete gamma function
  * a small parser/evaluator for the documented strictness grammar (three valued: True/False/AMBIG)
  * the ranking reference + the table checker
  * numpy one-liners for the tool statistics
"""
from __future__ import annotations

import math

import numpy as np

NAN = float("nan")
INF = float("inf")
RTOL = 1e-7


def isnan(x):
    try:
        return x is None or math.isnan(float(x))
    except (TypeError, ValueError):
        return False


def close(a, b, rtol=RTOL, atol=1e-10):
    """NaN == NaN, inf == inf (same sign), otherwise relative+absolute tolerance."""
    a = float(a)
    b = float(b)
    if math.isnan(a) or math.isnan(b):
        return math.isnan(a) and math.isnan(b)
    if math.isinf(a) or math.isinf(b):
        return a == b
    return abs(a - b) <= atol + rtol * max(abs(a), abs(b))


# ============================================================================ abstract corpus
class Abs:
    """Hand-annotated structure of one corpus model (derived from the pheno example)."""

    def __init__(self):
        # name -> dict(kind=theta|omega|sigma, fix, value, lower, upper)
        self.params = {}
        self.order = []
        # individual parameter groups: name -> dict(members=[theta/sigma names], omega=name|None)
        self.groups = {}
        self.nids = None
        self.nobs = None
        self.edits = ()

    def add(self, name, kind, value, lower, upper, fix=False):
        self.params[name] = dict(kind=kind, fix=fix, value=value, lower=lower, upper=upper)
        self.order.append(name)

    def remove(self, name):
        del self.params[name]
        self.order.remove(name)

    # ---- counts used by the documented criteria
    @property
    def estimated(self):
        return [n for n in self.order if not self.params[n]["fix"]]

    @property
    def n_est(self):
        return len(self.estimated)

    @property
    def n_all(self):
        return len(self.order)

    def _group_random(self, g):
        om = self.groups[g]["omega"]
        if om is None:
            return False
        p = self.params[om]
        return not (p["fix"] and p["value"] == 0)

    @property
    def random_params(self):
        """estimated omegas + estimated parameters of individual parameters that carry a random effect"""
        out = []
        for n in self.estimated:
            if self.params[n]["kind"] == "omega":
                out.append(n)
        for g, d in self.groups.items():
            if self._group_random(g):
                for n in d["members"]:
                    if not self.params[n]["fix"] and n not in out:  # a parameter shared by two groups counts once
                        out.append(n)
        return out

    @property
    def k_random(self):
        return len(self.random_params)

    @property
    def k_fixed(self):
        return self.n_est - self.k_random

    @property
    def k_iiv_omegas(self):
        return len([n for n in self.estimated if self.params[n]["kind"] == "omega"])

    def names_of(self, kind, only_estimated=True):
        names = self.estimated if only_estimated else self.order
        return [n for n in names if self.params[n]["kind"] == kind]


def base_abs(nids, nobs):
    a = Abs()
    a.add("POP_CL", "theta", 0.00469307, 0.0, INF)
    a.add("POP_VC", "theta", 1.00916, 0.0, INF)
    a.add("COVAPGR", "theta", 0.1, -0.99, INF)
    a.add("IIV_CL", "omega", 0.0309626, 0.0, INF)
    a.add("IIV_VC", "omega", 0.031128, 0.0, INF)
    a.add("SIGMA", "sigma", 0.0130865, 0.0, INF)
    a.groups = {
        "CL": dict(members=["POP_CL"], omega="IIV_CL"),
        "VC": dict(members=["POP_VC", "COVAPGR"], omega="IIV_VC"),
        "RUV": dict(members=["SIGMA"], omega=None),
    }
    a.nids = nids
    a.nobs = nobs
    return a


def apply_abs_edit(a, edit, nids12=None, nobs12=None):
    """Effect of one modelling edit on the abstract model (written from what the edit means)."""
    if edit == "rmiivcl":  # remove_iiv(model, 'CL')
        a.remove("IIV_CL")
        a.groups["CL"]["omega"] = None
    elif edit == "periph":  # add_peripheral_compartment: two new structural thetas without IIV
        a.add("POP_QP1", "theta", None, 0.0, INF)
        a.add("POP_VP1", "theta", None, 0.0, INF)
        a.groups["QP1"] = dict(members=["POP_QP1"], omega=None)
        a.groups["VP1"] = dict(members=["POP_VP1"], omega=None)
    elif edit == "iivq":  # add_iiv(model, 'QP1', 'exp')
        a.add("IIV_QP1", "omega", 0.09, -INF, INF)
        a.groups["QP1"]["omega"] = "IIV_QP1"
    elif edit == "fixcov":  # fix_parameters(model, ['COVAPGR'])
        a.params["COVAPGR"]["fix"] = True
    elif edit == "comb":  # set_combined_error_model: SIGMA replaced by two sigmas
        a.remove("SIGMA")
        a.add("sigma_prop", "sigma", 0.09, -INF, INF)
        a.add("sigma_add", "sigma", None, -INF, INF)
        a.groups["RUV"]["members"] = ["sigma_prop", "sigma_add"]
    elif edit == "joint":  # create_joint_distribution(ETA_CL, ETA_VC): one covariance parameter
        a.add("IIV_CL_IIV_VC", "omega", None, -INF, INF)
    elif edit == "zerocl":  # fix_parameters_to(model, {'IIV_CL': 0}): the eta is no random effect any more
        a.params["IIV_CL"]["fix"] = True
        a.params["IIV_CL"]["value"] = 0
    elif edit == "fixomv":  # fix_parameters(model, ['IIV_VC']) at its non-zero value
        a.params["IIV_VC"]["fix"] = True
    elif edit == "shareq":  # QP1 = <old expression> * POP_CL: one theta in an individual parameter with and one without eta
        a.groups["QP1"]["members"] = a.groups["QP1"]["members"] + ["POP_CL"]
    elif edit == "sub12":  # dataset restricted to the first 12 individuals
        a.nids = nids12
        a.nobs = nobs12
    else:
        raise ValueError(edit)
    a.edits = a.edits + (edit,)
    return a


# ============================================================================ criteria
def ref_aic(a, ofv):
    return ofv + 2 * a.n_est


def ref_bic(a, ofv, bic_type):
    if bic_type == "fixed":
        pen = a.n_est * math.log(a.nobs)
    elif bic_type == "random":
        pen = a.n_est * math.log(a.nids)
    elif bic_type == "iiv":
        pen = a.k_iiv_omegas * math.log(a.nids)
    elif bic_type == "mixed":
        pen = a.k_random * math.log(a.nids) + a.k_fixed * math.log(a.nobs)
    else:
        raise ValueError(bic_type)
    return ofv + pen


def ref_criterion(a, ofv, rank_type, bic_type=None):
    if rank_type in ("ofv", "lrt"):
        return ofv
    if rank_type == "aic":
        return ref_aic(a, ofv)
    if rank_type == "bic":
        return ref_bic(a, ofv, bic_type)
    raise ValueError(rank_type)


# ============================================================================ chi-square
def chi2_sf(x, df):
    """P(X > x) for X ~ chi2(df), df > 0, through the regularised upper incomplete gamma function."""
    from scipy.special import gammaincc

    if x <= 0:
        return 1.0
    return float(gammaincc(df / 2.0, x / 2.0))


def chi2_isf(alpha, df):
    from scipy.special import gammainccinv

    return 2.0 * float(gammainccinv(df / 2.0, alpha))


def lrt_cutoff(df, alpha):
    """None when the difference in parameter count is 0 (no chi-square distribution to refer to)."""
    if df == 0:
        return None
    if df > 0:
        return chi2_isf(alpha, df)
    return -chi2_isf(alpha, -df)


# ============================================================================ strictness grammar
class _Amb:
    def __repr__(self):
        return "AMBIG"


AMBIG = _Amb()

BOOL_NAMES = (
    "minimization_successful", "rounding_errors", "maxevals_exceeded",
    "final_zero_gradient", "final_zero_gradient_theta", "final_zero_gradient_omega",
    "final_zero_gradient_sigma",
    "estimate_near_boundary", "estimate_near_boundary_theta", "estimate_near_boundary_omega",
    "estimate_near_boundary_sigma",
)
NUM_NAMES = ("sigdigs", "rse", "rse_theta", "rse_omega", "rse_sigma", "condition_number")
OPS = ("<=", ">=", "==", "!=", "<", ">")


def tokenize(s):
    s = s.lower()
    toks = []
    i = 0
    while i < len(s):
        c = s[i]
        if c.isspace():
            i += 1
        elif c in "()":
            toks.append(c)
            i += 1
        elif s[i:i + 2] in ("<=", ">=", "==", "!="):
            toks.append(s[i:i + 2])
            i += 2
        elif c in "<>":
            toks.append(c)
            i += 1
        elif c.isdigit() or c == ".":
            j = i
            while j < len(s) and (s[j].isdigit() or s[j] == "."):
                j += 1
            toks.append(("num", float(s[i:j])))
            i = j
        elif c.isalpha() or c == "_":
            j = i
            while j < len(s) and (s[j].isalnum() or s[j] == "_"):
                j += 1
            toks.append(("name", s[i:j]))
            i = j
        else:
            raise ValueError(f"bad character {c!r}")
    return toks


class _P:
    def __init__(self, toks):
        self.t = toks
        self.i = 0

    def peek(self):
        return self.t[self.i] if self.i < len(self.t) else None

    def take(self):
        x = self.peek()
        self.i += 1
        return x

    def kw(self, word):
        return self.peek() == ("name", word)

    def expr(self):
        left = self.and_()
        while self.kw("or"):
            self.take()
            left = ("or", left, self.and_())
        return left

    def and_(self):
        left = self.not_()
        while self.kw("and"):
            self.take()
            left = ("and", left, self.not_())
        return left

    def not_(self):
        if self.kw("not"):
            self.take()
            return ("not", self.not_())
        return self.cmp()

    def cmp(self):
        left = self.prim()
        if self.peek() in OPS:
            op = self.take()
            right = self.prim()
            return ("cmp", op, left, right)
        return left

    def prim(self):
        x = self.take()
        if x == "(":
            e = self.expr()
            if self.take() != ")":
                raise ValueError("missing )")
            return e
        if isinstance(x, tuple) and x[0] in ("num", "name"):
            return x
        raise ValueError(f"unexpected token {x!r}")


def parse(s):
    p = _P(tokenize(s))
    e = p.expr()
    if p.peek() is not None:
        raise ValueError("trailing tokens")
    return e


def _cmp_num(a, op, b):
    return {"<": a < b, "<=": a <= b, "==": a == b, "!=": a != b, ">": a > b, ">=": a >= b}[op]


_FLIP = {"<": ">", "<=": ">=", ">": "<", ">=": "<=", "==": "==", "!=": "!="}


def evaluate(ast, env):
    """env: name -> bool | list of floats.  Comparisons of an array with a number hold when they
    hold for ALL elements (documentation: 'rse < 0.4 ... all parameters must have an RSE smaller
    than 0.4'); for '!=' on arrays the documentation is silent -> AMBIG unless 'all' and 'not all
    equal' agree."""
    k = ast[0]
    if k == "name":
        v = env[ast[1]]
        if isinstance(v, list):
            return AMBIG  # bare numeric criterion used as a truth value: undocumented
        return bool(v)
    if k == "num":
        return AMBIG
    if k == "not":
        v = evaluate(ast[1], env)
        return AMBIG if v is AMBIG else (not v)
    if k == "and":
        a = evaluate(ast[1], env)
        b = evaluate(ast[2], env)
        if a is False or b is False:
            return False
        if a is AMBIG or b is AMBIG:
            return AMBIG
        return True
    if k == "or":
        a = evaluate(ast[1], env)
        b = evaluate(ast[2], env)
        if a is True or b is True:
            return True
        if a is AMBIG or b is AMBIG:
            return AMBIG
        return False
    if k == "cmp":
        _, op, left, right = ast
        if left[0] == "num" and right[0] == "name":
            left, right, op = right, left, _FLIP[op]
        if left[0] != "name" or right[0] != "num":
            return AMBIG
        v = env[left[1]]
        n = right[1]
        if not isinstance(v, list):
            return AMBIG  # boolean compared with a number: undocumented
        if len(v) == 0:
            return AMBIG  # no parameter of that kind: documentation silent
        res = [_cmp_num(x, op, n) for x in v]
        if op == "!=":
            all_ne = all(res)
            not_all_eq = not all(x == n for x in v)
            return all_ne if all_ne == not_all_eq else AMBIG
        return all(res)
    raise ValueError(k)


def round_sig(x, n):
    if x == 0:
        return 0.0
    return round(x, -int(math.floor(math.log10(abs(x)))) + (n - 1))


def near_bound(value, lower, upper):
    """documented: maximum distance to 0 = 0.001, maximum distance to non-zero bound = 2 significant digits"""

    def near(x, target):
        if target == 0:
            return abs(x) < 0.001
        return round_sig(x, 2) == round_sig(target, 2)

    return (lower > -INF and near(value, lower)) or (upper < INF and near(value, upper))


# ---- result profiles (what a synthetic ModelfitResults contains)
PROFILE_MENUS = {
    "ms": [True, False],
    "cause": [None, "rounding_errors", "maxevals_exceeded"],
    "sigdigs": [3.5, 0.05],
    "rse": ["low", "theta_hi", "omega_hi", "sigma_nan", "edge"],
    "grad": ["ok", "theta0", "omega_nan", "sigma0", "theta_nan", "sigma_nan", "omega0"],
    "est": ["ok", "theta_bound", "omega0"],
    "cov": ["good", "bad", "block"],
}
DEFAULT_PROFILE = dict(ms=True, cause=None, sigdigs=3.5, rse="low", grad="ok", est="ok", cov="good", ofv=-7.25)

FIELD_OF = {}
for _n in BOOL_NAMES + NUM_NAMES:
    if _n == "minimization_successful":
        FIELD_OF[_n] = "ms"
    elif _n in ("rounding_errors", "maxevals_exceeded"):
        FIELD_OF[_n] = "cause"
    elif _n == "sigdigs":
        FIELD_OF[_n] = "sigdigs"
    elif _n.startswith("rse"):
        FIELD_OF[_n] = "rse"
    elif _n == "condition_number":
        FIELD_OF[_n] = "cov"
    elif _n.startswith("final_zero_gradient"):
        FIELD_OF[_n] = "grad"
    else:
        FIELD_OF[_n] = "est"


def _first(a, kind, pred=lambda p: True):
    for n in a.estimated:
        if a.params[n]["kind"] == kind and pred(a.params[n]):
            return n
    return None


def profile_vectors(a, prof):
    """Concrete vectors (dicts name -> float over the estimated parameters, model order) and the
    covariance matrix (list of lists) of a profile."""
    names = a.estimated
    rse = {n: 0.1 for n in names}
    if prof["rse"] == "theta_hi":
        rse[_first(a, "theta")] = 0.5
    elif prof["rse"] == "omega_hi":
        rse[_first(a, "omega")] = 0.5
    elif prof["rse"] == "sigma_nan":
        rse[_first(a, "sigma")] = NAN
    elif prof["rse"] == "edge":
        rse = {n: 0.3 for n in names}
    grad = {n: (0.5 if i % 2 == 0 else -0.25) for i, n in enumerate(names)}
    if prof["grad"] == "theta0":
        grad[_first(a, "theta")] = 0.0
    elif prof["grad"] == "omega_nan":
        grad[_first(a, "omega")] = NAN
    elif prof["grad"] == "sigma0":
        grad[_first(a, "sigma")] = 0.0
    elif prof["grad"] == "theta_nan":
        grad[_first(a, "theta")] = NAN
    elif prof["grad"] == "sigma_nan":
        grad[_first(a, "sigma")] = NAN
    elif prof["grad"] == "omega0":
        grad[_first(a, "omega")] = 0.0
    est = {}
    for n in names:
        p = a.params[n]
        if p["kind"] == "theta":
            est[n] = 0.1 if n == "COVAPGR" else 0.5
        elif p["kind"] == "omega":
            est[n] = 0.04 if p["lower"] == 0 else 0.01
        else:
            est[n] = 0.3
    if prof["est"] == "theta_bound":
        if "COVAPGR" in est:
            est["COVAPGR"] = -0.99
        else:
            est["POP_VC"] = 0.0005
    elif prof["est"] == "omega0":
        n = _first(a, "omega", lambda p: p["lower"] == 0)
        est[n] = 0.0005
    k = len(names)
    if prof["cov"] == "good":
        cov = [[(0.01 * (i + 1) if i == j else 0.0) for j in range(k)] for i in range(k)]
    elif prof["cov"] == "bad":
        cov = [[((1e-8 if i == 0 else 1.0) if i == j else 0.0) for j in range(k)] for i in range(k)]
    else:  # block: correlated first two parameters
        cov = [[(1.0 if i == j else 0.0) for j in range(k)] for i in range(k)]
        cov[0][1] = cov[1][0] = 0.9
    return rse, grad, est, cov


def profile_env(a, prof):
    """The documented meaning of every strictness criterion on this profile."""
    rse, grad, est, cov = profile_vectors(a, prof)
    kinds = {n: a.params[n]["kind"] for n in a.estimated}

    def sub(d, kind):
        return [d[n] for n in a.estimated if kinds[n] == kind]

    def zero_or_nan(vals):
        return any(v == 0 or math.isnan(v) for v in vals)

    def nb(names):
        return any(near_bound(est[n], a.params[n]["lower"], a.params[n]["upper"]) for n in names)

    ev = np.linalg.eigvalsh(np.array(cov, dtype=float))
    cond = float(max(abs(ev)) / min(abs(ev)))
    env = {
        "minimization_successful": prof["ms"],
        "rounding_errors": prof["cause"] == "rounding_errors",
        "maxevals_exceeded": prof["cause"] == "maxevals_exceeded",
        "sigdigs": [prof["sigdigs"]],
        "rse": [rse[n] for n in a.estimated],
        "rse_theta": sub(rse, "theta"),
        "rse_omega": sub(rse, "omega"),
        "rse_sigma": sub(rse, "sigma"),
        "condition_number": [cond],
        "final_zero_gradient": zero_or_nan(grad.values()),
        "final_zero_gradient_theta": zero_or_nan(sub(grad, "theta")),
        "final_zero_gradient_omega": zero_or_nan(sub(grad, "omega")),
        "final_zero_gradient_sigma": zero_or_nan(sub(grad, "sigma")),
        "estimate_near_boundary": nb(a.estimated),
        "estimate_near_boundary_theta": nb([n for n in a.estimated if kinds[n] == "theta"]),
        "estimate_near_boundary_omega": nb([n for n in a.estimated if kinds[n] == "omega"]),
        "estimate_near_boundary_sigma": nb([n for n in a.estimated if kinds[n] == "sigma"]),
    }
    return env


def ref_strictness(a, prof, expr):
    """True / False / AMBIG: does a model with this result profile fulfil the expression?"""
    if isnan(prof["ofv"]):
        return False  # a model without objective value can never be ranked
    if expr.strip() == "":
        return True
    return evaluate(parse(expr), profile_env(a, prof))


def names_in(expr):
    return [t[1] for t in tokenize(expr) if isinstance(t, tuple) and t[0] == "name" and t[1] not in ("and", "or", "not")]


# ============================================================================ ranking reference
def ref_rank(abss, ofvs, strict_ok, rank_type, bic_type, cutoff, penalties, parents):
    """Reference ranking of models 0..n-1 (0 = base).

    Returns dict(crit=[float|None], elig=[True|False|None], note=[str]) where elig None means the
    property text does not decide (counted, never failed).
    """
    n = len(abss)
    crit = []
    for i in range(n):
        if strict_ok[i] is AMBIG:
            crit.append(AMBIG)
        elif (not strict_ok[i]) or isnan(ofvs[i]):
            crit.append(None)
        else:
            c = ref_criterion(abss[i], ofvs[i], rank_type, bic_type)
            if penalties is not None:
                c = c + penalties[i]
            crit.append(c)
    elig, note = [], []
    for i in range(n):
        if crit[i] is AMBIG:
            elig.append(None)
            note.append("strictness_ambiguous")
        elif crit[i] is None:
            elig.append(False)
            note.append("strictness")
        elif i == 0:
            elig.append(True)
            note.append("base")
        elif rank_type == "lrt":
            p = parents[i]
            if isnan(ofvs[p]):
                elig.append(None)
                note.append("lrt_parent_without_ofv")
                continue
            dofv = ofvs[p] - ofvs[i]
            outcomes = set()
            for df in {abss[i].n_all - abss[p].n_all, abss[i].n_est - abss[p].n_est}:
                if cutoff is None:
                    alpha = 0.05 if df >= 0 else 0.01
                elif isinstance(cutoff, tuple):
                    alpha = cutoff[0] if df >= 0 else cutoff[1]
                else:
                    alpha = cutoff
                c = lrt_cutoff(df, alpha)
                if c is None or abs(dofv - c) < 1e-9:
                    outcomes |= {True, False}
                else:
                    outcomes.add(dofv >= c)
            if len(outcomes) == 1:
                ok = outcomes.pop()
                elig.append(ok)
                note.append("lrt_pass" if ok else "lrt_fail")
            else:
                elig.append(None)
                note.append("lrt_df_undecided")
        elif cutoff is not None:
            if crit[0] is None or crit[0] is AMBIG:
                elig.append(None)
                note.append("cutoff_without_reference")
                continue
            delta = crit[0] - crit[i]
            if abs(delta - cutoff) <= 1e-9:
                if delta == cutoff and rank_type in ("ofv", "aic"):
                    # documentation: candidates with delta < cutoff are not ranked; equality is not below
                    elig.append(True)
                    note.append("cutoff_equal")
                else:
                    elig.append(None)
                    note.append("cutoff_rounding")
            elif delta < cutoff:
                elig.append(False)
                note.append("cutoff_fail")
            else:
                elig.append(True)
                note.append("cutoff_pass")
        else:
            elig.append(True)
            note.append("ranked")
    return dict(crit=crit, elig=elig, note=note)


def check_table(ref, rows):
    """rows: list of (index, delta, value, rank) in table order; returns list of (class, text)."""
    fails = []
    crit, elig, note = ref["crit"], ref["elig"], ref["note"]
    n = len(crit)
    idxs = [r[0] for r in rows]
    if sorted(idxs) != list(range(n)):
        return [("table-rows", f"table rows {idxs} are not exactly the models 0..{n - 1}")]
    by = {r[0]: r for r in rows}
    ranked = [i for i in range(n) if not isnan(by[i][3])]
    for i in range(n):
        rk = by[i][3]
        if elig[i] is True and isnan(rk):
            cls = "excluded-eligible:" + note[i]
            fails.append((cls, f"model {i} is eligible ({note[i]}) but has no rank"))
        elif elig[i] is False and not isnan(rk):
            fails.append(("ranked-ineligible:" + note[i], f"model {i} fails ({note[i]}) but is ranked {rk}"))
    for i in ranked:
        if crit[i] is None or crit[i] is AMBIG:
            continue
        if not close(by[i][2], crit[i]):
            fails.append(("criterion-value", f"model {i}: reported criterion {by[i][2]!r}, definition gives {crit[i]!r}"))
        if crit[0] is not None and crit[0] is not AMBIG:
            if not close(by[i][1], crit[0] - crit[i], atol=1e-8):
                fails.append(("delta-value", f"model {i}: reported delta {by[i][1]!r}, definition gives {crit[0] - crit[i]!r}"))
    good = [i for i in ranked if crit[i] is not None and crit[i] is not AMBIG]
    for x in range(len(good)):
        for y in range(x + 1, len(good)):
            i, j = good[x], good[y]
            ci, cj = crit[i], crit[j]
            ri, rj = by[i][3], by[j][3]
            tol = 1e-9 * max(1.0, abs(ci), abs(cj))
            if ci == cj:
                if ri != rj:
                    fails.append(("tie-rank", f"models {i},{j} have equal criterion {ci!r} but ranks {ri},{rj}"))
            elif abs(ci - cj) > tol:
                if (ci < cj) != (ri < rj) or ri == rj:
                    fails.append(("order", f"models {i},{j}: criteria {ci!r},{cj!r} but ranks {ri},{rj}"))
    # a failed candidate is never listed above an eligible one; listed by rank
    seen_unranked = False
    prev = None
    for r in rows:
        if isnan(r[3]):
            seen_unranked = True
        else:
            if seen_unranked:
                fails.append(("failed-above-eligible", f"row of model {r[0]} (rank {r[3]}) is listed below an unranked model"))
                break
            if prev is not None and r[3] < prev:
                fails.append(("row-order", f"rows are not listed by rank: {[x[3] for x in rows]}"))
                break
            prev = r[3]
    return fails


def check_best(ref, rows, best_idx):
    """best_idx: index of the model reported as best (None if nothing reported)."""
    crit, elig = ref["crit"], ref["elig"]
    by = {r[0]: r for r in rows}
    ranked = [i for i in by if not isnan(by[i][3])]
    if not ranked:
        return []  # nothing eligible: the text does not say what is reported
    if best_idx is None:
        return [("best-missing", "ranked models exist but no best model was reported")]
    if best_idx not in ranked:
        return [("best-unranked", f"best model {best_idx} has no rank")]
    cb = crit[best_idx]
    if cb is None or cb is AMBIG:
        return []
    out = []
    for i in ranked:  # (an eligible model that was left unranked is reported by check_table)
        if elig[i] is True and crit[i] is not None and crit[i] is not AMBIG:
            if crit[i] < cb - 1e-9 * max(1.0, abs(cb)):
                out.append(("best-not-top", f"best model {best_idx} (criterion {cb!r}) but eligible model {i} has {crit[i]!r}"))
                break
    return out


def fzg_env_theta_rows(a, prof):
    """profile_env with final_zero_gradient_omega/_sigma computed as 'zero in own rows or NaN in the THETA rows'
    (used only to recognise one known defect precisely)."""
    env = profile_env(a, prof)
    _, grad, _, _ = profile_vectors(a, prof)
    kinds = {n: a.params[n]["kind"] for n in a.estimated}
    th_nan = any(math.isnan(grad[n]) for n in a.estimated if kinds[n] == "theta")
    for kind in ("omega", "sigma"):
        zero = any(grad[n] == 0 for n in a.estimated if kinds[n] == kind)
        env["final_zero_gradient_" + kind] = zero or th_nan
    return env


# ============================================================================ statistics
def quantile_linear(vals, q):
    v = sorted(float(x) for x in vals if not isnan(x))
    if not v:
        return NAN
    h = (len(v) - 1) * q
    lo = int(math.floor(h))
    hi = min(lo + 1, len(v) - 1)
    return v[lo] + (h - lo) * (v[hi] - v[lo])


def median(vals):
    return quantile_linear(vals, 0.5)


def mean(vals):
    v = [float(x) for x in vals if not isnan(x)]
    return sum(v) / len(v) if v else NAN


def std1(vals):
    v = [float(x) for x in vals if not isnan(x)]
    if len(v) < 2:
        return NAN
    m = sum(v) / len(v)
    return math.sqrt(sum((x - m) ** 2 for x in v) / (len(v) - 1))


def var1(vals):
    s = std1(vals)
    return s * s if not isnan(s) else NAN


def cov1(x, y):
    n = len(x)
    mx, my = sum(x) / n, sum(y) / n
    return sum((a - mx) * (b - my) for a, b in zip(x, y)) / (n - 1)


DIST_COLS = [("min", 0.0), ("0.05%", 0.0005), ("0.5%", 0.005), ("2.5%", 0.025), ("5%", 0.05), ("median", 0.5),
             ("95%", 0.95), ("97.5%", 0.975), ("99.5%", 0.995), ("99.95%", 0.9995), ("max", 1.0)]


def cook_scores(base, cases, cov):
    """sqrt((theta_i - theta)' C^-1 (theta_i - theta))"""
    C = np.array(cov, dtype=float)
    out = []
    for c in cases:
        d = np.array(c, dtype=float) - np.array(base, dtype=float)
        out.append(float(math.sqrt(max(0.0, d @ np.linalg.solve(C, d)))))
    return out


def jackknife_cov(cases):
    X = np.array(cases, dtype=float)
    n = X.shape[0]
    d = X - X.mean(axis=0)
    return (n - 1) / n * (d.T @ d)


def det(m):
    return float(np.linalg.det(np.array(m, dtype=float)))


def spd_cond(m):
    ev = np.linalg.eigvalsh(np.array(m, dtype=float))
    if min(ev) <= 0:
        return INF
    return float(max(ev) / min(ev))
