"""seqx - level-synchronised explicit-state BFS over operation histories on real objects.

The check module supplies
    START: list of start names;  alphabet(tier, depth_so_far) -> list of labels
    check_state(history, model) -> (list of failure strings, dict of counters)
    canon(model) -> key
The parent keeps the exact `seen` set and the frontier of histories; each level is sharded over the worker
pool, so the union of the shards equals a sequential BFS level by level.
"""
from __future__ import annotations

import importlib


def level_shards(histories, nshards):
    k = max(1, (len(histories) + nshards - 1) // nshards)
    return [("level", histories[i:i + k]) for i in range(0, len(histories), k)]


_known_cache = {}


def _all_known(mod, start, labels, tfails):
    from vlib import core

    prop = mod.PROPERTY
    if prop not in _known_cache:
        _known_cache[prop] = core.load_known(prop)
    known = _known_cache[prop]
    for f in tfails:
        w = {"history": [start, labels], "what": f"[{start} -> {' -> '.join(labels)}] {f}", "class": mod.classify_text(f)}
        try:
            pat = mod.classify(w)
        except Exception:
            pat = None
        if pat is None or pat not in known:
            return False
    return True


def run_level_shard(mod, shard, tier, depth_limit):
    """worker side: check every state of the shard and list its successors"""
    from vlib import mgraph

    _, histories = shard
    res = {"states": 0, "transitions": 0, "evaluations": 0, "distinct_nontrivial": 0, "violations": [], "samples": [],
           "outcomes": {}, "traces_validated_against_impl": 0, "successors": []}
    if shard[0] == "witness":
        # the recorded witness of a known finding: its last request is examined as a transition, the model it gives as a state
        for start, labels in histories:
            labels = tuple(labels)
            if not labels:
                continue
            parent = mgraph.build((start, labels[:-1]))
            if parent is None:
                continue
            m2, outcome = mgraph.apply(parent, labels[-1])
            res["transitions"] += 1
            fails = list(mod.check_transition((start, labels[:-1]), parent, labels[-1], m2, outcome, tier)) if hasattr(mod, "check_transition") else []
            if m2 is not None:
                res["states"] += 1
                res["evaluations"] += 1
                fails += list(mod.check_state((start, labels), m2, tier)[0])
            for f in fails[:60]:
                res["violations"].append({"history": [start, list(labels)], "what": f"[{start} -> {' -> '.join(labels)}] {f}",
                                          "class": mod.classify_text(f)})
        return res
    for hist in histories:
        start, labels = hist
        model = mgraph.build((start, tuple(labels)))
        if model is None:
            continue
        res["states"] += 1
        try:
            with mgraph.time_limit(getattr(mod, "STATE_TIMEOUT", 300)):
                fails, counters = mod.check_state(hist, model, tier)
        except mgraph.CallTimeout:
            fails, counters = [], {"state_timeouts": 1}
        for k, v in counters.items():
            res[k] = res.get(k, 0) + v
        res["evaluations"] += 1
        if "traces_validated_against_impl" not in counters:
            res["traces_validated_against_impl"] += 1  # every state and transition is a real API call on the implementation
        for f in fails[:60]:  # never truncate to a couple: a known finding must not crowd out another failure of the state
            res["violations"].append({"history": [start, list(labels)], "what": f"[{start} -> {' -> '.join(labels) or '(start)'}] {f}",
                                      "class": mod.classify_text(f)})
        if len(labels) < depth_limit:
            for lab in mod.alphabet(tier, len(labels)):
                m2, outcome = mgraph.apply(model, lab)
                res["transitions"] += 1
                okey = outcome.split(":")[0] if not outcome.startswith("crash") else outcome.split(":", 2)[0] + ":" + outcome.split(":", 2)[1]
                res["outcomes"][okey] = res["outcomes"].get(okey, 0) + 1
                tfails = mod.check_transition(hist, model, lab, m2, outcome, tier) if hasattr(mod, "check_transition") else []
                for f in tfails[:20]:
                    res["violations"].append({"history": [start, list(labels) + [lab]],
                                              "what": f"[{start} -> {' -> '.join(list(labels) + [lab])}] {f}", "class": mod.classify_text(f)})
                if m2 is not None:
                    if tfails and getattr(mod, "PRUNE_KNOWN", False) and _all_known(mod, start, list(labels) + [lab], tfails):
                        # the transition reproduces a recorded known finding: the model it returns is known to be wrong, its
                        # successors would only repeat the finding in other words
                        res["pruned_after_known_finding"] = res.get("pruned_after_known_finding", 0) + 1
                        continue
                    if lab in getattr(mod, "TERMINAL", ()):
                        continue  # examined as a request, not expanded further
                    res["successors"].append(((start, tuple(labels) + (lab,)), mgraph.canon(m2)))
        if len(res["samples"]) < 1:
            res["samples"].append(f"{start} -> {' -> '.join(labels) or '(start)'}")
    return res


def known_witness_states(mod, min_depth=0):
    """histories of the recorded known findings of mod.PROPERTY (those deeper than min_depth): checked as extra states, so that
    every listed finding is re-examined (and printed) in every run, whatever the cap or depth of the tier"""
    import json
    import os

    from vlib import core

    try:
        kf = json.load(open(os.path.join(core.ROOT, "known_findings.json")))["findings"]
    except Exception:
        return []
    out = []
    for f in kf:
        h = (f.get("witness") or {}).get("history")
        if f.get("property") == mod.PROPERTY and f.get("kind") == "known" and h and len(h[1]) > min_depth:
            key = (h[0], tuple(h[1]))
            if key not in out:
                out.append(key)
    return out


def drive(mod, tier, starts, depth_limit, max_states=None, nshards=48):
    from vlib import core, mgraph

    results = []
    seen = set()
    frontier = []
    for s in starts:
        frontier.append((s, ()))
        seen.add(mgraph.canon(mgraph.start_models()[s]))
    level = 0
    total_states = 0
    capped = False
    while frontier:
        shards = level_shards(frontier, nshards)
        rs = core.pmap(mod.__name__, shards, tier)
        results.extend(rs)
        if any("harness_error" in r for r in rs):
            return results
        nxt = []
        for r in rs:
            for hist, key in r.pop("successors", []):
                if key in seen:
                    continue
                seen.add(key)
                nxt.append(hist)
        total_states += len(frontier)
        level += 1
        nxt.sort()
        if max_states is not None and total_states + len(nxt) > max_states:
            # a cap must not favour the start models and operations that come first in the alphabet: the states of the level are
            # dealt round-robin over the start models, within a start model in the order of a fixed hash of the history
            import hashlib

            by = {}
            for h in nxt:
                by.setdefault(h[0], []).append(h)
            for lst in by.values():
                lst.sort(key=lambda h: hashlib.sha1(repr(h).encode()).hexdigest())
            allowed = max(0, max_states - total_states)
            picked = []
            while len(picked) < allowed and any(by.values()):
                for st in sorted(by):
                    if by[st] and len(picked) < allowed:
                        picked.append(by[st].pop(0))
            nxt = sorted(picked)
            capped = True
        frontier = nxt
        if level > depth_limit:
            break
    results.append({"bfs_levels_completed": level, "capped": capped, "distinct_canonical_states": len(seen)})
    return results
