"""ireval - direct numeric evaluation of a pharmpy Model (the meaning of the in-memory IR).

Executes model.statements in order with plain floats (vlib.xeval tree walker), takes the
compartment graph through the public API (compartment_names, get_flow, doses, lag_time,
bioavailability, input) and advances amounts with vlib.pkeng.  Does not use
eqs/compartmental_matrix nor any pharmpy evaluator.
"""
from __future__ import annotations

import math

import numpy as np

from . import pkeng
from .xeval import Undefined, ev, to_sympy


class Unsupported(Exception):
    pass


def _colname(di, typ, default):
    try:
        cols = di.typeix[typ]
        if len(cols) >= 1:
            return cols[0].name
    except Exception:
        pass
    return default if default in di.names else None


def individuals(model, max_ids=3, dataset=None):
    """Return list of individuals; each a list of record dicts (column -> float)."""
    df = dataset if dataset is not None else model.dataset
    if df is None:
        raise Unsupported("no dataset")
    di = model.datainfo
    idcol = di.id_column.name
    out = []
    for _, g in df.groupby(idcol, sort=False):
        recs = []
        for row in g.to_dict("records"):
            r = {}
            for k, v in row.items():
                try:
                    r[k] = float(v)
                except (TypeError, ValueError):
                    r[k] = float("nan")
            recs.append(r)
        out.append(recs)
        if len(out) >= max_ids:
            break
    return out


class ModelEval:
    def __init__(self, model):
        from pharmpy.model import Assignment, CompartmentalSystem, output

        self.model = model
        self.stmts = list(model.statements)
        self.Assignment = Assignment
        self.CS = CompartmentalSystem
        self.output = output
        di = model.datainfo
        self.idv = _colname(di, "idv", "TIME")
        self.amtcol = _colname(di, "dose", "AMT")
        self.evidcol = "EVID" if "EVID" in di.names and not di["EVID"].drop else None
        try:
            ev_cols = di.typeix["event"]
            if len(ev_cols):
                self.evidcol = ev_cols[0].name
        except Exception:
            pass
        self.cs = None
        for s in self.stmts:
            if isinstance(s, CompartmentalSystem):
                self.cs = s
        if self.cs is not None:
            cs = self.cs
            self.names = list(cs.compartment_names)
            self.comps = [cs.find_compartment(n) for n in self.names]
            self.amount_names = [str(c.amount) for c in self.comps]
            n = len(self.comps)
            self.flows = {}
            for i, ci in enumerate(self.comps):
                for j, cj in enumerate(self.comps):
                    if i != j:
                        f = cs.get_flow(ci, cj)
                        if f != 0:
                            self.flows[(i, j)] = to_sympy(f)
                f = cs.get_flow(ci, output)
                if f != 0:
                    self.flows[(i, None)] = to_sympy(f)
            self.inputs = [to_sympy(c.input) for c in self.comps]
            amt_funcs = set()
            for c in self.comps:
                amt_funcs.add(to_sympy(c.amount))
            tsym = to_sympy(cs.t)
            self.nonlinear = False
            for f in list(self.flows.values()) + self.inputs:
                if f.atoms(*[type(a) for a in amt_funcs]) & amt_funcs or tsym in f.free_symbols:
                    self.nonlinear = True
            self.dosing = []
            for i, c in enumerate(self.comps):
                for d in c.doses:
                    self.dosing.append((i, d))

    # ------------------------------------------------------------------
    def _is_dose(self, rec):
        if self.evidcol is not None and self.evidcol in rec:
            return rec[self.evidcol] in (1.0, 4.0)
        if self.amtcol and self.amtcol in rec:
            return rec[self.amtcol] != 0
        return False

    def _is_reset(self, rec):
        if self.evidcol is not None and self.evidcol in rec:
            return rec[self.evidcol] in (3.0, 4.0)
        return False

    def _sys(self, env):
        n = len(self.comps)
        if not self.nonlinear:
            M = np.zeros((n, n))
            for (i, j), f in self.flows.items():
                r = ev(f, env)
                M[i, i] -= r
                if j is not None:
                    M[j, i] += r
            u = np.array([ev(x, env) for x in self.inputs])
            return pkeng.SysVals(n, M=M, u=u)

        def rhs(t, a):
            e = dict(env)
            e["t"] = t
            for nm, v in zip(self.amount_names, a):
                e[nm] = v
            d = np.zeros(n)
            for (i, j), f in self.flows.items():
                if a[i] == 0:
                    continue  # flux = rate(a) * a_i; rate expressions such as (VM*A/(KM+A))/A are singular at 0
                flux = ev(f, e) * a[i]
                d[i] -= flux
                if j is not None:
                    d[j] += flux
            for i, x in enumerate(self.inputs):
                d[i] += ev(x, e)
            return d

        return pkeng.SysVals(n, rhs=rhs)

    def _doses(self, rec, env):
        if not self._is_dose(rec):
            return []
        if not self.dosing:
            return []
        cands = self.dosing
        comps_with_doses = sorted({i for i, _ in cands})
        if len(comps_with_doses) > 1 or len(cands) > 1:
            # route by administration id when the data has one
            di = self.model.datainfo
            adm = _colname(di, "admid", "ADMID")
            if adm and adm in rec:
                cands = [(i, d) for i, d in cands if d.admid == int(rec[adm])]
            else:
                raise Unsupported("several dose definitions without an admid column")
        out = []
        from pharmpy.model import Bolus, Infusion

        for i, d in cands:
            c = self.comps[i]
            amt = ev(d.amount, env)
            F = ev(c.bioavailability, env)
            lag = ev(c.lag_time, env)
            if isinstance(d, Bolus):
                out.append(pkeng.Dose(i, amt, lag=lag, F=F))
            elif isinstance(d, Infusion):
                if d.rate is not None:
                    rate = ev(d.rate, env)
                    out.append(pkeng.Dose(i, amt, rate=rate, lag=lag, F=F))
                else:
                    dur = ev(d.duration, env)
                    out.append(pkeng.Dose(i, amt, dur=dur, lag=lag, F=F))
            else:
                raise Unsupported("dose type")
        return out

    def run(self, base_env, recs):
        """base_env: parameter / eta / eps values by name.  Returns list of env dicts (one per record)
        holding every assigned variable and amounts under 'A_<NAME>(t)'; or raises Undefined."""
        envs = []
        idx_ode = None
        for k, s in enumerate(self.stmts):
            if isinstance(s, self.CS):
                idx_ode = k
        pre = self.stmts if idx_ode is None else self.stmts[:idx_ode]
        post = [] if idx_ode is None else self.stmts[idx_ode + 1:]

        def run_pre(rec):
            env = dict(base_env)
            env.update(rec)
            if self.idv and self.idv in rec:
                env["t"] = rec[self.idv]
            for s in pre:
                env[str(s.symbol)] = ev(s.expression, env)
            return env

        pre_envs = [run_pre(r) for r in recs]
        if idx_ode is None:
            return pre_envs
        recs2 = []
        for r in recs:
            r2 = dict(r)
            r2["TIME"] = r[self.idv]
            recs2.append(r2)
        amounts = pkeng.run_individual(
            recs2,
            len(self.comps),
            lambda k, rec: self._sys(pre_envs[k]),
            lambda k, rec: self._doses(rec, pre_envs[k]),
            is_reset=self._is_reset,
        )
        from .xeval import Undefined as _Undef

        for env, a, rec in zip(pre_envs, amounts, recs):
            for nm, v in zip(self.amount_names, a):
                env[nm] = float(v)
            for s in post:
                try:
                    env[str(s.symbol)] = ev(s.expression, env)
                except _Undef:
                    # the prediction of a dose record is not an observation: a model may leave it without a value
                    if not self._is_dose(rec):
                        raise
                    env.pop(str(s.symbol), None)
            envs.append(env)
        return envs


def base_env(model, scale=1.0, etas=None, eps=None):
    env = {}
    for p in model.parameters:
        v = p.init * scale
        if p.lower is not None and v < p.lower:
            v = p.lower
        if p.upper is not None and v > p.upper:
            v = p.upper
        env[p.name] = float(v)
    for n in model.random_variables.names:
        env[n] = 0.0
    if etas:
        env.update(etas)
    if eps:
        env.update(eps)
    return env
