"""nmref - independent reader/interpreter of NM-TRAN control streams (reference semantics).

Written from the NONMEM guide rules recorded in DESIGN.md section B; shares only vlib.pkeng
(record semantics) with the evaluator of the pharmpy IR.

    cs = ControlStream(text)
    cs.thetas  -> list of dict(init, lower, upper, fix)
    cs.omega / cs.sigma -> Blocks: list of dict(size, matrix, fix, same) + full matrix
    cs.evaluate(theta, eta, eps, records) -> list of dict per record: variables, 'A' (amounts), 'F', 'Y'
"""
from __future__ import annotations

import math
import re

import numpy as np

from . import nmcode, pkeng
from .nmcode import ParseError, Undefined, Unsupported  # noqa: F401


# ------------------------------------------------------------------------------ records
def split_records(text):
    recs = []
    cur = None
    for line in text.splitlines():
        m = re.match(r"\s*\$([A-Za-z]+)(.*)$", line)
        if m:
            cur = [m.group(1).upper(), m.group(2) + "\n"]
            recs.append(cur)
        elif cur is not None:
            cur[1] += line + "\n"
    return [(n, b) for n, b in recs]


CANON = {
    "PROBLEM": "PROB", "PROB": "PROB", "INPUT": "INPU", "INPT": "INPU", "DATA": "DATA", "INFILE": "DATA", "SUBROUTINES": "SUBR",
    "SUBROUTINE": "SUBR", "SUBS": "SUBR", "SUB": "SUBR", "SUBR": "SUBR", "MODEL": "MODE", "PK": "PK", "PRED": "PRED",
    "ERROR": "ERRO", "DES": "DES", "THETA": "THET", "OMEGA": "OMEG", "SIGMA": "SIGM", "ABBREVIATED": "ABBR", "ABBR": "ABBR",
    "ABBREV": "ABBR", "ESTIMATION": "EST", "EST": "EST",
}


def canon(name):
    if name in CANON:
        return CANON[name]
    for k, v in CANON.items():
        if len(name) >= 3 and k.startswith(name):
            return v
    return name[:4]


def strip_comments(body):
    return "\n".join(ln.split(";", 1)[0] for ln in body.splitlines())


# ------------------------------------------------------------------------------ $THETA
def _num(tok):
    t = tok.upper().replace("D", "E")
    if t in ("INF", "+INF"):
        return math.inf
    if t == "-INF":
        return -math.inf
    return float(t)


def parse_theta(body):
    """-> list of dict(init, lower, upper, fix)"""
    s = strip_comments(body).upper()
    out = []
    i = 0
    n = len(s)
    tok_re = re.compile(r"\s*(\(|FIXED|FIX|[-+]?(?:INF|(?:\d+\.?\d*|\.\d+)(?:[ED][-+]?\d+)?)|[A-Z]+\s*=?\s*\S*)")
    while i < n:
        m = re.compile(r"\s+").match(s, i)
        if m:
            i = m.end()
            if i >= n:
                break
        if s[i] == "(":
            j = s.index(")", i)
            inner = s[i + 1:j]
            i = j + 1
            fix = False
            if re.search(r"\bFIX(ED)?\b", inner):
                fix = True
                inner = re.sub(r"\bFIX(ED)?\b", " ", inner)
            # items separated by commas and/or blanks; empty item between two commas = absent
            if "," in inner:
                items = [x.strip() for x in inner.split(",")]
            else:
                items = inner.split()
            items = [x for x in items]
            vals = [(_num(x) if x != "" else None) for x in items]
            if len(vals) == 1:
                low, init, up = -math.inf, vals[0], math.inf
            elif len(vals) == 2:
                low, init, up = vals[0], vals[1], math.inf
            elif len(vals) == 3:
                low, init, up = vals
            else:
                raise ParseError(f"theta item ({inner})")
            m2 = re.compile(r"\s*X\s*(\d+)").match(s, i)
            rep = 1
            if m2:
                rep = int(m2.group(1))
                i = m2.end()
            m3 = re.compile(r"\s*FIX(ED)?\b").match(s, i)
            if m3:
                fix = True
                i = m3.end()
            for _ in range(rep):
                out.append({"init": init, "lower": low, "upper": up, "fix": fix})
            continue
        m = re.compile(r"[-+]?(?:INF|(?:\d+\.?\d*|\.\d+)(?:[ED][-+]?\d+)?)").match(s, i)
        if m:
            v = _num(m.group())
            i = m.end()
            fix = False
            m3 = re.compile(r"\s*FIX(ED)?\b").match(s, i)
            if m3:
                fix = True
                i = m3.end()
            out.append({"init": v, "lower": -math.inf, "upper": math.inf, "fix": fix})
            continue
        m = re.compile(r"(NAMES|ABORT|NOABORT|NUMBERPOINTS|NUMBERPTS|NUMPOINTS|NUMPTS)\b\S*").match(s, i)
        if m:
            raise Unsupported("theta option " + m.group())
        raise ParseError(f"cannot read $THETA at {s[i:i+20]!r}")
    for t in out:
        if t["lower"] is None:
            t["lower"] = -math.inf
        if t["upper"] is None:
            t["upper"] = math.inf
        # +-1000000 mean unbounded
        if t["lower"] <= -1000000:
            t["lower"] = -math.inf
        if t["upper"] >= 1000000:
            t["upper"] = math.inf
        if t["init"] is not None and t["lower"] == t["init"] == t["upper"]:
            t["fix"] = True
    return out


# ------------------------------------------------------------------------------ $OMEGA / $SIGMA
def parse_omega_records(bodies):
    """bodies: list of record bodies in order -> list of blocks dict(size, matrix (np), fix, same)"""
    blocks = []
    for body in bodies:
        s = strip_comments(body).upper()
        toks = re.findall(r"BLOCK\s*\(\s*\d+\s*\)|BLOCK|DIAGONAL\s*\(\s*\d+\s*\)|SAME\s*\(\s*\d+\s*\)|SAME|VALUES\s*\([^)]*\)|"
                          r"\([^)]*\)\s*X\s*\d+|\([^)]*\)|FIXED|FIX|UNINT|STANDARD|SD|VARIANCE|VAR|CORRELATION|CORR|"
                          r"COVARIANCE|COV|CHOLESKY|[-+]?(?:\d+\.?\d*|\.\d+)(?:[ED][-+]?\d+)?|\S+", s)
        block_n = None
        same = 0
        fix_all = False
        sd = False
        corr = False
        chol = False
        vals = []  # (value, fix)
        for t in toks:
            m = re.match(r"BLOCK\s*\(\s*(\d+)\s*\)", t)
            if m:
                block_n = int(m.group(1))
                continue
            if t == "BLOCK":
                block_n = -1  # size from number of values
                continue
            m = re.match(r"DIAGONAL\s*\(\s*(\d+)\s*\)", t)
            if m:
                continue
            m = re.match(r"SAME\s*\(\s*(\d+)\s*\)", t)
            if m:
                same = int(m.group(1))
                continue
            if t == "SAME":
                same = 1
                continue
            m = re.match(r"VALUES\s*\(([^)]*)\)", t)
            if m:
                d, o = [float(x.replace("D", "E")) for x in re.split(r"[,\s]+", m.group(1).strip())]
                vals = ("values", d, o)
                continue
            if t in ("FIX", "FIXED"):
                if vals and isinstance(vals, list) and block_n is None:
                    v, _ = vals[-1]
                    vals[-1] = (v, True)
                else:
                    fix_all = True
                continue
            if t in ("SD", "STANDARD"):
                sd = True
                continue
            if t in ("VAR", "VARIANCE", "COV", "COVARIANCE"):
                continue
            if t in ("CORR", "CORRELATION"):
                corr = True
                continue
            if t == "CHOLESKY":
                chol = True
                continue
            if t == "UNINT":
                continue
            m = re.match(r"\(([^)]*)\)\s*(?:X\s*(\d+))?", t)
            if m:
                inner = m.group(1)
                rep = int(m.group(2)) if m.group(2) else 1
                f = bool(re.search(r"\bFIX(ED)?\b", inner))
                isd = bool(re.search(r"\b(SD|STANDARD)\b", inner))
                inner = re.sub(r"\b(FIX(ED)?|SD|STANDARD|VAR(IANCE)?)\b", " ", inner)
                nums = [float(x.replace("D", "E")) for x in re.split(r"[,\s]+", inner.strip()) if x]
                for _ in range(rep):
                    for v in nums:
                        vals.append((v * v if isd and block_n is None else v, f))
                if f and block_n is not None:
                    fix_all = True
                continue
            try:
                v = float(t.replace("D", "E"))
            except ValueError:
                raise Unsupported(f"omega option {t}")
            vals.append((v, False))
        if same:
            if not blocks:
                raise ParseError("SAME without previous block")
            prev = blocks[-1]
            for _ in range(same):
                blocks.append({"size": prev["size"], "matrix": prev["matrix"].copy(), "fix": prev["fix"], "same": True})
            continue
        if block_n is None:
            # diagonal: each value its own 1x1 block
            for v, f in vals:
                if corr or chol:
                    raise Unsupported("CORR/CHOLESKY on diagonal record")
                vv = v * v if sd else v
                blocks.append({"size": 1, "matrix": np.array([[vv]]), "fix": f or fix_all, "same": False})
            continue
        if isinstance(vals, tuple):
            if block_n < 0:
                raise ParseError("VALUES needs BLOCK(n)")
            _, d, o = vals
            mat = np.full((block_n, block_n), o)
            np.fill_diagonal(mat, d)
            flat = None
        else:
            flat = [v for v, _ in vals]
            if block_n < 0:
                k = len(flat)
                block_n = int((math.isqrt(8 * k + 1) - 1) // 2)
            if len(flat) != block_n * (block_n + 1) // 2:
                raise ParseError("wrong number of values in BLOCK")
            mat = np.zeros((block_n, block_n))
            it = iter(flat)
            for r in range(block_n):
                for c in range(r + 1):
                    mat[r, c] = next(it)
                    mat[c, r] = mat[r, c]
        if chol:
            L = np.tril(mat)
            mat = L @ L.T
        else:
            if sd and corr:
                sds = np.diag(mat).copy()
                C = mat.copy()
                np.fill_diagonal(C, 1.0)
                mat = C * np.outer(sds, sds)
            elif sd:
                sds = np.diag(mat).copy()
                # off diagonals are covariances, diagonal sd
                mat = mat.copy()
                np.fill_diagonal(mat, sds**2)
            elif corr:
                var = np.diag(mat).copy()
                sds = np.sqrt(var)
                C = mat.copy()
                np.fill_diagonal(C, 1.0)
                mat = C * np.outer(sds, sds)
        blocks.append({"size": block_n, "matrix": mat, "fix": fix_all or any(f for _, f in (vals if isinstance(vals, list) else [])), "same": False})
    return blocks


def full_matrix(blocks):
    n = sum(b["size"] for b in blocks)
    M = np.zeros((n, n))
    i = 0
    for b in blocks:
        k = b["size"]
        M[i:i + k, i:i + k] = b["matrix"]
        i += k
    return M


# ------------------------------------------------------------------------------ ADVAN library
def advan_structure(advan, trans):
    """-> (n compartments, default dose cmt (1-based), default obs cmt, list of required rate names,
    function micro(vals) -> dict rate name -> value)   for the closed-form ADVANs."""
    g = lambda v, k: v[k]  # noqa: E731

    def need(v, *names):
        for nm in names:
            if nm not in v:
                raise Undefined(f"PK parameter {nm} not defined")

    if advan == 1:
        n, dose, obs = 1, 1, 1

        def micro(v):
            if trans == 1:
                need(v, "K")
                return {(1, 0): v["K"]}
            if trans == 2:
                need(v, "CL", "V")
                return {(1, 0): v["CL"] / v["V"]}
            raise Unsupported(f"ADVAN1 TRANS{trans}")
        return n, dose, obs, micro
    if advan == 2:
        n, dose, obs = 2, 1, 2

        def micro(v):
            need(v, "KA")
            if trans == 1:
                need(v, "K")
                k = v["K"]
            elif trans == 2:
                need(v, "CL", "V")
                k = v["CL"] / v["V"]
            else:
                raise Unsupported(f"ADVAN2 TRANS{trans}")
            return {(1, 2): v["KA"], (2, 0): k}
        return n, dose, obs, micro
    if advan in (3, 4):
        off = 0 if advan == 3 else 1
        c, p = 1 + off, 2 + off
        n = 2 + off
        dose, obs = 1, c
        kcp, kpc = f"K{c}{p}", f"K{p}{c}"

        def micro(v):
            if trans == 1:
                need(v, "K", kcp, kpc)
                k, k12, k21 = v["K"], v[kcp], v[kpc]
            elif trans == 3:
                need(v, "CL", "V", "Q", "VSS")
                k, k12, k21 = v["CL"] / v["V"], v["Q"] / v["V"], v["Q"] / (v["VSS"] - v["V"])
            elif trans == 4:
                vc, vp = f"V{c}", f"V{p}"
                need(v, "CL", vc, "Q", vp)
                k, k12, k21 = v["CL"] / v[vc], v["Q"] / v[vc], v["Q"] / v[vp]
            elif trans == 5:
                need(v, "AOB", "ALPHA", "BETA")
                k21 = (v["AOB"] * v["BETA"] + v["ALPHA"]) / (v["AOB"] + 1)
                k = v["ALPHA"] * v["BETA"] / k21
                k12 = v["ALPHA"] + v["BETA"] - k21 - k
            elif trans == 6:
                need(v, "ALPHA", "BETA", kpc)
                k21 = v[kpc]
                k = v["ALPHA"] * v["BETA"] / k21
                k12 = v["ALPHA"] + v["BETA"] - k21 - k
            else:
                raise Unsupported(f"ADVAN{advan} TRANS{trans}")
            out = {(c, 0): k, (c, p): k12, (p, c): k21}
            if advan == 4:
                need(v, "KA")
                out[(1, 2)] = v["KA"]
            return out
        return n, dose, obs, micro
    if advan == 10:
        return 1, 1, 1, None
    if advan in (11, 12):
        off = 0 if advan == 11 else 1
        c, p1, p2 = 1 + off, 2 + off, 3 + off
        n = 3 + off
        dose, obs = 1, c

        def micro(v):
            kc1, k1c, kc2, k2c = f"K{c}{p1}", f"K{p1}{c}", f"K{c}{p2}", f"K{p2}{c}"
            if trans == 1:
                need(v, "K", kc1, k1c, kc2, k2c)
                k, a, b, cc, d = v["K"], v[kc1], v[k1c], v[kc2], v[k2c]
            elif trans == 4:
                vc, q2, v2, q3, v3 = f"V{c}", f"Q{p1}", f"V{p1}", f"Q{p2}", f"V{p2}"
                need(v, "CL", vc, q2, v2, q3, v3)
                k, a, b, cc, d = v["CL"] / v[vc], v[q2] / v[vc], v[q2] / v[v2], v[q3] / v[vc], v[q3] / v[v3]
            elif trans == 6:
                need(v, "ALPHA", "BETA", "GAMMA", k1c, k2c)
                al, be, ga = v["ALPHA"], v["BETA"], v["GAMMA"]
                b, d = v[k1c], v[k2c]
                k = al * be * ga / (b * d)
                s = al + be + ga
                pp = al * be + al * ga + be * ga
                cc = (pp + d * d - d * s - k * b) / (b - d)
                a = s - k - cc - b - d
            else:
                raise Unsupported(f"ADVAN{advan} TRANS{trans}")
            out = {(c, 0): k, (c, p1): a, (p1, c): b, (c, p2): cc, (p2, c): d}
            if advan == 12:
                need(v, "KA")
                out[(1, 2)] = v["KA"]
            return out
        return n, dose, obs, micro
    raise Unsupported(f"ADVAN{advan}")


# ------------------------------------------------------------------------------ control stream
class ControlStream:
    def __init__(self, text):
        self.text = text
        self.records = [(canon(n), b) for n, b in split_records(text)]
        self.abbr = {}
        for n, b in self.records:
            if n == "ABBR":
                for m in re.finditer(r"REPLACE\s+(\S+?)\s*=\s*(\S+)", strip_comments(b), re.IGNORECASE):
                    self.abbr[m.group(1).upper()] = m.group(2).upper()
        self.thetas = []
        for n, b in self.records:
            if n == "THET":
                self.thetas.extend(parse_theta(b))
        self.omega_blocks = parse_omega_records([b for n, b in self.records if n == "OMEG"])
        self.sigma_blocks = parse_omega_records([b for n, b in self.records if n == "SIGM"])
        self.input = self._input()
        self.advan = None
        self.trans = 1
        for n, b in self.records:
            if n == "SUBR":
                s = strip_comments(b).upper()
                m = re.search(r"ADVAN\s*=?\s*(?:ADVAN)?(\d+)", s)
                if m:
                    self.advan = int(m.group(1))
                m = re.search(r"TRANS\s*=?\s*(?:TRANS)?(\d+)", s)
                if m:
                    self.trans = int(m.group(1))
        self.code = {}
        for n, b in self.records:
            if n in ("PK", "PRED", "ERRO", "DES"):
                src = self._apply_abbr(b)
                self.code[n] = nmcode.parse_code(src)
        self.model_comps = self._model()

    def _apply_abbr(self, src):
        if not self.abbr:
            return src
        out = src
        for k, v in self.abbr.items():
            out = re.sub(r"(?<![A-Za-z0-9_])" + re.escape(k) + r"(?![A-Za-z0-9_])", v, out, flags=re.IGNORECASE)
        return out

    def _input(self):
        cols = []
        for n, b in self.records:
            if n == "INPU":
                for item in strip_comments(b).split():
                    item = item.upper()
                    if "=" in item:
                        a, c = item.split("=", 1)
                        if a in ("DROP", "SKIP"):
                            cols.append((c, True, None))
                        elif c in ("DROP", "SKIP"):
                            cols.append((a, True, None))
                        else:
                            cols.append((a, False, c))
                    elif item in ("DROP", "SKIP"):
                        cols.append((item, True, None))
                    else:
                        cols.append((item, False, None))
        return cols

    def _model(self):
        comps = []
        for n, b in self.records:
            if n == "MODE":
                s = strip_comments(b).upper()
                for m in re.finditer(r"COMP(?:ARTMENT)?\s*=?\s*(?:\(([^)]*)\)|(\w+))", s):
                    inner = m.group(1) if m.group(1) is not None else m.group(2)
                    parts = re.split(r"[,\s]+", inner.strip())
                    comps.append((parts[0], set(parts[1:])))
        return comps

    # ---------------------------------------------------------------- structure
    def structure(self):
        """-> dict(n, dose, obs, kind in {'closed','mm','general','des'}, micro)"""
        if "PRED" in self.code:
            return None
        a = self.advan
        if a in (1, 2, 3, 4, 11, 12):
            n, dose, obs, micro = advan_structure(a, self.trans)
            return {"n": n, "dose": dose, "obs": obs, "kind": "closed", "micro": micro}
        if a == 10:
            return {"n": 1, "dose": 1, "obs": 1, "kind": "mm"}
        if a in (5, 7, 6, 8, 9, 13, 14, 15):
            comps = self.model_comps
            if not comps:
                raise ParseError("general ADVAN without $MODEL")
            n = len(comps)
            dose = obs = None
            for i, (name, opts) in enumerate(comps, 1):
                if "DEFDOSE" in opts or "DEFDOS" in opts:
                    dose = i
                if "DEFOBSERVATION" in opts or "DEFOBS" in opts:
                    obs = i
            if dose is None:
                for i, (name, opts) in enumerate(comps, 1):
                    if name == "DEPOT" and "NODOSE" not in opts:
                        dose = i
                        break
            if dose is None:
                for i, (name, opts) in enumerate(comps, 1):
                    if "NODOSE" not in opts:
                        dose = i
                        break
            if obs is None:
                for i, (name, opts) in enumerate(comps, 1):
                    if name == "CENTRAL":
                        obs = i
                        break
            if obs is None:
                obs = 1
            return {"n": n, "dose": dose, "obs": obs, "kind": "general" if a in (5, 7) else "des"}
        raise Unsupported(f"ADVAN{a}")

    # ---------------------------------------------------------------- evaluation
    def evaluate(self, theta, eta, eps, records):
        """theta/eta/eps: lists (1-based semantics).  records: list of dict data item -> float for ONE individual
        (keys upper-case, as named in $INPUT incl. synonyms).  Returns list of dict per record with keys:
        'vars' (scalars), 'A' (list of amounts) , 'tainted' (set of names), or raises Undefined/Unsupported."""
        vec = {"THETA": {i + 1: v for i, v in enumerate(theta)}, "ETA": {i + 1: v for i, v in enumerate(eta)},
               "EPS": {i + 1: v for i, v in enumerate(eps)}}
        if "PRED" in self.code:
            out = []
            for rec in records:
                env = nmcode.Env(vec=vec, data=rec)
                nmcode.execute(self.code["PRED"], env)
                out.append({"vars": dict(env.vals), "A": [], "tainted": set(env.tainted)})
            return out
        st = self.structure()
        n = st["n"]
        pk_envs = []
        for rec in records:
            env = nmcode.Env(vec=vec, data=rec)
            nmcode.execute(self.code.get("PK", []), env)
            pk_envs.append(env)

        def sysvals(k, rec):
            v = pk_envs[k].vals
            if st["kind"] == "closed":
                rates = st["micro"](v)
                return _linear(n, rates)
            if st["kind"] == "general":
                rates = {}
                for name, val in v.items():
                    m = re.fullmatch(r"K(\d)(\d)", name) or re.fullmatch(r"K(\d+)T(\d+)", name)
                    if m:
                        i, j = int(m.group(1)), int(m.group(2))
                        if 1 <= i <= n and 0 <= j <= n and i != j:
                            rates[(i, j)] = val
                        elif 1 <= i <= n and j == n + 1:
                            rates[(i, 0)] = val  # the output compartment may be named by its number n+1
                        elif i != j:
                            # a variable with the name of a rate constant between compartments that $MODEL does not define
                            raise Undefined(f"rate constant {name} names a compartment that does not exist ({n} compartments)")
                return _linear(n, rates)
            if st["kind"] == "mm":
                for nm in ("VM", "KM"):
                    if nm not in v:
                        raise Undefined(f"{nm} not defined")
                vm, km = v["VM"], v["KM"]
                return pkeng.SysVals(1, rhs=lambda t, a: np.array([-vm * a[0] / (km + a[0])]))
            if st["kind"] == "des":
                des = self.code.get("DES")
                if des is None:
                    raise ParseError("no $DES")
                base = pk_envs[k]

                def rhs(t, a):
                    env = nmcode.Env(vals=base.vals, vec=dict(vec, A={i + 1: a[i] for i in range(n)}), data=dict(rec, T=t))
                    env.vals["T"] = t
                    nmcode.execute(des, env)
                    d = env.vec.get("DADT", {})
                    return np.array([d.get(i + 1, 0.0) for i in range(n)])
                return pkeng.SysVals(n, rhs=rhs)
            raise Unsupported(st["kind"])

        def is_dose(rec):
            if "EVID" in rec:
                return rec["EVID"] in (1.0, 4.0)
            return rec.get("AMT", 0.0) != 0

        def is_reset(rec):
            return rec.get("EVID", 0.0) in (3.0, 4.0)

        def doses(k, rec):
            if not is_dose(rec):
                return []
            v = pk_envs[k].vals
            cmt = int(rec.get("CMT", 0) or 0) or st["dose"]
            if not (1 <= cmt <= n):
                raise Unsupported("dose into output compartment")
            F = v.get(f"F{cmt}", 1.0)
            lag = v.get(f"ALAG{cmt}", 0.0)
            amt = rec.get("AMT", 0.0)
            rate = rec.get("RATE", 0.0)
            if rate > 0:
                return [pkeng.Dose(cmt - 1, amt, rate=rate, lag=lag, F=F)]
            if rate == -1:
                if f"R{cmt}" not in v:
                    raise Undefined(f"R{cmt} not defined")
                return [pkeng.Dose(cmt - 1, amt, rate=v[f"R{cmt}"], lag=lag, F=F)]
            if rate == -2:
                if f"D{cmt}" not in v:
                    raise Undefined(f"D{cmt} not defined")
                return [pkeng.Dose(cmt - 1, amt, dur=v[f"D{cmt}"], lag=lag, F=F)]
            return [pkeng.Dose(cmt - 1, amt, lag=lag, F=F)]

        amounts = pkeng.run_individual(records, n, sysvals, doses, is_reset=is_reset)
        out = []
        for k, rec in enumerate(records):
            v = pk_envs[k].vals
            a = amounts[k]
            obs = st["obs"]
            cmt = int(rec.get("CMT", 0) or 0)
            if cmt and not is_dose(rec) and 1 <= cmt <= n:
                obs = cmt
            scale = v.get(f"S{obs}")
            if scale is None and obs == st["obs"] and "SC" in v:
                scale = v["SC"]
            if scale is None:
                scale = 1.0
            if scale == 0:
                raise Undefined("zero scale")
            F = a[obs - 1] / scale
            env = nmcode.Env(vals=v, vec=dict(vec, A={i + 1: a[i] for i in range(n)}), data=rec)
            env.tainted = set(pk_envs[k].tainted)
            env.vals["F"] = F
            nmcode.execute(self.code.get("ERRO", []), env)
            out.append({"vars": dict(env.vals), "A": [float(x) for x in a], "tainted": set(env.tainted)})
        return out


def _linear(n, rates):
    M = np.zeros((n, n))
    for (i, j), r in rates.items():
        M[i - 1, i - 1] -= r
        if j != 0:
            M[j - 1, i - 1] += r
    return pkeng.SysVals(n, M=M)
