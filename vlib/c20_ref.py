"""C20 reference writer: renders NONMEM output files (.ext .phi .cov .cor .coi, $TABLE files, a minimal
.lst) and the control stream of a parameter configuration, and states what a faithful reader must report.

Written from docs/NONMEM.rst (field widths, column order THETA-SIGMA-OMEGA, all-zero fixed rows, all-zero
individuals, PHI/PHC naming) and validated byte-for-byte against the checked-in outputs of real NONMEM runs
(`selftest`).  Nothing in this module calls pharmpy.
"""
from __future__ import annotations

import math
import os
import re

SPECIAL = {
    "final": -1000000000,
    "se": -1000000001,
    "eig": -1000000002,
    "cond": -1000000003,
    "sdcorr": -1000000004,
    "se_sdcorr": -1000000005,
    "fixed": -1000000006,
    "term": -1000000007,
    "grad": -1000000008,
}
TAIL = "Problem=1 Subproblem=0 Superproblem1=0 Iteration1=0 Superproblem2=0 Iteration2=0"


# ----------------------------------------------------------------------------- number formats
def e13(x):
    """1PE13.5 (12 significant characters right justified in 13): ext/phi/cov values"""
    s = "%13.5E" % x
    if len(s) != 13:
        raise ValueError(f"value {x!r} does not fit the documented 2-digit-exponent field")
    return s


def e12_4(x):
    """1PE12.4: $TABLE values"""
    s = "%12.4E" % x
    if len(s) != 12:
        raise ValueError(f"value {x!r} does not fit the $TABLE field")
    return s


def obj22(x):
    """OBJ column (1PG-style, 17 significant digits): plain decimal notation right justified in 22 for
    0.1 <= |x| < 1e16 and for 0; d.ddddddddddddddddE-ddd (after three blanks and a sign position) below 0.1"""
    if x == 0:
        return "0.0000000000000000".rjust(22)
    a = abs(x)
    sign = "-" if x < 0 else ""
    if a < 0.1:
        m, e = ("%.16E" % a).split("E")
        return "   " + (sign or " ") + "%sE%s%03d" % (m, e[0], abs(int(e)))
    if a < 1e16:
        nint = 0 if a < 1 else int(math.floor(math.log10(a))) + 1
        body = "%.*f" % (17 - nint, a)
        if a >= 1 and len(body.split(".")[0]) > nint:  # rounding produced one more integer digit
            body = "%.*f" % (17 - nint - 1, a)
        return (sign + body).rjust(22)
    raise ValueError(f"OBJ value {x!r} outside the supported range")


# ----------------------------------------------------------------------------- table renderers
def header13(names):
    return " " + "".join("%-13s" % n for n in names[:-1]) + names[-1] + "\n"


def table_line(number, method, goal=None, design=None, tail=TAIL):
    s = "TABLE NO. %5d: %s: " % (number, method)
    if design:
        s += design + ": "
    if goal:
        s += "Goal Function=%s: " % goal
    return s + tail + "\n"


def render_ext_table(tline, labels, rows, objname="OBJ"):
    """rows: list of (iteration:int, [values per label], obj)"""
    out = [tline, header13(["ITERATION"] + list(labels) + [objname])]
    for it, vals, obj in rows:
        out.append("%13d" % it + "".join(e13(v) for v in vals) + obj22(obj) + "\n")
    return "".join(out)


def render_phi_table(tline, neta, inds, prefix=("ETA", "ETC"), objname="OBJ"):
    """inds: list of (subject_no, id, [eta], [etc lower triangle row-wise], obj)"""
    names = ["SUBJECT_NO", "ID"]
    names += ["%s(%d)" % (prefix[0], i) for i in range(1, neta + 1)]
    names += ["%s(%d,%d)" % (prefix[1], i, j) for i in range(1, neta + 1) for j in range(1, i + 1)]
    names.append(objname)
    out = [tline, header13(names)]
    for sno, idv, eta, etc, obj in inds:
        out.append("%13d%13d" % (sno, idv) + "".join(e13(v) for v in eta) + "".join(e13(v) for v in etc)
                   + obj22(obj) + "\n")
    return "".join(out)


def render_matrix_table(tline, labels, matrix):
    out = [tline, header13(["NAME"] + list(labels))]
    for lab, row in zip(labels, matrix):
        out.append(" %-12s" % lab + "".join(e13(v) for v in row) + "\n")
    return "".join(out)


def render_dollar_table(number, names, rows, title=True, label=True, repeat_every=None):
    """$TABLE file.  repeat_every=n: the label line is repeated after every n records (NONMEM's default is
    900, as in the checked-in models/mytab_mox2; ONEHEADER switches it off); the `TABLE NO.` line is
    written once."""
    lab = " " + "".join("%-12s" % n for n in names[:-1]) + names[-1] + "\n"
    out = []
    if title:
        out.append("TABLE NO.%3d\n" % number)
    if label:
        out.append(lab)
    for k, row in enumerate(rows):
        if label and repeat_every and k and k % repeat_every == 0:
            out.append(lab)
        out.append("".join(e12_4(v) for v in row) + "\n")
    return "".join(out)


# ----------------------------------------------------------------------------- self test on real files
def _parse_generic(text):
    """split a NONMEM table file into (table line, header names, rows of str tokens)"""
    tabs = []
    for line in text.splitlines():
        if line.startswith("TABLE NO."):
            tabs.append([line + "\n", None, []])
        elif tabs[-1][1] is None:
            tabs[-1][1] = line.split()
        else:
            tabs[-1][2].append(line.split())
    return tabs


def selftest(testdata="/repo/tests/testdata/nonmem"):
    """Re-render real NONMEM output from its parsed numbers; returns (files reproduced, values reproduced,
    list of mismatching files)."""
    nfile = nval = 0
    bad = []

    def cmp(path, produced, original):
        nonlocal nfile
        nfile += 1
        if produced != original:
            bad.append(path)

    for rel in ("pheno_real.ext", "qa/iov.ext", "pheno_design.ext", "models/pheno5.ext", "pheno_pd.ext",
                "modelfit_results/onePROB/multEST/noSIM/pheno_multEST.ext"):
        p = os.path.join(testdata, rel)
        if not os.path.exists(p):
            continue
        text = open(p).read()
        out = ""
        for tline, names, rows in _parse_generic(text):
            rr = [(int(r[0]), [float(v) for v in r[1:-1]], float(r[-1])) for r in rows]
            nval += sum(len(r) for r in rows)
            out += render_ext_table(tline, names[1:-1], rr, objname=names[-1])
        cmp(rel, out, text)
    for rel in ("pheno_real.phi", "qa/iov.phi", "modelfit_results/saem/pheno_saem.phi", "models/pheno5.phi"):
        p = os.path.join(testdata, rel)
        if not os.path.exists(p):
            continue
        text = open(p).read()
        out = ""
        for tline, names, rows in _parse_generic(text):
            neta = sum(1 for n in names if re.match(r"(ETA|PHI)\(", n))
            pre = ("PHI", "PHC") if any(n.startswith("PHI") for n in names) else ("ETA", "ETC")
            inds = [(int(r[0]), int(r[1]), [float(v) for v in r[2:2 + neta]],
                     [float(v) for v in r[2 + neta:-1]], float(r[-1])) for r in rows]
            nval += sum(len(r) for r in rows)
            out += render_phi_table(tline, neta, inds, prefix=pre, objname=names[-1])
        cmp(rel, out, text)
    for rel in ("pheno_real.cov", "pheno_real.cor", "pheno_real.coi", "models/pheno5.cov", "models/mox1.cov"):
        p = os.path.join(testdata, rel)
        if not os.path.exists(p):
            continue
        text = open(p).read()
        out = ""
        for tline, names, rows in _parse_generic(text):
            nval += sum(len(r) - 1 for r in rows)
            out += render_matrix_table(tline, names[1:], [[float(v) for v in r[1:]] for r in rows])
        cmp(rel, out, text)
    for rel in ("pheno_real.tab", "sdtab1", "pheno_pd_mytab", "models/mytab_mox2"):
        p = os.path.join(testdata, rel)
        if not os.path.exists(p):
            continue
        text = open(p).read()
        lines = text.splitlines()
        m = re.match(r"TABLE NO.\s*(\d+)$", lines[0])
        if not m or sum(1 for ln in lines if ln.startswith("TABLE NO.")) != 1:
            continue
        names = lines[1].split()
        body = [ln for ln in lines[2:] if ln != lines[1]]
        rep = 900 if len(body) != len(lines) - 2 else None
        rows = [[float(v) for v in ln.split()] for ln in body]
        nval += sum(len(r) for r in rows)
        cmp(rel, render_dollar_table(int(m.group(1)), names, rows, repeat_every=rep), text)
    return nfile, nval, bad


# ----------------------------------------------------------------------------- parameter configurations
class Config:
    """A parameter configuration of a NONMEM model.

    thetas: list of dict(fix:bool, name:str|None)
    omegas / sigmas: list of records dict(size:int, fix:bool, same:bool, names:list[str|None] (diagonal))
    """

    def __init__(self, thetas, omegas, sigmas, mu_ref=False, nest=1, cov=True, table=None):
        self.thetas = thetas
        self.omegas = omegas
        self.sigmas = sigmas
        self.mu_ref = mu_ref
        self.nest = nest
        self.cov = cov
        self.table = table  # None or dict(cols=[...], options="ONEHEADER")
        self._derive()

    # -- derived description of every NONMEM parameter label
    def _derive(self):
        P = []  # dicts: label (ext label), kind est|fix|zero|same, name (pharmpy name), init
        for i, th in enumerate(self.thetas, start=1):
            init = THETA_INITS[(i - 1) % len(THETA_INITS)]
            P.append({"label": f"THETA{i}", "plabel": f"THETA({i})", "kind": "fix" if th["fix"] else "est",
                      "name": th.get("name") or f"THETA_{i}", "init": init, "group": "theta"})
        self.netas = sum(r["size"] for r in self.omegas)
        self.neps = sum(r["size"] for r in self.sigmas)
        sig = self._matrix_labels("SIGMA", self.sigmas)
        om = self._matrix_labels("OMEGA", self.omegas)
        self.params = P + sig + om  # NONMEM file order: THETA, SIGMA, OMEGA
        self.eta_names = [f"ETA_{i}" for i in range(1, self.netas + 1)]

    def _matrix_labels(self, pre, records):
        n = sum(r["size"] for r in records)
        info = {}
        start = 0
        prev = None
        for r in records:
            size = r["size"]
            for a in range(size):
                for b in range(a + 1):
                    i, j = start + a + 1, start + b + 1
                    if r.get("same"):
                        pi, pj = prev + a + 1, prev + b + 1
                        src = info[(pi, pj)]
                        info[(i, j)] = {"kind": "same", "name": src["name"], "init": src["init"], "src": (pi, pj)}
                    else:
                        nm = None
                        if a == b and r.get("names"):
                            nm = r["names"][a]
                        init = DIAG_INITS[(i - 1) % len(DIAG_INITS)] if a == b else OFF_INIT
                        info[(i, j)] = {"kind": "fix" if r["fix"] else "est", "name": nm or f"{pre}_{i}_{j}",
                                        "init": init}
            if not r.get("same"):
                prev = start
            start += size
        out = []
        for i in range(1, n + 1):
            for j in range(1, i + 1):
                d = info.get((i, j), {"kind": "zero", "name": None, "init": 0.0})
                d = dict(d)
                d["label"] = d["plabel"] = f"{pre}({i},{j})"
                d["group"] = pre.lower()
                d["ij"] = (i, j)
                out.append(d)
        return out

    # -- what pharmpy must call the estimated parameters
    def estimated(self):
        return [p for p in self.params if p["kind"] == "est"]

    def key(self):
        return {"thetas": self.thetas, "omegas": self.omegas, "sigmas": self.sigmas, "mu_ref": self.mu_ref,
                "nest": self.nest, "cov": self.cov, "table": self.table}

    # -- control stream
    def control_stream(self):
        L = ["$PROBLEM c20 synthetic", "$DATA data.csv IGNORE=@", "$INPUT ID TIME DV", "$PRED"]
        nth = len(self.thetas)
        terms = []
        if self.mu_ref:
            L.append("MU_1 = THETA(1)")
            L.append("P1 = MU_1 + ETA(1)")
            terms.append("P1")
        else:
            terms.append("THETA(1)")
            terms.append("ETA(1)")
        for i in range(2, nth + 1):
            terms.append(f"THETA({i})")
        for i in range(2, self.netas + 1):
            terms.append(f"ETA({i})")
        L.append("IPRED = " + " + ".join(terms))
        L.append("Y = IPRED + " + " + ".join(f"EPS({i})" for i in range(1, self.neps + 1)))
        for p, th in zip(self.params, self.thetas):
            s = "$THETA %s" % fnum(p["init"]) + (" FIX" if th["fix"] else "")
            if th.get("name"):
                s += " ; " + th["name"]
            L.append(s)
        for pre, records in (("OMEGA", self.omegas), ("SIGMA", self.sigmas)):
            ps = {p["ij"]: p for p in self.params if p["group"] == pre.lower()}
            start = 0
            for r in records:
                size = r["size"]
                if r.get("same"):
                    L.append(f"${pre} BLOCK({size}) SAME")
                    start += size
                    continue
                block = size > 1 or r.get("block")
                head = f"${pre}" + (f" BLOCK({size})" if block else "")
                if block and r["fix"]:
                    head += " FIX"
                L.append(head)
                for a in range(size):
                    vals = []
                    if block:
                        for b in range(a + 1):
                            vals.append(fnum(ps[(start + a + 1, start + b + 1)]["init"]))
                    else:
                        vals.append(fnum(ps[(start + a + 1, start + a + 1)]["init"]))
                    s = " " + " ".join(vals)
                    if not block and r["fix"]:
                        s += " FIX"
                    if r.get("names") and r["names"][a]:
                        s += " ; " + r["names"][a]
                    L.append(s)
                start += size
        L.append("$ESTIMATION METHOD=1 INTERACTION MAXEVAL=9999")
        if self.nest == 2:
            L.append("$ESTIMATION METHOD=IMP EONLY=1 NITER=5 ISAMPLE=1000")
        if self.cov:
            L.append("$COVARIANCE")
        if self.table:
            L.append("$TABLE " + " ".join(self.table["cols"]) + " " + self.table["options"] + " FILE=" +
                     self.table.get("file", "sdtab"))
        return "\n".join(L) + "\n"


THETA_INITS = [0.5, 1.25, -2.0, 3.0, 0.125, 7.0]
DIAG_INITS = [0.09, 0.04, 0.16, 0.25]
OFF_INIT = 0.01


def fnum(x):
    return repr(float(x))


# ----------------------------------------------------------------------------- minimal lst
def render_lst(tables, cov_ok=True, funcevals=111, sigdigs=3.3):
    """tables: list of (table number, method name, ofv)."""
    L = ["Sat Sep  8 10:57:25 CEST 2018", "$PROBLEM c20 synthetic", "",
         "1NONLINEAR MIXED EFFECTS MODEL PROGRAM (NONMEM) VERSION 7.4.2",
         " ORIGINALLY DEVELOPED BY STUART BEAL, LEWIS SHEINER, AND ALISON BOECKMANN", ""]
    for k, (no, method, ofv) in enumerate(tables):
        last = k == len(tables) - 1
        L += ["1", " #TBLN:%7d" % no, " #METH: " + method, "", " #TERM:"]
        if k == 0:
            L += ["0MINIMIZATION SUCCESSFUL", " NO. OF FUNCTION EVALUATIONS USED:%9d" % funcevals,
                  " NO. OF SIG. DIGITS IN FINAL EST.:  %.1f" % sigdigs]
        else:
            L += [" EXPECTATION ONLY PROCESS WAS NOT TESTED FOR CONVERGENCE"]
        L += ["", " #TERE:", " Elapsed estimation  time in seconds:     0.32"]
        if last and cov_ok:
            L += [" Elapsed covariance  time in seconds:     0.28"]
        L += [" Elapsed postprocess time in seconds:     0.09", "1", "", " #OBJT:**************"
              "                       MINIMUM VALUE OF OBJECTIVE FUNCTION                      ********************",
              " #OBJV:********************************************      %.3f       "
              "**************************************************" % ofv, "1"]
    L += [" Elapsed finaloutput time in seconds:     0.02", " #CPUT: Total CPU Time in Seconds,        0.720",
          "Stop Time:", "Sat Sep  8 10:57:29 CEST 2018"]
    return "\n".join(L) + "\n"


# ----------------------------------------------------------------------------- linear algebra (reference)
def inverse(A):
    """Gauss-Jordan with partial pivoting on a small well-conditioned matrix"""
    n = len(A)
    M = [list(map(float, A[i])) + [1.0 if i == j else 0.0 for j in range(n)] for i in range(n)]
    for c in range(n):
        piv = max(range(c, n), key=lambda r: abs(M[r][c]))
        if M[piv][c] == 0:
            raise ZeroDivisionError("singular")
        M[c], M[piv] = M[piv], M[c]
        d = M[c][c]
        M[c] = [v / d for v in M[c]]
        for r in range(n):
            if r != c and M[r][c] != 0:
                f = M[r][c]
                M[r] = [a - f * b for a, b in zip(M[r], M[c])]
    return [row[n:] for row in M]
