"""c16_sched - schedule exploration of the real model database / run context code.

Two or three virtual threads (vlib.schedx: real threads passing a baton), grouped into simulated processes, run store /
retrieve / log / annotation operations of real LocalDirectoryContext objects on one real directory tree.

Scheduling points
  * every operation of pharmpy.internals.fs.lock (shim Lock/RLock/Condition, simulated fcntl kernel: exactly the C15 set-up;
    one private copy of lock.py per simulated process, selected by the pid of the calling virtual thread),
  * every mutating file-system operation below the root (vlib.crashfs interposer: create/truncate/write/mkdir/unlink/
    rename/symlink), and
  * every *reading* file-system call below the root (stat/lstat/scandir/listdir/readlink/open for reading),
so a reader can be interleaved between any two file-system operations of a writer, and the other way round.

Everything else (pandas, sympy, code generation) runs between two points without interruption; it touches no state that is
shared between the threads except through the calls above (assumption, stated in the evidence).
"""
from __future__ import annotations

import builtins
import io
import os
import shutil
import tempfile

REFUSALS = ("KeyError", "PendingTransactionError", "FileNotFoundError")

_template_cache = {}
_after_memo = {}


def _models():
    from checks import c16

    return c16.models()


def _prepare_template(pre):
    """directory tree after the sequential prefix `pre` (real locks, no scheduler); cached per worker"""
    from pharmpy.workflows import LocalDirectoryContext

    from checks import c16

    key = tuple(pre)
    if key in _template_cache and os.path.isdir(_template_cache[key][0]):
        return _template_cache[key]
    base = tempfile.mkdtemp(prefix="verif-c16s-tpl-")
    root = os.path.join(base, "root")
    os.mkdir(root)
    ctx = LocalDirectoryContext("ctx", ref=root)
    ref = {"names": {}, "log": []}
    for op in pre:
        c16.run_op(ctx, op, ref)
    _template_cache[key] = (base, ref)
    return _template_cache[key]


def cleanup_templates():
    for base, _ in _template_cache.values():
        shutil.rmtree(base, ignore_errors=True)
    _template_cache.clear()


class ReadPoints:
    """make the reading file-system calls below `root` scheduling points (installed above the crashfs wrappers)"""

    NAMES = ("stat", "lstat", "scandir", "listdir", "readlink")

    def __init__(self, root, on_read):
        self.root = os.path.realpath(root)
        self.on_read = on_read
        self.saved = {}

    def _watched(self, path):
        try:
            p = os.fspath(path)
        except TypeError:
            return False
        if isinstance(p, bytes):
            p = p.decode()
        p = os.path.abspath(p)
        return p == self.root or p.startswith(self.root + os.sep)

    def __enter__(self):
        rp = self
        for nm in self.NAMES:
            real = getattr(os, nm)
            self.saved[nm] = real

            def f(path=".", *a, _real=real, _nm=nm, **kw):
                if "dir_fd" not in kw and rp._watched(path):
                    rp.on_read(_nm, path)
                return _real(path, *a, **kw)

            setattr(os, nm, f)
        self.saved["open"] = builtins.open
        self.saved["io_open"] = io.open
        inner = builtins.open

        def r_open(file, mode="r", *args, **kwargs):
            if isinstance(file, (str, bytes, os.PathLike)) and not any(c in mode for c in "wax+") and rp._watched(file):
                rp.on_read("open-r", file)
            return inner(file, mode, *args, **kwargs)

        builtins.open = r_open
        io.open = r_open
        return self

    def __exit__(self, *a):
        for nm in self.NAMES:
            setattr(os, nm, self.saved[nm])
        builtins.open = self.saved["open"]
        io.open = self.saved["io_open"]


def run_program(prog, prefix, opts=None):
    """prog = (pre, threads) ; pre = tuple of ops run sequentially first ; threads = ((pid, (op, ...)), ...)
    -> dict(sched, failures, outcome, n_points)"""
    import pharmpy.workflows.contexts.local_directory as ctxmod
    import pharmpy.workflows.model_database.local_directory as dbmod
    from pharmpy.workflows import LocalDirectoryContext, ModelEntry

    from checks import c15, c16
    from vlib import crashfs, schedx

    opts = opts or {}
    pre, threads = prog
    tpl_base, ref0 = _prepare_template(pre)
    base = tempfile.mkdtemp(prefix="verif-c16s-")
    root = os.path.join(base, "root")
    crashfs.copy_tree(os.path.join(tpl_base, "root"), root)
    holder = {}
    sref = lambda: holder["s"]  # noqa: E731
    s = schedx.Sched(prefix, max_steps=int(opts.get("max_steps", 60000)))
    holder["s"] = s
    s.record_trace = bool(opts.get("trace"))
    kernel = schedx.Kernel()
    mods = {pid: c15.load_lock_module(sref, kernel, pid) for pid in sorted({pid for pid, _ in threads})}
    real_path_lock = dbmod.path_lock
    assert ctxmod.path_lock is real_path_lock

    def vt_or_none():
        return getattr(s._tls, "vt", None)

    def path_lock(path, shared=False, blocking=True, reentrant=False):
        vt = vt_or_none()
        if vt is None:
            return real_path_lock(path, shared=shared, blocking=blocking, reentrant=reentrant)
        return mods[vt.pid].path_lock(path, shared=shared, blocking=blocking, reentrant=reentrant)

    fs_points = {"n": 0}

    def on_op(op):
        if vt_or_none() is not None and not s.abort:
            fs_points["n"] += 1
            s.point(("fs", op["kind"], op["path"]), None)

    def on_read(kind, path):
        if vt_or_none() is not None and not s.abort:
            fs_points["n"] += 1
            s.point(("fs-read", kind, os.path.relpath(os.fspath(path), root)), None)

    M = _models()
    results = {}  # tid -> list of (op, status, payload)
    ctxs = {}
    for tid, (pid, ops) in enumerate(threads):
        ctxs[tid] = LocalDirectoryContext("ctx", ref=root)  # every thread/process has opened the context before

    def make_body(tid, pid, ops):
        def fn(vt):
            out = results.setdefault(tid, [])
            ctx = ctxs[tid]
            for op in ops:
                try:
                    k = op[0]
                    if k in ("store", "final", "input", "log", "annot"):
                        c16.run_op(ctx, op, {"names": {}, "log": []})
                        out.append((op, "ack", None))
                    elif k == "retrieve":
                        me = ctx.retrieve_model_entry(op[1])
                        out.append((op, "got", me.model))
                    elif k == "retrieve_key":
                        from pharmpy.workflows.hashing import ModelHash

                        me = ctx.model_database.retrieve_model_entry(ModelHash(M[op[1]]))
                        out.append((op, "got", me.model))
                    elif k == "names":
                        out.append((op, "got", list(ctx.list_all_names())))
                    else:
                        raise ValueError(k)
                except schedx.Abort:
                    raise
                except Exception as e:
                    out.append((op, "exc", f"{type(e).__name__}: {str(e)[:120]}"))
        return fn

    for tid, (pid, ops) in enumerate(threads):
        s.spawn(make_body(tid, pid, ops), pid=pid, name=f"t{tid}(P{pid})")

    dbmod.path_lock = path_lock
    ctxmod.path_lock = path_lock
    failures = []
    try:
        rec = crashfs.Recorder(root, on_op)
        with rec:
            if opts.get("read_points", True):
                with ReadPoints(root, on_read):
                    s.run()
            else:
                s.run()
    finally:
        dbmod.path_lock = real_path_lock
        ctxmod.path_lock = real_path_lock
    try:
        if s.deadlock:
            failures.append("deadlock: no thread is enabled: " + "; ".join(
                f"{t.name} at {t.pending[0] if t.pending else None}" for t in s.threads if not t.done))
        for t in s.threads:
            if t.crashed is not None:
                failures.append(f"harness thread {t.name} crashed: {type(t.crashed).__name__}: {str(t.crashed)[:120]}")
        if not s.deadlock:
            failures += _oracle(pre, ref0, threads, results, root)
        if not kernel.quiescent() and not s.deadlock:
            failures.append(f"kernel not quiescent after the program: {kernel.snapshot()}")
    finally:
        shutil.rmtree(base, ignore_errors=True)
    oc = []
    for tid in sorted(results):
        for op, st, payload in results[tid]:
            oc.append(f"{op[0]}:{st if st != 'exc' else payload.split(':')[0]}")
    return {"sched": s, "failures": failures, "outcome": "|".join(oc) + ("|DEADLOCK" if s.deadlock else ""), "fs_points": fs_points["n"]}


def _oracle(pre, ref0, threads, results, root):
    """after the run (fresh objects, real locks): acknowledged stores are retrievable and intact; what a concurrent reader
    obtained is a complete entry or a refusal; entries of the prefix are intact; log rows complete and in per-thread order"""
    from pharmpy.workflows import LocalDirectoryContext

    from checks import c16

    fails = []
    M = _models()
    ctx = LocalDirectoryContext("ctx", ref=root)
    # expected name map: prefix, then acknowledged stores (the same name is never stored by two threads in our programs)
    names = dict(ref0["names"])
    log_expected = {}
    for tid in sorted(results):
        for op, st, payload in results[tid]:
            k = op[0]
            if st == "exc" and k in ("store", "final", "input", "log", "annot"):
                fails.append(f"{k} {op[1:3]} of thread {tid} raised {payload} although no other operation touches its key/name")
            if st != "ack":
                continue
            if k == "store":
                names[op[2]] = (op[1], op[3])
            elif k == "final":
                names["final"] = (op[1], M[op[1]].description)
            elif k == "input":
                names["input"] = (op[1], M[op[1]].description)
            elif k == "annot":
                if op[1] in names:
                    names[op[1]] = (names[op[1]][0], op[2])
            elif k == "log":
                log_expected.setdefault(tid, []).append((op[1], op[2]))
    # the retrievals below are a function of the directory tree and the expected name map: evaluated once per distinct pair
    from vlib import crashfs

    memo_key = (crashfs.tree_digest(root), tuple(sorted(names.items())))
    if memo_key in _after_memo:
        fails += _after_memo[memo_key]
    else:
        after = []
        for name, (mid, desc) in sorted(names.items()):
            try:
                me = ctx.retrieve_model_entry(name)
            except Exception as e:
                after.append(f"after the run: acknowledged entry {name!r} cannot be retrieved: {type(e).__name__}: {str(e)[:100]}")
                continue
            d = c16.equivalent(me.model, M[mid], name, desc)
            if d:
                after.append(f"after the run: entry {name!r} is not equivalent to what was stored: {d[0]}")
        if len(_after_memo) > 500:
            _after_memo.clear()
        _after_memo[memo_key] = after
        fails += after
    # concurrent readers
    stored_by_name = {}
    for _, ops in threads:
        for op in ops:
            if op[0] == "store":
                stored_by_name[op[2]] = (op[1], op[3])
    for name, v in ref0["names"].items():
        stored_by_name.setdefault(name, v)
    for tid in sorted(results):
        for op, st, payload in results[tid]:
            if op[0] == "retrieve":
                if st == "exc":
                    if payload.split(":")[0] not in REFUSALS:
                        fails.append(f"reader (thread {tid}) of {op[1]!r} failed with {payload} (neither a complete entry nor a refusal)")
                    elif op[1] in ref0["names"]:
                        fails.append(f"reader (thread {tid}) of {op[1]!r}, committed before the run, was refused: {payload}")
                elif st == "got":
                    mid, desc = stored_by_name[op[1]]
                    d = c16.equivalent(payload, M[mid], op[1], desc)
                    if d:
                        fails.append(f"reader (thread {tid}) obtained a partial entry for {op[1]!r}: {d[0]}")
            elif op[0] == "retrieve_key":
                if st == "exc":
                    if payload.split(":")[0] not in REFUSALS:
                        fails.append(f"reader (thread {tid}) of key {op[1]} failed with {payload} (neither a complete entry nor a refusal)")
                elif st == "got":
                    want = M[op[1]]
                    d = [x for x in c16.equivalent(payload, want, payload.name, payload.description)]
                    if d:
                        fails.append(f"reader (thread {tid}) obtained a partial entry for key {op[1]}: {d[0]}")
    # log
    if log_expected or ref0["log"]:
        try:
            df = ctx.retrieve_log()
            rows = [(r["severity"], r["message"]) for _, r in df.iterrows()]
        except Exception as e:
            fails.append(f"after the run: the log cannot be read: {type(e).__name__}: {str(e)[:100]}")
            rows = None
        if rows is not None:
            want_all = list(ref0["log"]) + [x for tid in sorted(log_expected) for x in log_expected[tid]]
            if sorted(rows) != sorted(want_all):
                fails.append(f"after the run: log rows {rows} are not the acknowledged messages {want_all}")
            else:
                for tid, msgs in log_expected.items():
                    sub = [r for r in rows if r in msgs]
                    if sub != msgs:
                        fails.append(f"after the run: messages of thread {tid} are out of order: {sub} vs {msgs}")
    return fails
