"""Conformance of the simulated kernel (schedx.Kernel) with the real one: every sequence of
non-blocking operations (open, lockf SH|NB, EX|NB, UN, close on two descriptor slots) by two
real OS processes on a real file is executed for real and on the simulation; the observable
results (granted / EAGAIN / EBADF) must be identical step by step."""
from __future__ import annotations

import itertools
import os
import subprocess
import sys
import tempfile

CHILD = r'''
import fcntl, os, sys
path = sys.argv[1]
slots = {}
for line in sys.stdin:
    cmd = line.split()
    op = cmd[0]
    try:
        if op == "open":
            slots[cmd[1]] = os.open(path, os.O_RDWR); r = "ok"
        elif op == "close":
            os.close(slots.pop(cmd[1])); r = "ok"
        elif op == "sh":
            fcntl.lockf(slots[cmd[1]], fcntl.LOCK_SH | fcntl.LOCK_NB); r = "ok"
        elif op == "ex":
            fcntl.lockf(slots[cmd[1]], fcntl.LOCK_EX | fcntl.LOCK_NB); r = "ok"
        elif op == "un":
            fcntl.lockf(slots[cmd[1]], fcntl.LOCK_UN); r = "ok"
        elif op == "reset":
            for k in list(slots):
                os.close(slots.pop(k))
            r = "ok"
        else:
            r = "?"
    except BlockingIOError as e:
        r = "EAGAIN" if e.errno == 11 and e.strerror == "Resource temporarily unavailable" else f"E{e.errno}"
    except OSError as e:
        r = f"E{e.errno}"
    sys.stdout.write(r + "\n"); sys.stdout.flush()
'''

OPS = [("open", "a"), ("open", "b"), ("sh", "a"), ("ex", "a"), ("un", "a"), ("close", "a"),
       ("sh", "b"), ("ex", "b"), ("un", "b"), ("close", "b")]


class Real:
    def __init__(self, path):
        self.procs = [subprocess.Popen([sys.executable, "-c", CHILD, path], stdin=subprocess.PIPE, stdout=subprocess.PIPE,
                                       text=True, bufsize=1) for _ in range(2)]

    def do(self, p, op, slot=""):
        pr = self.procs[p]
        pr.stdin.write(f"{op} {slot}\n")
        pr.stdin.flush()
        return pr.stdout.readline().strip()

    def close(self):
        for pr in self.procs:
            pr.stdin.close()
            pr.wait(timeout=10)


def sim_do(kernel, slots, p, op, slot):
    if op == "open":
        slots[p][slot] = kernel.open(p, "f")
        return "ok"
    fd = slots[p][slot]
    if op == "close":
        kernel.close(p, fd)
        del slots[p][slot]
        return "ok"
    if op == "un":
        kernel.unlock(p, kernel.path_of(p, fd))
        return "ok"
    return "ok" if kernel.try_lock(p, fd, "SH" if op == "sh" else "EX") else "EAGAIN"


def valid(seq):
    """only sequences whose slot use is well formed (ops on open slots, no double open)"""
    openset = set()
    for p, (op, slot) in seq:
        if op == "open":
            if (p, slot) in openset:
                return False
            openset.add((p, slot))
        else:
            if (p, slot) not in openset:
                return False
            if op == "close":
                openset.discard((p, slot))
    return True


def run(tier):
    from vlib.schedx import Kernel

    maxlen = 5 if tier == "quick" else 6
    res = {"states": 0, "transitions": 0, "evaluations": 0, "distinct_nontrivial": 0, "violations": [], "samples": [],
           "outcomes": {}, "traces_validated_against_impl": 0, "kernel_conformance_sequences": 0,
           "kernel_conformance_maxlen": maxlen}
    d = tempfile.mkdtemp(prefix="verif-kconf-")
    path = os.path.join(d, "lockfile")
    open(path, "w").close()
    real = Real(path)
    mismatches = []
    try:
        alphabet = [(p, o) for p in (0, 1) for o in OPS]
        for n in range(1, maxlen + 1):
            for seq in itertools.product(alphabet, repeat=n):
                if seq[0][1][0] != "open" or not valid(seq):
                    continue
                # at least one lock op, otherwise nothing to compare
                if not any(o[0] in ("sh", "ex") for _, o in seq):
                    continue
                k = Kernel()
                slots = {0: {}, 1: {}}
                got_r, got_s = [], []
                for p, (op, slot) in seq:
                    got_r.append(real.do(p, op, slot))
                    got_s.append(sim_do(k, slots, p, op, slot))
                real.do(0, "reset")
                real.do(1, "reset")
                res["kernel_conformance_sequences"] += 1
                res["traces_validated_against_impl"] += 1
                if got_r != got_s:
                    mismatches.append((seq, got_r, got_s))
    finally:
        real.close()
        try:
            os.unlink(path)
            os.rmdir(d)
        except OSError:
            pass
    if mismatches:
        # the model of the kernel is wrong: this is a harness error, never a verdict about pharmpy
        raise RuntimeError(f"simulated kernel disagrees with the real kernel on {len(mismatches)} sequences, e.g. {mismatches[0]}")
    res["samples"].append({"kernel_conformance": f"{res['kernel_conformance_sequences']} sequences of <= {maxlen} non-blocking ops by 2 real processes agree"})
    return res
