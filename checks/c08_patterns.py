"""Narrow classifiers for the known findings of C08 (by the shape of the request history and the failure class)."""


def classify(w):
    start, labels = w["history"]
    what = w["what"].split("] ", 1)[-1]
    last = labels[-1] if labels else None
    prev = labels[:-1]
    transits_before = any(x in ("transits_1", "transits_3", "transits_1_nodepot") for x in prev) and "transits_0" not in prev
    zo_before = any(x in ("abs_zo", "abs_seq") for x in prev) and not any(x in ("abs_fo", "abs_inst") for x in prev[max(i for i, x in enumerate(prev) if x in ("abs_zo", "abs_seq")):])
    # a model that combines zero-order / sequential absorption with transit compartments (set_transit_compartments accepted the
    # excluded combination): later requests for first-order absorption or for no transits go wrong
    zi = [i for i, x in enumerate(prev) if x in ("abs_zo", "abs_seq")]
    if last in ("abs_fo", "transits_0") and zi:
        after = prev[zi[-1] + 1:]
        if any(x in ("transits_1", "transits_3") for x in after) and not any(x in ("abs_fo", "abs_inst", "transits_0") for x in after) and (
                what.startswith("detectability: after abs_fo the absorption detector reports") or
                what.startswith("frame: abs_fo changed transits from") or
                what.startswith("frame: transits_0 changed absorption from")):
            return "requests_on_zero_order_absorption_with_transits_go_wrong"
    if last in ("transits_1", "transits_3") and start == "pheno_oral" and "transits_0" in prev and \
            any(x in ("transits_1", "transits_3") for x in prev[:prev.index("transits_0")]) and \
            what.startswith(f"detectability: after {last} the transits detector reports {int(last[-1]) + 1}, requested {last[-1]}"):
        return "transits_readded_after_removal_reuse_rate_name_of_depot"
    if last in ("transits_1", "transits_3", "transits_1_nodepot") and zo_before:
        return "transits_requested_on_zero_order_absorption"
    if last in ("abs_zo", "abs_seq") and transits_before:
        return "zero_order_absorption_requested_with_transits"
    if last == "abs_inst" and transits_before:
        return "instantaneous_absorption_requested_with_transits"
    if last == "transits_0" and "frame: transits_0 changed lagtime from True to False" in what:
        return "transits_zero_request_removes_lag_time"
    absorb = [x for x in prev if x.startswith("abs_")]
    if last == "abs_fo" and absorb and absorb[-1] == "abs_seq" and "changed lagtime from True to False" in what:
        return "first_order_absorption_after_seq_removes_lag_time"
    elim = [x for x in prev if x.startswith("elim_")]
    if last in ("metabolite", "metabolite_psc") and elim and elim[-1] in ("elim_mm", "elim_zo", "elim_mix") and \
            what.startswith(f"frame: {last} changed elimination from") and what.endswith("to ('FO',)"):
        return "metabolite_on_nonlinear_elimination_reported_as_first_order"
    if last == "metabolite_psc" and start == "pheno" and prev == ["transits_3"] and \
            what.startswith("frame: metabolite_psc changed transits from 3 to 2"):
        return "presystemic_metabolite_on_chain_without_depot_counts_last_transit_as_depot"
    if last in ("transits_1", "transits_1_nodepot") and "transits_3" in prev and what.startswith("detectability"):
        i = prev.index("transits_3")
        had_depot = start == "pheno_oral" or any(x in ("abs_fo", "abs_seq") for x in prev[:i])
        if not had_depot:
            return "transits_reduced_on_chain_created_without_depot"
    return None
