"""C13 - datasets are read by NM-TRAN's rules and survive a write/read cycle.

Bounded-exhaustive enumeration of data file texts (rows built item by item from the documented
lexical forms, row sequences with comment/blank lines), $INPUT column lists, $DATA option lists and
IGNORE/ACCEPT filter lists; every case is read by pharmpy (read_nonmem_dataset on a StringIO, or
read_model on generated model + data files) and compared with the reference reader
vlib/c13_ref.py written from docs/NONMEM.rst.  Second part: all small numeric DataFrames are put
into a model, written (write_model -> write_csv + generated $INPUT/$DATA) and read back.
"""
from __future__ import annotations

import itertools
import math
import os
import re
import shutil
import tempfile
import warnings

from vlib import c13_ref as R

PROPERTY = "C13"
LEVEL = "model_checking"
ENGINE = "enumx"
TECHNIQUE = ("bounded exhaustive enumeration of data texts x $INPUT lists x $DATA option/filter lists (prefix "
             "transition system: append one item/row/filter), each read compared with a reference NM-TRAN reader; "
             "exhaustive write/read cycle over small numeric DataFrames")
LEVEL_TEXT = (
    "Every data text, column list and filter list up to the stated bounds is generated (no sampling) and the "
    "DataFrame pharmpy returns is compared value by value with an independent character-level reader written from "
    "docs/NONMEM.rst; the rules interact only locally (item x delimiter, row length x $INPUT length, filter x "
    "filter order), so their known failure modes have witnesses of <= 3 items / rows / 2 filters."
)
LEVEL_NOTE = (
    "trusted: the 250-line reference reader vlib/c13_ref.py and the by-construction mapping from the semantic case "
    "description to $INPUT/$DATA syntax; cases the document does not determine are counted as unspecified, never "
    "failed; nothing is claimed for longer rows/texts, TIME/DATE translation, ID renumbering or BLANKOK"
)
PREIMPORT = ("pharmpy.modeling",)
RULE = (
    "lex: every row of 1-3 items over the item alphabet x delimiter layout x ($INPUT length n-1/n/n+1, DROP, "
    "NULL=c) at read_nonmem_dataset level; rows: every sequence of <= 2 (quick) / 3 (thorough) lines over a menu of "
    "data, comment, blank and space-TAB lines x final newline x IGNORE=c; filt: every IGNORE list of <= 2 filters and "
    "every single ACCEPT filter over operators x value forms x columns (kept, dropped, padded) on fixed texts; "
    "model: $INPUT shapes x IGNORE=c syntaxes x NULL= syntaxes x filter syntaxes through read_model on files; "
    "wr: every numeric DataFrame up to the cell bound over 6 values, written by write_model and read back by "
    "read_model. A case is non-trivial when pharmpy accepted it and >= 1 value was compared."
)
ASSUMPTIONS = [
    "'=' and '/=' in a filter are the text operators .EQ./.NE. (the document names only the dotted forms)",
    "a text comparison is equality of the raw item text; a NULL item (., empty, padding) matches no text value",
    "undetermined by the document, therefore only counted: numeric comparison on a NULL item, lists of >= 2 ACCEPT "
    "filters, rows starting/ending with TAB, comma and TAB in one delimiter run, lines starting with @ under IGNORE=@, "
    "texts without data rows, non numeric items in TIME, nan/inf items, the missing data token -99",
    "contents of dropped columns are not compared; a synonym column may be named by either of its two names",
    "written/read DataFrames are compared by column names, shape and values (NaN equals NaN), not by dtype",
    "floats compared with |a-b| <= 1e-7*max(1,|a|,|b|)",
]
BOUNDS = {
    "quick": "lex: rows <= 2 items over 16 items (3 items over 5) x 20 delimiter layouts x 6 ($INPUT length, DROP, NULL) "
             "configs; rows: <= 2 lines over a 30-line menu x 2 endings x 4 IGNORE=c x 3 column configs; filt: 3 texts x "
             "2 column configs, all single IGNORE/ACCEPT filters over 8 operators x 6 value forms x 3 columns, IGNORE "
             "pairs over a reduced menu; model: 18 $INPUT shapes x 5 texts, each IGNORE=c / NULL= / filter syntax once "
             "plus pairs on one text; wr: frames <= 3 cells over 6 values, 2 x 2 over 4 values, 3 header and 3 base "
             "model variants on <= 2 cells",
    "thorough": "lex: rows <= 3 items over 16 items x 40 layouts x 6 configs; rows: <= 3 lines; filt: 4 texts x 15 "
                "operators x NULL=1, all IGNORE pairs over 8 operators; model: full product 18 $INPUT x 9 IGNORE=c x 6 "
                "NULL= x 19 filter syntaxes on 3 texts; wr: frames <= 5 cells over 6 values, 6 cells over 5 values",
}

# ============================================================================= alphabets
ITEM24 = "1." + "0" * 22       # exactly 24 characters: legal
ITEM25 = "1." + "0" * 23       # 25 characters: too long
ITEMS = ["1", "2.5", "-3", ".", "", "1d1", "2-1", "+", "-", "1E2", "abc", "NA", ITEM25, ITEM24, "1_0", "2-1-3",
         "-2-1", "+1.5+2", "-1d1"]  # a signed mantissa in front of the short exponent form / the D exponent
ITEMS_SMALL = ["1", ".", "", "2-1", "abc"]
NAMES = ["A", "B", "C", "D"]

# (separator, prefix, suffix)
SEPS = [",", " ", "\t", " ,", ", ", "\t ", " , ", "  "]
LAYOUTS_FULL = [(s, p, q) for s in SEPS for (p, q) in [("", ""), (" ", ""), ("", " "), (",", ""), ("", ",")]]
LAYOUTS_QUICK = [(s, "", "") for s in SEPS] + [(s, p, q) for s in [",", " ", "\t"]
                                               for (p, q) in [(" ", ""), ("", " "), (",", ""), ("", ",")]]


def lex_configs(n):
    """(ncols, dropped column index or None, null char)"""
    cfg = [(n, None, None), (n + 1, None, "1"), (n, 1 if n > 1 else 0, None), (n + 1, None, None), (n, None, "-")]
    if n > 1:
        cfg.append((n - 1, None, None))
    else:
        cfg.append((n + 2, 1, "7"))
    return cfg


def mkcols(ncols, dropidx):
    return [[NAMES[i], i == dropidx] for i in range(ncols)]


def gen_lex(tier, first):
    """all rows whose first item is `first`"""
    big = ITEMS
    small = ITEMS_SMALL
    layouts = LAYOUTS_FULL if tier == "thorough" else LAYOUTS_QUICK
    for n in (1, 2, 3):
        if n == 3 and tier != "thorough":
            if first not in small:
                continue
            rest_alpha = small
        else:
            rest_alpha = big
        for rest in itertools.product(rest_alpha, repeat=n - 1):
            items = (first,) + rest
            cfgs = lex_configs(n)
            if n == 3 and tier != "thorough":
                cfgs = cfgs[:3]
            for sep, pre, suf in layouts:
                text = pre + sep.join(items) + suf + "\n"
                for ncols, dropidx, null in cfgs:
                    yield {"fam": "lex", "lvl": "A", "text": text, "cols": mkcols(ncols, dropidx), "ign": None,
                           "null": null, "filt": None}


# ----------------------------------------------------------------------------- rows
LINE_MENU = [
    "1,2,3", "4,5", "6", "7,8,9,10", "1 2 3", "1\t2\t3", ".,.,.", ",,", "1,,", " 1,2", "1,2 ",
    "abc,1,2", "1,abc,2", "1d1 2-1 +",
    "#c", "#1,2,3", " #1,2", "C1,2", "c1,2", "abc", " abc", "\tabc", "@x", "A,B,C",
    "", " ", "\t", " \t", "1 \t2", "  ",
    # space-TAB inside lines that NM-TRAN discards before it looks at items (a comment, an IGNORE=c line, the header)
    "# \tc", "C \t1", "A \tB,C",
]
ROW_COLS = [
    [["A", False], ["B", False], ["C", False]],
    [["A", False], ["B", False]],
    [["A", True], ["B", False], ["C", False]],
]
IGNS = [None, "#", "@", "C"]


def gen_rows(tier, first):
    maxlen = 3 if tier == "thorough" else 2
    for n in range(1, maxlen + 1):
        for rest in itertools.product(LINE_MENU, repeat=n - 1):
            lines = (first,) + rest
            for ending in ("\n", ""):
                text = "\n".join(lines) + ending
                for ign in IGNS:
                    for ci, cols in enumerate(ROW_COLS):
                        if tier != "thorough" and n == 2 and ci == 2 and ign in ("#",):
                            continue
                        yield {"fam": "rows", "lvl": "A", "text": text, "cols": cols, "ign": ign, "null": None,
                               "filt": None}


# ----------------------------------------------------------------------------- filters
FILT_TEXTS = [
    "1,1,1\n1.0,abc,2\n2,x,.\n3,2\n",
    "1,1,1\nabc,1,3\n2,abc,0\n1d0,2,1+0\n",
    "1,1\n1,0\n2\n",
    "0,.,1\n1,,abc\n-1,0,2-1\n+,1,1\n",
]
FILT_COLS = [
    [["A", False], ["B", True], ["C", False]],
    [["A", False], ["B", False], ["C", False]],
]
OPS_Q = [".EQ.", ".NE.", ".EQN.", ".NEN.", ".LT.", ".GE.", "=", "/="]
OPS_T = OPS_Q + [".LE.", ".GT.", "<", ">", "<=", ">=", "=="]
# (syntax, semantic value)
VALS = [("1", "1"), ("'1'", "1"), ('"1"', "1"), ("abc", "abc"), ("'abc'", "abc"), ("0", "0")]


def all_filters(ops, cols=("A", "B", "C"), vals=VALS):
    out = []
    for c in cols:
        for op in ops:
            for syn, sem in vals:
                if op in R.NUMERIC_OPS and R.fortran_number(sem) is None:
                    continue  # "others can only use numbers"
                out.append((c + op + syn, [c, op, sem]))
    return out


def gen_filt(tier, ti, ci, part):
    text = FILT_TEXTS[ti]
    cols = FILT_COLS[ci]
    ops = OPS_T if tier == "thorough" else OPS_Q
    singles = all_filters(ops)
    nulls = [None, "1"] if tier == "thorough" else [None]

    def case(kind, fl, null):
        return {"fam": "filt", "lvl": "A", "text": text, "cols": cols, "ign": None, "null": null,
                "filt": [kind, [f[1] for f in fl]], "filt_syntax": [f[0] for f in fl]}

    if part == "single":
        for null in nulls:
            for f in singles:
                yield case("IGNORE", [f], null)
                yield case("ACCEPT", [f], null)
        return
    # pairs: part = index of the first filter's column
    if tier == "thorough":
        firsts = all_filters(OPS_Q, cols=(("A", "B", "C")[part],))
        seconds = all_filters(OPS_Q)
    else:
        red_ops = [".EQ.", ".NE.", ".EQN.", ".LT."]
        red_vals = [("1", "1"), ("'abc'", "abc"), ("0", "0")]
        firsts = all_filters(red_ops, cols=(("A", "B", "C")[part],), vals=red_vals)
        seconds = all_filters(red_ops, vals=red_vals)
    for f in firsts:
        for g in seconds:
            yield case("IGNORE", [f, g], None)


# ----------------------------------------------------------------------------- model level shapes
MODEL_TEMPLATE = ("$PROBLEM\n{input}\n$DATA d.csv {opts}\n$PRED\nY=THETA(1)+ETA(1)+EPS(1)\n$THETA 1\n$OMEGA 1\n"
                  "$SIGMA 1\n$ESTIMATION METHOD=1\n")

# (syntax, cols); a column is [name, dropped] or [name, dropped, other accepted name]
INPUT_SHAPES = [
    ("$INPUT A B C", [["A", False], ["B", False], ["C", False]]),
    ("$INPUT A B=DROP C", [["A", False], ["B", True], ["C", False]]),
    ("$INPUT A DROP=B C", [["A", False], ["B", True], ["C", False]]),
    ("$INPUT A B=SKIP C", [["A", False], ["B", True], ["C", False]]),
    ("$INPUT A SKIP=B C", [["A", False], ["B", True], ["C", False]]),
    ("$INPUT A DROP C", [["A", False], [None, True], ["C", False]]),
    ("$INPUT A SKIP C", [["A", False], [None, True], ["C", False]]),
    ("$INPUT DROP B DROP", [[None, True], ["B", False], [None, True]]),
    ("$INPUT A B", [["A", False], ["B", False]]),
    ("$INPUT A", [["A", False]]),
    ("$INPUT A B C D", [["A", False], ["B", False], ["C", False], ["D", False]]),
    ("$INPUT A B C D=DROP E", [["A", False], ["B", False], ["C", False], ["D", True], ["E", False]]),
    ("$INPUT TIME=TAD B C", [["TAD", False, "TIME"], ["B", False], ["C", False]]),
    ("$INPUT TAD=TIME B C", [["TAD", False, "TIME"], ["B", False], ["C", False]]),
    ("$INPUT A B DV=CONC", [["A", False], ["B", False], ["CONC", False, "DV"]]),
    ("$INPUT A B\n C", [["A", False], ["B", False], ["C", False]]),
    ("$INPUT A B\n$INPUT C", [["A", False], ["B", False], ["C", False]]),
    ("$INPUT A B=DROP\n$INPUT C", [["A", False], ["B", True], ["C", False]]),
]
IGN_SHAPES = [("", None), ("IGNORE=@", "@"), ("IGNORE=#", "#"), ("IGNORE=C", "C"), ("IGNORE='C'", "C"),
              ('IGNORE="C"', "C"), ("IGN=@", "@"), ("IGNORE @", "@"), ("IGNOR=C", "C")]
NULL_SHAPES = [("", None), ("NULL=1", "1"), ("NULL=-", "-"), ("NUL=7", "7"), ("NULL=+", "+"), ("NULL 3", "3")]
# (syntax with {c1} {c3} placeholders for the first and last file column, semantic list, kind)
FILT_SHAPES = [
    ("", None, None),
    ("IGNORE=({c1}.EQ.1)", [["{c1}", ".EQ.", "1"]], "IGNORE"),
    ("IGNORE=({c1}.EQ.1,{c3}.GE.3)", [["{c1}", ".EQ.", "1"], ["{c3}", ".GE.", "3"]], "IGNORE"),
    ("IGNORE=({c1}.EQ.1) IGNORE=({c3}.GE.3)", [["{c1}", ".EQ.", "1"], ["{c3}", ".GE.", "3"]], "IGNORE"),
    ("IGN({c1}.EQ.1)", [["{c1}", ".EQ.", "1"]], "IGNORE"),
    ("IGNORE=({c1}.EQ.'1')", [["{c1}", ".EQ.", "1"]], "IGNORE"),
    ('IGNORE=({c1}.NE."1")', [["{c1}", ".NE.", "1"]], "IGNORE"),
    ("IGNORE=({c1}=1)", [["{c1}", "=", "1"]], "IGNORE"),
    ("IGNORE=({c1}/=1)", [["{c1}", "/=", "1"]], "IGNORE"),
    ("IGNORE=({c1}.EQN.1)", [["{c1}", ".EQN.", "1"]], "IGNORE"),
    ("IGNORE=({c1}.NEN.4)", [["{c1}", ".NEN.", "4"]], "IGNORE"),
    ("IGNORE=(B.EQ.x)", [["B", ".EQ.", "x"]], "IGNORE"),
    ("IGNORE=(B.EQ.x,B.LT.6)", [["B", ".EQ.", "x"], ["B", ".LT.", "6"]], "IGNORE"),
    ("IGNORE=(B.LT.6,B.EQ.x)", [["B", ".LT.", "6"], ["B", ".EQ.", "x"]], "IGNORE"),
    ("ACCEPT=({c1}.EQ.1)", [["{c1}", ".EQ.", "1"]], "ACCEPT"),
    ("ACC=({c1}.GE.4)", [["{c1}", ".GE.", "4"]], "ACCEPT"),
    ("IGNORE=(\n   {c1}\n   .EQ.1\n   ,\n   {c1}.EQ.4\n   )", [["{c1}", ".EQ.", "1"], ["{c1}", ".EQ.", "4"]], "IGNORE"),
    ("IGNORE=({c1} .EQ. 1)", [["{c1}", ".EQ.", "1"]], "IGNORE"),
    ("IGNORE=({c3}.EQ.0)", [["{c3}", ".EQ.", "0"]], "IGNORE"),
    # operator omitted = .EQ. (NM-TRAN: "label value"); alone, after and before a filter with another operator
    ("IGNORE=({c1} 1)", [["{c1}", ".EQ.", "1"]], "IGNORE"),
    ("IGNORE=({c3}.GE.3,{c1} 1)", [["{c3}", ".GE.", "3"], ["{c1}", ".EQ.", "1"]], "IGNORE"),
    ("IGNORE=({c1} 4,{c3}.LT.3)", [["{c1}", ".EQ.", "4"], ["{c3}", ".LT.", "3"]], "IGNORE"),
    ("IGNORE=({c3}.NE.3) IGNORE=({c1} 1)", [["{c3}", ".NE.", "3"], ["{c1}", ".EQ.", "1"]], "IGNORE"),
    ("IGNORE=({c1}.NEN.4,{c1} 1)", [["{c1}", ".NEN.", "4"], ["{c1}", ".EQ.", "1"]], "IGNORE"),
    ("ACCEPT=({c1} 1)", [["{c1}", ".EQ.", "1"]], "ACCEPT"),
]
MODEL_TEXTS = [
    "A,B,C\n1,x,3\n4,5,.\n7,8\n",
    "#h\n1 2 3\n4\t5\t6\t9\n,1d1,2-1\n",
    "C c\n1,2,3\n4,5,6",
    "1,2,3\r\n4,.,6\r\n",
    "1,4,3\n1.0,7,1\n4,6,\n",
]


def _model_case(text, inp, ign, null, flt, order):
    isyn, cols = inp
    gsyn, igs = ign
    nsyn, nls = null
    fsyn, fsem, fkind = flt
    # names usable in a filter: first and last column of the *file* that $INPUT names
    named = [c for c in cols if c[0] is not None]
    c1 = named[0]
    c3 = named[-1]

    def nm(c, alt):
        return c[2] if (alt and len(c) > 2) else c[0]

    filt = None
    if fsem is not None:
        # use the reserved name of a synonym column in the filter (pharmpy must map it)
        fsyn = fsyn.replace("{c1}", nm(c1, True)).replace("{c3}", nm(c3, True))
        sem = []
        for c, op, v in fsem:
            c = c.replace("{c1}", c1[0]).replace("{c3}", c3[0])
            sem.append([c, op, v])
        filt = [fkind, sem]
    parts = [gsyn, nsyn, fsyn] if order == 0 else [fsyn, nsyn, gsyn]
    opts = " ".join(p for p in parts if p)
    ptext = text.replace("\r\n", "\n")
    return {"fam": "model", "lvl": "B", "text": ptext, "crlf": "\r\n" in text, "cols": cols, "ign": igs,
            "null": nls, "filt": filt, "input": isyn, "opts": opts}


def gen_model(tier, ti, ii):
    text = MODEL_TEXTS[ti]
    inp = INPUT_SHAPES[ii]
    if tier == "thorough" and ti in (0, 1, 4):
        for ign in IGN_SHAPES:
            for null in NULL_SHAPES:
                for flt in FILT_SHAPES:
                    yield _model_case(text, inp, ign, null, flt, 0)
        for ign in IGN_SHAPES[1:4]:
            for flt in FILT_SHAPES[1:]:
                yield _model_case(text, inp, ign, NULL_SHAPES[1], flt, 1)
        return
    # quick: every shape of every dimension once with the others at a default, on every text and $INPUT shape;
    # pairs of dimensions on the first text
    combos = []
    for ign in IGN_SHAPES:
        combos.append((ign, NULL_SHAPES[0], FILT_SHAPES[0]))
    for null in NULL_SHAPES[1:]:
        combos.append((IGN_SHAPES[1], null, FILT_SHAPES[0]))
    for flt in FILT_SHAPES[1:]:
        combos.append((IGN_SHAPES[1 if ti != 1 else 0], NULL_SHAPES[0], flt))
    if ti == 0:
        for ign in IGN_SHAPES[2:4]:
            for flt in FILT_SHAPES[1:4] + FILT_SHAPES[-1:]:
                combos.append((ign, NULL_SHAPES[0], flt))
        for null in NULL_SHAPES[1:3]:
            for flt in FILT_SHAPES[1:4] + FILT_SHAPES[-1:]:
                combos.append((IGN_SHAPES[1], null, flt))
    for ign, null, flt in combos:
        yield _model_case(text, inp, ign, null, flt, 0)
    yield _model_case(text, inp, IGN_SHAPES[1], NULL_SHAPES[1], FILT_SHAPES[2], 1)


# ----------------------------------------------------------------------------- write / read
WR_VALUES = [0.0, 1.0, -2.5, 1e-7, 123456789.123, float("nan")]
WR_BASES = [
    ("$INPUT A B", "IGNORE=@"),
    ("$INPUT A B=DROP", "IGNORE=@ IGNORE=(A.EQ.1)"),
    ("$INPUT X DROP Z", ""),
    ("$INPUT A B C D", "IGNORE=# NULL=1 ACCEPT=(A.EQ.7)"),
]
WR_HEADERS = [["A", "B", "C"], ["_A", "B", "C"], ["1A", "B", "C"], ["TIME", "DV", "WT"]]


WR_QUICK_SMALL = [0, 2, 3, 5]  # indices of the values used for the 2 x 2 frames in the quick tier
WR_THOROUGH_6 = [0, 2, 3, 4, 5]  # ... for the 6-cell frames in the thorough tier


def wr_alpha(tier, ncell):
    if tier != "thorough" and ncell >= 4:
        return WR_QUICK_SMALL
    if tier == "thorough" and ncell >= 6:
        return WR_THOROUGH_6
    return list(range(len(WR_VALUES)))


def wr_shapes(tier):
    """(ncols, nrows) in increasing size"""
    maxcells = 6 if tier == "thorough" else 4
    out = []
    for nc in (1, 2, 3):
        for nr in (1, 2, 3):
            if nc * nr <= maxcells:
                out.append((nc, nr))
    return out


def gen_wr(tier, nc, nr, first, kind):
    """all frames of the shape whose first cell is WR_VALUES[first]; kind: 'plain' | 'variants'"""
    ncell = nc * nr
    alpha = wr_alpha(tier, ncell)
    if first not in alpha:
        return
    for rest in itertools.product(alpha, repeat=ncell - 1):
        cells = (first,) + rest
        if kind == "plain":
            yield {"fam": "wr", "lvl": "B", "names": WR_HEADERS[0][:nc], "nrows": nr, "cells": list(cells),
                   "base": 0, "ints": False}
        else:
            for hi in range(1, len(WR_HEADERS)):
                yield {"fam": "wr", "lvl": "B", "names": WR_HEADERS[hi][:nc], "nrows": nr, "cells": list(cells),
                       "base": 0, "ints": False}
            for bi in range(1, len(WR_BASES)):
                yield {"fam": "wr", "lvl": "B", "names": WR_HEADERS[0][:nc], "nrows": nr, "cells": list(cells),
                       "base": bi, "ints": False}
            if all(c in (0, 1) for c in cells):
                yield {"fam": "wr", "lvl": "B", "names": WR_HEADERS[0][:nc], "nrows": nr, "cells": list(cells),
                       "base": 0, "ints": True}


# ============================================================================= observation
def _names_for_call(cols):
    names = []
    k = 1
    for c in cols:
        if c[0] is None:
            names.append(f"_DROP{k}")
            k += 1
        else:
            names.append(c[0])
    return names


def _null_arg(null):
    # what DataRecord.null_value hands to read_nonmem_dataset
    if null is None or null in "+-":
        return 0
    return float(null)


def _frame_obs(df):
    cols = [str(c) for c in df.columns]
    data = {}
    for c in df.columns:
        data[str(c)] = list(df[c])
    return ("df", cols, data, len(df))


def observe_A(case):
    from io import StringIO

    from pharmpy.model.external.nonmem.dataset import read_nonmem_dataset

    cols = case["cols"]
    kw = {}
    if case["filt"] is not None:
        kw["ignore" if case["filt"][0] == "IGNORE" else "accept"] = list(case["filt_syntax"])
    try:
        with warnings.catch_warnings():
            warnings.simplefilter("ignore")
            df = read_nonmem_dataset(StringIO(case["text"]), ignore_character=case["ign"],
                                     colnames=_names_for_call(cols), drop=[bool(c[1]) for c in cols],
                                     null_value=_null_arg(case["null"]), **kw)
    except Exception as e:  # noqa: BLE001 - every outcome of the implementation is an observation
        return ("exc", type(e).__name__, str(e)[:200])
    return _frame_obs(df)


def observe_B(case, tmp):
    from pharmpy.modeling import read_model

    text = case["text"]
    if case.get("crlf"):
        text = text.replace("\n", "\r\n")
    with open(os.path.join(tmp, "d.csv"), "w", newline="") as fh:
        fh.write(text)
    code = MODEL_TEMPLATE.format(input=case["input"], opts=case["opts"])
    mpath = os.path.join(tmp, "m.mod")
    with open(mpath, "w") as fh:
        fh.write(code)
    try:
        with warnings.catch_warnings():
            warnings.simplefilter("ignore")
            model = read_model(mpath)
            df = model.dataset
    except Exception as e:  # noqa: BLE001
        return ("exc", type(e).__name__, str(e)[:200])
    if df is None:
        return ("exc", "NoDataset", "model.dataset is None")
    return _frame_obs(df)


def close(a, b):
    if math.isinf(a) or math.isinf(b):
        return a == b
    return abs(a - b) <= 1e-7 * max(1.0, abs(a), abs(b))


def _isnum(x):
    return isinstance(x, (int, float)) or type(x).__module__ == "numpy" and hasattr(x, "__float__") and not isinstance(
        x, (str, bytes))


def compare(case, ref, obs):
    """-> (outcome label, None | (class, message))"""
    kind = ref[0]
    if kind == "unspec":
        return "unspecified:" + ref[1], None
    if obs[0] == "exc":
        if kind == "error":
            return "both-refuse:" + ref[1].split(" %")[0][:40], None
        return "fail", ("refused-valid:" + obs[1], f"pharmpy refused a dataset the rules accept: {obs[1]}: {obs[2]}")
    _, cols, data, nrows = obs
    if kind == "error":
        return "fail", ("accepted-invalid:" + _err_class(ref[1]),
                        f"pharmpy returned {nrows} row(s) for a dataset NM-TRAN rejects ({ref[1]})")
    rows = ref[1]
    spec = case["cols"]
    if len(cols) != len(spec):
        return "fail", ("columns", f"columns {cols}, expected {len(spec)} columns {[c[0] for c in spec]}")
    for name, c in zip(cols, spec):
        if c[0] is None:
            continue
        ok = name == c[0] or (len(c) > 2 and name == c[2])
        if not ok:
            return "fail", ("columns", f"columns {cols}, expected names {[c[0] for c in spec]}")
    if nrows != len(rows):
        return "fail", ("row-count", f"{nrows} row(s) {_short(data)}, reference has {len(rows)}: {rows}")
    ncmp = 0
    for j, (name, c) in enumerate(zip(cols, spec)):
        if c[1]:
            continue
        got = data[name]
        for i in range(nrows):
            g = got[i]
            want = rows[i][j]
            if not _isnum(g):
                return "fail", ("value-type", f"column {name} row {i}: {g!r} is not a number (reference {want})")
            g = float(g)
            if math.isnan(g) or not close(g, want):
                return "fail", ("value", f"column {name} row {i}: got {g!r}, reference {want!r}")
            ncmp += 1
    return ("ok" if ncmp else "ok-empty"), None


def _err_class(why):
    return why.split(" '")[0].split(' "')[0][:40]


def _short(data):
    return {k: [x if not isinstance(x, float) else round(x, 6) for x in v] for k, v in data.items()}


def describe(case):
    if case["fam"] == "wr":
        return (f"write/read names={case['names']} rows={wr_rows(case)} ints={case['ints']} "
                f"base={WR_BASES[case['base']]}")
    s = f"text={case['text']!r}"
    if case.get("crlf"):
        s += " (CRLF)"
    if case["lvl"] == "B":
        s += f" {case['input']!r} $DATA opts={case['opts']!r}"
    else:
        s += f" cols={[(c[0], 'DROP') if c[1] else c[0] for c in case['cols']]} ignore_character={case['ign']!r}"
        s += f" NULL={case['null']!r}"
        if case["filt"]:
            s += f" {case['filt'][0]}={case['filt_syntax']}"
    return s


def check_read(case, tmp=None):
    """-> (outcome, None | violation dict)"""
    ref = R.ref_read(case["text"], [c[:2] for c in case["cols"]], case["ign"], case["null"], case["filt"])
    if case["lvl"] == "A":
        obs = observe_A(case)
    else:
        obs = observe_B(case, tmp)
    outcome, fail = compare(case, ref, obs)
    if fail is None:
        return outcome, None
    cls, msg = fail
    return "fail:" + cls.split(":")[0], {"case": case, "class": cls, "what": f"[{describe(case)}] {msg}",
                                        "ref": _jsonable(ref), "obs": _jsonable(obs)}


def _jsonable(x):
    if isinstance(x, (list, tuple)):
        return [_jsonable(y) for y in x]
    if isinstance(x, dict):
        return {str(k): _jsonable(v) for k, v in x.items()}
    if isinstance(x, float):
        return x if math.isfinite(x) else repr(x)
    if isinstance(x, (str, int, bool)) or x is None:
        return x
    try:
        f = float(x)
        return f if math.isfinite(f) else repr(f)
    except Exception:  # noqa: BLE001
        return repr(x)


# ----------------------------------------------------------------------------- write/read cycle
def wr_rows(case):
    nc = len(case["names"])
    nr = case["nrows"]
    cells = case["cells"]
    return [[WR_VALUES[cells[r * nc + c]] for c in range(nc)] for r in range(nr)]


_BASE_MODELS = {}


def _base_model(bi, tmp):
    from pharmpy.modeling import read_model

    if bi not in _BASE_MODELS:
        inp, opts = WR_BASES[bi]
        d = os.path.join(tmp, f"base{bi}")
        os.makedirs(d, exist_ok=True)
        ncol = len(inp.split()) - 1
        with open(os.path.join(d, "d.csv"), "w") as fh:
            fh.write("#h\n" + ",".join(["7"] * ncol) + "\n")
        with open(os.path.join(d, "m.mod"), "w") as fh:
            fh.write(MODEL_TEMPLATE.format(input=inp, opts=opts))
        with warnings.catch_warnings():
            warnings.simplefilter("ignore")
            _BASE_MODELS[bi] = read_model(os.path.join(d, "m.mod"))
    return _BASE_MODELS[bi]


def check_wr(case, tmp):
    import pandas as pd

    from pharmpy.modeling import read_model, set_dataset, write_model

    rows = wr_rows(case)
    names = case["names"]
    data = {}
    for j, n in enumerate(names):
        col = [r[j] for r in rows]
        data[n] = [int(x) for x in col] if case["ints"] else col
    df = pd.DataFrame(data)
    out = os.path.join(tmp, "out")
    shutil.rmtree(out, ignore_errors=True)
    os.makedirs(out)

    def viol(cls, msg, code=""):
        return "fail:" + cls, {"case": case, "class": cls, "what": f"[{describe(case)}] {msg}", "code": code}

    code = ""
    try:
        with warnings.catch_warnings():
            warnings.simplefilter("ignore")
            base = _base_model(case["base"], tmp)
            m = set_dataset(base, df)
            m = write_model(m, os.path.join(out, "n.mod"))
            with open(os.path.join(out, "n.mod")) as fh:
                code = fh.read().split("$PRED")[0]
    except (ValueError, NotImplementedError) as e:
        # a documented refusal to write such a frame is not a wrong round trip
        return "refused:" + type(e).__name__, None
    except Exception as e:  # noqa: BLE001
        return viol("wr-write-exception:" + type(e).__name__,
                    f"writing raised {type(e).__name__}: {str(e)[:200]}", code)
    try:
        with warnings.catch_warnings():
            warnings.simplefilter("ignore")
            m2 = read_model(os.path.join(out, "n.mod"))
            df2 = m2.dataset
    except Exception as e:  # noqa: BLE001
        return viol("wr-read-exception:" + type(e).__name__,
                    f"reading the written model back raised {type(e).__name__}: {str(e)[:200]}", code)
    if df2 is None:
        return viol("wr-nodataset", "model read back has no dataset", code)
    got_names = [str(c) for c in df2.columns]
    if got_names != names:
        return viol("wr-columns", f"columns read back {got_names}", code)
    if len(df2) != len(rows):
        return viol("wr-row-count", f"{len(df2)} row(s) read back: {_short({c: list(df2[c]) for c in df2.columns})}",
                    code)
    for j, n in enumerate(names):
        got = list(df2[n])
        for i in range(len(rows)):
            w = rows[i][j]
            g = got[i]
            if not _isnum(g):
                return viol("wr-value-type", f"column {n} row {i}: read back {g!r} for {w!r}", code)
            g = float(g)
            if math.isnan(w):
                same = math.isnan(g)
            else:
                same = (not math.isnan(g)) and close(g, w)
            if not same:
                return viol("wr-value", f"column {n} row {i}: read back {g!r} for {w!r}", code)
    return "ok", None


# ============================================================================= runner API
def shards(tier):
    out = []
    # heavy first
    for (nc, nr) in reversed(wr_shapes(tier)):
        alpha = wr_alpha(tier, nc * nr)
        for first in alpha:
            if nc * nr >= 6:
                for second in alpha:
                    out.append(("wr", nc, nr, first, "plain", second))
            else:
                out.append(("wr", nc, nr, first, "plain", None))
    for (nc, nr) in wr_shapes(tier):
        if nc * nr <= (3 if tier == "thorough" else 2):
            out.append(("wr", nc, nr, None, "variants", None))
    for first in LINE_MENU:
        out.append(("rows", first))
    for first in ITEMS:
        out.append(("lex", first))
    ntext = len(FILT_TEXTS) if tier == "thorough" else 3
    for ti in range(ntext):
        for ci in range(len(FILT_COLS)):
            out.append(("filt", ti, ci, "single"))
            for part in range(3):
                out.append(("filt", ti, ci, part))
    for ti in range(len(MODEL_TEXTS)):
        for ii in range(len(INPUT_SHAPES)):
            if tier != "thorough" and ti in (2, 3) and ii not in (0, 1, 8):
                continue  # quick: the unterminated / CRLF texts only with three $INPUT shapes
            out.append(("model", ti, ii))
    if tier == "thorough":
        # heavy shards first
        out.sort(key=lambda sh: 0 if sh[0] in ("model", "wr") else 1)
    return out


def _iter_shard(shard, tier):
    fam = shard[0]
    if fam == "lex":
        yield from gen_lex(tier, shard[1])
    elif fam == "rows":
        yield from gen_rows(tier, shard[1])
    elif fam == "filt":
        yield from gen_filt(tier, shard[1], shard[2], shard[3])
    elif fam == "model":
        yield from gen_model(tier, shard[1], shard[2])
    elif fam == "wr":
        _, nc, nr, first, kind, second = shard
        firsts = range(len(WR_VALUES)) if first is None else [first]
        for f in firsts:
            for case in gen_wr(tier, nc, nr, f, kind):
                if second is not None and case["cells"][1] != second:
                    continue
                yield case


def run_shard(shard, tier):
    res = {"states": 0, "transitions": 0, "evaluations": 0, "distinct_nontrivial": 0, "violations": [],
           "samples": [], "outcomes": {}, "traces_validated_against_impl": 0, "capped": False,
           "unspecified": 0}
    tmp = tempfile.mkdtemp(prefix="verif-")
    _BASE_MODELS.clear()
    percls = {}
    try:
        for case in _iter_shard(shard, tier):
            res["states"] += 1
            res["transitions"] += 1  # the append step (item / line / filter / cell) that reached this case
            res["evaluations"] += 1
            if case["fam"] == "wr":
                outcome, v = check_wr(case, tmp)
            else:
                outcome, v = check_read(case, tmp)
            res["traces_validated_against_impl"] += 1
            key = case["fam"] + ":" + outcome
            res["outcomes"][key] = res["outcomes"].get(key, 0) + 1
            if outcome == "ok":
                res["distinct_nontrivial"] += 1
            if outcome.startswith("unspecified"):
                res["unspecified"] += 1
            if v is not None:
                k = (v["class"], classify(v))
                percls[k] = percls.get(k, 0) + 1
                if percls[k] <= 3:  # keep the first few witnesses of every failure class of the shard
                    res["violations"].append(v)
            if res["states"] % 1499 == 1 and len(res["samples"]) < 2:
                res["samples"].append(describe(case)[:300])
    finally:
        shutil.rmtree(tmp, ignore_errors=True)
    return res


def post(tot, tier):
    # shards finish in any order: make the recorded samples independent of it
    tot["samples"] = sorted(tot["samples"])


def replay(w):
    case = w["case"]
    tmp = tempfile.mkdtemp(prefix="verif-")
    _BASE_MODELS.clear()
    try:
        if case["fam"] == "wr":
            _, v = check_wr(case, tmp)
        else:
            _, v = check_read(case, tmp)
    finally:
        shutil.rmtree(tmp, ignore_errors=True)
    return [v["what"]] if v else []


# ----------------------------------------------------------------------------- known-finding patterns
# A deviation is attributed to a recorded finding only when a *model of that defect* reproduces pharmpy's
# observation exactly: the reference reader is re-run with the defect switched on (vlib/c13_ref.QUIRKS) and must
# then agree with what pharmpy returned (same rows/values, or the same exception type).  Anything a defect
# model does not reproduce stays an unexplained VIOLATION.
PATTERNS = {
    "first_row_width": "first_data_row_shorter_than_later_row_truncates_later_rows",
    "surplus_keyerror": "more_items_than_input_columns_keyerror_none_label",
    "blank_before_text": "blank_line_followed_by_nonempty_line_not_refused",
    "last_line_comment": "comment_on_last_line_without_newline_not_removed",
    "pad_value_text": "text_filter_matches_null_replacement_in_wholly_padded_column",
    "lenient_numbers": "malformed_number_item_accepted_by_float_or_prefix_match",
}
WR_PATTERN_HEADER = "write_first_header_starting_like_a_number_becomes_ignore_character"
WR_PATTERN_DROP = "update_input_keeps_drop_for_column_not_dropped_in_datainfo"


def _explained(case, obs, quirks):
    ref = R.ref_read(case["text"], [c[:2] for c in case["cols"]], case["ign"], case["null"], case["filt"],
                     quirks=quirks)
    if ref[0] == "unspec":
        return False
    if ref[0] == "error" and ref[1] == "surplus KeyError":
        return obs[0] == "exc" and obs[1] == "KeyError" and "[None] not found in axis" in obs[2]
    if obs[0] == "exc":
        # the defect model predicts a refusal: it must be pharmpy's documented dataset error
        return ref[0] == "error" and obs[1] == "DatasetError"
    _, fail = compare(case, ref, tuple(obs))
    return fail is None


def classify(w):
    case = w.get("case", {})
    fam = case.get("fam")
    if fam == "wr":
        cls = w.get("class", "")
        code = w.get("code", "")
        first = case["names"][0][:1]
        if first and first in "0123456789+-." and re.search(r"IGNORE=" + re.escape(first) + r"(\s|$)", code):
            if cls in ("wr-row-count",) or cls.startswith("wr-read-exception:EmptyDataError"):
                return WR_PATTERN_HEADER
        inp = WR_BASES[case["base"]][0].split()[1:]
        nc = len(case["names"])
        base_drop = [k for k, tok in enumerate(inp[:nc]) if "DROP" in tok.split("=") or "SKIP" in tok.split("=")]
        if base_drop and cls in ("wr-columns", "wr-value-type"):
            m = re.search(r"^\$INPUT(.*)$", code, re.M)
            toks = m.group(1).split() if m else []
            if any(k < len(toks) and ("DROP" in toks[k].split("=")) for k in base_drop):
                return WR_PATTERN_DROP
        return None
    if fam not in ("lex", "rows", "filt", "model") or "obs" not in w:
        return None
    obs = w["obs"]
    names = list(R.QUIRKS)
    for size in range(1, len(names) + 1):
        for qs in itertools.combinations(names, size):
            if _explained(case, obs, qs):
                # every member is needed (smaller sets were tried first); report the first in the fixed order
                return PATTERNS[qs[0]]
    return None
