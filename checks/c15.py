"""C15 - path locks: reader-writer exclusion without deadlock in every schedule.

The real pharmpy/internals/fs/lock.py is loaded from disk into one private module object per
simulated process, with shim threading / fcntl / os modules (vlib/schedx.py), and every
schedule of small multi-threaded, multi-process programs is enumerated up to a preemption
bound; monitors run at every step, terminal states are classified.
"""
from __future__ import annotations

import builtins
import itertools
import os
import types

PROPERTY = "C15"
LEVEL = "model_checking"
ENGINE = "schedx"
TECHNIQUE = ("stateless model checking of the real lock module: exhaustive enumeration of thread/process schedules "
             "under a cooperative scheduler with iterative preemption bounding, over a simulated POSIX record-lock kernel "
             "that is conformance-checked against the real kernel")
LEVEL_TEXT = (
    "All interleavings (at synchronisation-operation granularity) of the listed small programs are executed on the "
    "unmodified lock.py up to the stated preemption bound, with safety monitors at every step and classification of "
    "every terminal state; this is the level at which atomicity/ordering bugs between real threads are decided."
)
LEVEL_NOTE = (
    "trusted: the shim Lock/RLock/Condition semantics and the simulated kernel (vlib/schedx.py), the latter compared with "
    "the real kernel on every sequence of non-blocking operations by two real processes up to the stated length; "
    "interleavings inside one critical section of lock.py's own mutexes are not explored (release is not a scheduling point "
    "unless VERIF_RELEASE_POINTS=1); Windows/macOS branches are not covered"
)
RULE = (
    "programs: threads x processes, each thread a tree of nested/sequential path_lock requests (shared, blocking, reentrant) on "
    "paths p,q; for each program every schedule with <= bound preemptions is executed; a schedule is non-trivial when at least "
    "one context switch happened while another thread was enabled or blocked; states = scheduling points visited, "
    "transitions = scheduler steps"
)
ASSUMPTIONS = [
    "POSIX record-lock semantics as modelled (process-owned, conversion in place, close of any fd drops the process's locks, EDEADLK on a process wait cycle)",
    "threads only communicate through path_lock (no other synchronisation between the bodies)",
]
BOUNDS = {
    "quick": "2 threads x 1 request (all flag pairs, same path) bound 2; nested/sequential 2-thread families bound 2; 3-thread families bound 1-2; 2 processes x 1-2 threads bound 2",
    "thorough": "adds all 2-thread programs with <= 2 requests each (nested+sequential, 2 paths) bound 2, all 3-thread 1-request programs bound 2, 2x2 processes/threads bound 3, 1 spurious wake-up",
}

LOCK_SRC = os.path.join(os.environ.get("VERIF_REPO", "/repo"), "src/pharmpy/internals/fs/lock.py")
_code_cache = {}


def lock_code():
    st = os.stat(LOCK_SRC)
    key = (st.st_mtime_ns, st.st_size)
    if key not in _code_cache:
        with open(LOCK_SRC) as fh:
            _code_cache.clear()
            _code_cache[key] = compile(fh.read(), LOCK_SRC, "exec")
    return _code_cache[key]


def load_lock_module(sched_ref, kernel, pid):
    from vlib import schedx

    shims = {
        "threading": schedx.make_threading_shim(sched_ref),
        "fcntl": schedx.make_fcntl_shim(sched_ref, kernel, pid),
        "os": schedx.make_os_shim(sched_ref, kernel, pid),
    }
    real_import = builtins.__import__

    def imp(name, globals=None, locals=None, fromlist=(), level=0):
        if level == 0 and name in shims:
            return shims[name]
        return real_import(name, globals, locals, fromlist, level)

    b = dict(vars(builtins))
    b["__import__"] = imp
    mod = types.ModuleType(f"lock_p{pid}")
    mod.__dict__["__builtins__"] = b
    mod.__file__ = LOCK_SRC
    exec(lock_code(), mod.__dict__)
    # remember the scheduler step at which a "would block" refusal is decided (the exception object is created there; it reaches
    # the caller only after the lock has unwound its own bookkeeping, which takes further steps)
    base = getattr(mod, "AcquiringLockWouldBlockError", None)
    if base is not None:
        def _init(self, *a, **k):
            Exception.__init__(self, *a, **k)
            try:
                self._verif_step = sched_ref().steps
            except Exception:
                self._verif_step = None

        base.__init__ = _init
    return mod


# --------------------------------------------------------------------------------- programs
# request node: (path, shared, blocking, reentrant, children)
def R(path="p", blocking=True, reentrant=False, kids=()):
    return (path, True, blocking, reentrant, tuple(kids))


def W(path="p", blocking=True, reentrant=False, kids=()):
    return (path, False, blocking, reentrant, tuple(kids))


def fmt_node(n):
    path, sh, bl, re, kids = n
    s = ("R" if sh else "W") + path + ("" if bl else "!") + ("+" if re else "")
    if kids:
        s += "[" + " ".join(fmt_node(k) for k in kids) + "]"
    return s


def fmt_prog(prog):
    return " || ".join(f"P{pid}:" + " ; ".join(fmt_node(n) for n in body) for pid, body in prog)


def all_reqs(paths=("p",)):
    return [(pa, sh, bl, re, ()) for pa in paths for sh in (True, False) for bl in (True, False) for re in (False, True)]


class Monitor:
    def __init__(self, kernel):
        self.kernel = kernel
        self.inside = {}  # path -> list of (tid, pid, shared)
        self.violations = []
        self.max_shared = 0

    def enter(self, vt, path, shared):
        cur = self.inside.setdefault(path, [])
        for (tid, pid, sh) in cur:
            if tid == vt.tid:
                continue
            if not shared or not sh:
                self.violations.append(
                    f"exclusion: t{vt.tid}(P{vt.pid}) entered {path} {'shared' if shared else 'exclusive'} while "
                    f"t{tid}(P{pid}) is inside {'shared' if sh else 'exclusive'}")
        cur.append((vt.tid, vt.pid, shared))
        if shared:
            self.max_shared = max(self.max_shared, len({t for (t, _, s) in cur if s}))
        self.check_kernel("enter")

    def exit(self, vt, path, shared):
        self.inside[path].remove((vt.tid, vt.pid, shared))

    def check_kernel(self, when="kernel-op"):
        for path, cur in self.inside.items():
            held = self.kernel.locks.get(path, {})
            for (tid, pid, sh) in cur:
                m = held.get(pid)
                if m is None or (not sh and m != "EX"):
                    self.violations.append(
                        f"held lock lost: t{tid}(P{pid}) is inside {path} {'shared' if sh else 'exclusive'} but the "
                        f"process-level lock of P{pid} is {m} (after {when}: {self.kernel.log[-1] if self.kernel.log else None})")


def fmt_cur(cur):
    path, sh, bl, re, rec = cur
    return ("R" if sh else "W") + path + ("" if bl else "!") + ("+" if re else "") + (" (recursive)" if rec else "")


def ancestors_hold(stack, path):
    return any(p == path for (p, _s) in stack)


def run_program(prog, prefix, opts=None):
    """One execution.  Returns dict(sched, failures, outcome)."""
    from vlib import schedx

    opts = opts or {}
    holder = {}
    sref = lambda: holder["s"]  # noqa: E731
    s = schedx.Sched(prefix, max_steps=4000)
    holder["s"] = s
    s.release_points = bool(opts.get("release_points"))
    s.spurious_left = int(opts.get("spurious", 0))
    s.record_trace = bool(opts.get("trace"))
    if opts.get("lines"):
        s.line_files = (LOCK_SRC,)
        s.max_steps = 20000
    kernel = schedx.Kernel()
    mon = Monitor(kernel)
    kernel.listeners.append(mon.check_kernel)
    mods = {}
    for pid in sorted({pid for pid, _ in prog}):
        mods[pid] = load_lock_module(sref, kernel, pid)
    outcomes = {}
    state = {}  # tid -> dict(cur_req, stack)
    failures = []

    intervals = []  # every request from its start to the end of its release, in scheduler steps

    def run_node(vt, L, node, nid, stack):
        path, sh, bl, re, kids = node
        npath = os.path.normpath(path)
        st = state[vt.tid]
        recursive = ancestors_hold(stack, npath)
        st["cur"] = (npath, sh, bl, re, recursive)
        st["active"].append((npath, sh))
        my_iv = {"tid": vt.tid, "path": npath, "sh": sh, "start": s.steps, "acq_end": None, "rel_start": None, "end": None}
        intervals.append(my_iv)
        entered = False
        try:
            with L.path_lock(path, shared=sh, blocking=bl, reentrant=re):
                entered = True
                st["cur"] = None
                my_iv["acq_end"] = s.steps
                mon.enter(vt, npath, sh)
                try:
                    s.point(("body", nid), None)
                    for i, k in enumerate(kids):
                        run_node(vt, L, k, nid + (i,), stack + [(npath, sh)])
                    if kids:
                        s.point(("body-end", nid), None)
                finally:
                    mon.exit(vt, npath, sh)
                    my_iv["rel_start"] = s.steps
                st["releasing"] = nid
            st["releasing"] = None
            outcomes[(vt.tid,) + nid] = ("ok", node, recursive)
        except schedx.Abort:
            raise
        except BaseException as e:
            st["cur"] = None
            st["releasing"] = None
            kind = type(e).__name__
            if isinstance(e, OSError) and not isinstance(e, BlockingIOError):
                kind = f"OSError({e.errno})"
                if e.errno == schedx.EDEADLK and not entered:
                    kind = "EDEADLK-inherent" if st.get("edeadlk_inherent") else "EDEADLK-spurious"
            if not entered and not bl and kind in ("AcquiringThreadLevelLockWouldBlockError", "AcquiringProcessLevelLockWouldBlockError"):
                # a request is refused without waiting only if it would have had to wait: some other thread must have a
                # conflicting request in progress on the path (from its start to the end of its release - generous on purpose)
                at = getattr(e, "_verif_step", None)

                def overlaps(a, b):
                    # is [a, b] (b None = still open) alive at some step between the start of this request and the step at which
                    # the refusal was raised?  (The refusal is decided by a failed try-acquire somewhere in that window; under
                    # line-level scheduling the raise itself may come many steps later.)
                    if a is None or (b is not None and b < my_iv["start"]):
                        return False
                    return at is None or a <= at

                # justified by: a conflicting request of another thread at any time since this one was made, or any request of
                # another thread on the path that was being acquired or released in that time (the lock's own bookkeeping is
                # busy then, and a request that must not wait may be turned away)
                conflict = any(iv["tid"] != vt.tid and iv["path"] == npath and (
                    ((not sh or not iv["sh"]) and overlaps(iv["start"], iv["end"]))
                    or overlaps(iv["start"], iv["acq_end"]) or overlaps(iv["rel_start"], iv["end"])) for iv in intervals)
                if not conflict:
                    others = [(f"t{iv['tid']}", iv["path"], "shared" if iv["sh"] else "exclusive", iv["start"], iv["end"]) for iv in intervals
                              if iv["tid"] != vt.tid]
                    failures.append(f"non-blocking request {fmt_node(node)} of t{vt.tid}(P{vt.pid}) was refused ({kind}) although no other "
                                    f"thread had a conflicting request in progress on {npath} since it was made (requests of others: {others})")
            outcomes[(vt.tid,) + nid] = (("exit-error:" if entered else "") + kind, node, recursive)
        finally:
            st["active"].pop()
            my_iv["end"] = s.steps
            # once a request is over, the process keeps the file locked exclusively only if another of its threads still has an
            # exclusive request in progress ("any number may hold it shared together" - also across processes)
            if not s.abort and kernel.locks.get(npath, {}).get(vt.pid) == "EX":
                pids = {t.tid: t.pid for t in s.threads}
                if not any(pids.get(t2) == vt.pid and any(p2 == npath and not sh2 for (p2, sh2) in st2["active"])
                           for t2, st2 in state.items()):
                    failures.append(f"after {fmt_node(node)} of t{vt.tid}(P{vt.pid}) ended, process P{vt.pid} still holds {npath} exclusively "
                                    f"although none of its threads has an exclusive request in progress")

    def make_body(pid, body):
        def fn(vt):
            state[vt.tid] = {"cur": None, "releasing": None, "active": []}
            L = mods[pid]
            for i, node in enumerate(body):
                run_node(vt, L, node, (i,), [])
        return fn

    for pid, body in prog:
        s.spawn(make_body(pid, body), pid=pid)

    def ideal_edges():
        g = {}
        for t in s.threads:
            st = state.get(t.tid)
            if not st or not st["cur"] or t.done:
                continue
            path, sh, bl, re, rec = st["cur"]
            for (tid, pid, hsh) in mon.inside.get(path, []):
                if tid != t.tid and (not sh or not hsh):
                    g.setdefault(t.tid, set()).add(tid)
        return g

    def hook(sched, t):
        # a non-blocking request must never wait for holders
        for th in sched.threads:
            if th.done or th.pending is None:
                continue
            lab = th.pending[0]
            st = state.get(th.tid)
            if st and st["cur"] and not st["cur"][2] and lab[0] in ("wait", "lockf-wait"):
                failures.append(f"non-blocking request {st['cur']} of t{th.tid} is waiting at {lab}")
            # a request may only be suspended (condition wait / kernel wait) while some other thread still has a
            # conflicting request in progress (acquiring, inside or releasing) on that path
            if st and st["cur"] and lab[0] in ("wait", "lockf-wait") and not th.enabled():
                path, sh = st["cur"][0], st["cur"][1]
                ok = False
                for u in sched.threads:
                    if u is th:
                        continue
                    su = state.get(u.tid)
                    if su and any(p == path and not (sh and ush) for (p, ush) in su["active"]):
                        ok = True
                        break
                if not ok:
                    failures.append(f"request {fmt_cur(st['cur'])} of t{th.tid}(P{th.pid}) is suspended at {lab} although no other "
                                    f"thread has a conflicting request in progress on {path}")
    s.step_hooks.append(hook)

    # EDEADLK classification needs the ideal graph at raise time: wrap would_deadlock
    orig_wd = kernel.would_deadlock

    def wd(pid, path, mode):
        r = orig_wd(pid, path, mode)
        if r:
            me = s.me()
            g = ideal_edges()
            seen, stack = set(), list(g.get(me.tid, ()))
            inherent = False
            while stack:
                x = stack.pop()
                if x == me.tid:
                    inherent = True
                    break
                if x in seen:
                    continue
                seen.add(x)
                stack.extend(g.get(x, ()))
            state[me.tid]["edeadlk_inherent"] = inherent
        return r
    kernel.would_deadlock = wd

    dl = {}

    def on_deadlock(sched, alive):
        # evaluated while the threads are still parked (before the execution is torn down)
        g = ideal_edges()
        bad = []
        for t in alive:
            st = state.get(t.tid, {})
            at = t.pending[0] if t.pending else None
            if not st.get("cur"):
                bad.append(f"t{t.tid} blocked forever at {at} while not acquiring (release path)")
            elif not g.get(t.tid):
                ins = {p: [(f't{a}', 'shared' if c else 'exclusive') for (a, b, c) in v] for p, v in mon.inside.items() if v}
                bad.append(f"t{t.tid} blocked forever at {at} acquiring {fmt_cur(st['cur'])} "
                           f"although no conflicting holder is inside (inside={ins})")
        dl["bad"] = bad

    s.deadlock_hook = on_deadlock
    s.run()
    failures.extend(mon.violations)
    for t in s.threads:
        if t.crashed is not None:
            failures.append(f"thread t{t.tid} crashed: {type(t.crashed).__name__}: {t.crashed}")
    label = None
    if s.deadlock:
        bad = dl.get("bad", [])
        if bad:
            failures.extend("deadlock/lost wake-up: " + b for b in bad)
            label = "deadlock"
        else:
            label = "inherent-deadlock"
    else:
        for key, (res, node, recursive) in sorted(outcomes.items()):
            path, sh, bl, re, kids = node
            if res == "ok":
                if recursive and not re:
                    failures.append(f"non-reentrant recursive request {fmt_node(node)} of t{key[0]} was granted")
                continue
            if res in ("AcquiringThreadLevelLockWouldBlockError", "AcquiringProcessLevelLockWouldBlockError"):
                if bl:
                    failures.append(f"blocking request {fmt_node(node)} of t{key[0]} refused with {res}")
                continue
            if res == "RecursiveDeadlockError":
                if not (recursive and not re):
                    failures.append(f"request {fmt_node(node)} of t{key[0]} raised RecursiveDeadlockError but is not a non-reentrant recursive request")
                continue
            if res == "EDEADLK-inherent":
                continue
            failures.append(f"request {fmt_node(node)} of t{key[0]} ended with {res}")
        # every request must have an outcome
        # quiescence
        for pid, L in mods.items():
            for nm in ("_thread_level_lock_ref", "_process_level_lock_ref", "_fd_ref"):
                refs = getattr(L, nm)._refs
                if refs:
                    failures.append(f"bookkeeping not empty at quiescence: P{pid}.{nm} = {refs}")
        if not kernel.quiescent():
            failures.append(f"kernel not quiescent: {kernel.snapshot()}")
        label = "|".join(f"{'.'.join(map(str, k))}={v[0]}" for k, v in sorted(outcomes.items()))
    return {"sched": s, "failures": failures, "label": label, "max_shared": mon.max_shared, "kernel": kernel}


# --------------------------------------------------------------------------------- program families
def programs(tier):
    """list of (name, program, preemption bound, opts)"""
    out = []
    reqs = all_reqs(("p",))
    # (a) two threads, one request each, same process, same path: all unordered flag pairs
    for a, b in itertools.combinations_with_replacement(reqs, 2):
        out.append(("2t1r", [(0, [a]), (0, [b])], 2, {}))
    # (b) two processes, one thread each
    for a, b in itertools.combinations_with_replacement(reqs, 2):
        out.append(("2p1r", [(0, [a]), (1, [b])], 2, {}))
    # (c) nesting: upgrade / downgrade / recursion against one other thread (same and other process)
    nests = [
        R(reentrant=True, kids=[W(reentrant=True)]),
        W(reentrant=True, kids=[R(reentrant=True)]),
        R(kids=[R()]),
        R(kids=[W()]),
        W(kids=[W(blocking=False)]),
        R(reentrant=True, kids=[R(reentrant=True, kids=[W(reentrant=True)])]),
        W(reentrant=True, kids=[R(reentrant=True, kids=[W(reentrant=True)])]),
        R(reentrant=True, kids=[W(reentrant=True, kids=[W(reentrant=True)])]),
        W(reentrant=True, kids=[W(reentrant=True), R(reentrant=True)]),
        R(kids=[R(path="q")]),
        W(kids=[W(path="q")]),
    ]
    others = [R(), W(), R(blocking=False), W(blocking=False)]
    for n in nests:
        for o in others:
            out.append(("nest-2t", [(0, [n]), (0, [o])], 2, {}))
            out.append(("nest-2p", [(0, [n]), (1, [o])], 2, {}))
    # (c3) an upgrade that is refused without waiting and then repeated with waiting, while another process comes and goes
    retry = R(reentrant=True, kids=[W(blocking=False, reentrant=True), W(reentrant=True)])
    out.append(("upgrade-retry-2p", [(0, [retry]), (1, [R(), R(blocking=False)])], 2, {}))
    out.append(("upgrade-retry-2p", [(0, [retry]), (1, [R(), R()])], 2, {}))
    out.append(("upgrade-retry-2p", [(0, [retry]), (1, [R(blocking=False), W(blocking=False)])], 2, {}))
    out.append(("upgrade-retry-2t", [(0, [retry]), (0, [R(), R(blocking=False)])], 2, {}))
    # (c2) the same file under two spellings of its path (p and ./p): one lock, whatever the spelling
    al = "./p"
    for o in others:
        out.append(("alias-2t", [(0, [R(path=al)]), (0, [o])], 2, {}))
        out.append(("alias-2p", [(0, [W(path=al)]), (1, [o])], 2, {}))
    out.append(("alias-nest-2p", [(0, [W(reentrant=True, kids=[R(path=al, reentrant=True)])]), (1, [R(blocking=False)])], 2, {}))
    out.append(("alias-nest-2p", [(0, [W(reentrant=True, kids=[R(path=al, reentrant=True)])]), (1, [W()])], 2, {}))
    out.append(("alias-2p3t", [(0, [R()]), (0, [R(path=al)]), (1, [W(blocking=False)])], 1 if tier == "quick" else 2, {}))
    out.append(("alias-2p3t", [(0, [R()]), (0, [R(path=al)]), (1, [W()])], 1 if tier == "quick" else 2, {}))
    # (d) sequential reuse (fd pool / refcounts across requests)
    for o in others:
        out.append(("seq-2t", [(0, [R(), W()]), (0, [o])], 2, {}))
        out.append(("seq-2p", [(0, [W(), R()]), (1, [o])], 2, {}))
    # (e) three threads
    fam3 = [
        [R(), R(), W()], [W(), W(), R()], [R(), W(), R(blocking=False)],
        [R(reentrant=True, kids=[W(reentrant=True)]), R(), R()],
        [W(), R(), W(blocking=False)],
    ]
    for f in fam3:
        out.append(("3t", [(0, [f[0]]), (0, [f[1]]), (0, [f[2]])], 1 if tier == "quick" else 2, {}))
        out.append(("2p3t", [(0, [f[0]]), (0, [f[1]]), (1, [f[2]])], 1 if tier == "quick" else 2, {}))
    # (f) two processes x two threads
    out.append(("2p2t", [(0, [R()]), (0, [W()]), (1, [R()]), (1, [W()])], 1 if tier == "quick" else 2, {}))
    out.append(("2p2t", [(0, [W()]), (0, [W(path="q")]), (1, [W()]), (1, [W(path="q")])], 1 if tier == "quick" else 2, {}))
    # (g) line granularity: every source line of lock.py is a scheduling point (finds accesses that are not protected by
    #     any lock, which the synchronisation-level exploration cannot interleave); one preemption
    for a, b in ((R(), R()), (R(), W()), (W(), W()), (R(blocking=False), W()), (R(kids=[R(reentrant=True)]), R())):
        out.append(("lines-2t", [(0, [a]), (0, [b])], 1, {"lines": True}))
    out.append(("lines-2p", [(0, [R()]), (1, [W()])], 1, {"lines": True}))
    if tier == "thorough":
        for a, b in itertools.combinations_with_replacement(others, 2):
            out.append(("lines-2t", [(0, [a, b]), (0, [W()])], 1, {"lines": True}))
            out.append(("lines-2t2", [(0, [a]), (0, [b])], 2, {"lines": True}))
    if tier == "thorough":
        reqs2 = all_reqs(("p", "q"))
        base = [R(), W(), R(blocking=False), W(reentrant=True), R(reentrant=True)]
        # all 2-thread programs with <= 2 requests (nested or sequential) for thread 0 and 1 request for thread 1
        for a in base:
            for b in reqs2:
                for o in others:
                    out.append(("2t-nest-all", [(0, [(a[0], a[1], a[2], a[3], (b,))]), (0, [o])], 2, {}))
                    out.append(("2t-seq-all", [(0, [a, b]), (0, [o])], 2, {}))
        for a, b, c in itertools.combinations_with_replacement(reqs, 3):
            out.append(("3t1r", [(0, [a]), (0, [b]), (0, [c])], 2, {}))
        for a, b in itertools.combinations_with_replacement(others, 2):
            out.append(("spurious", [(0, [a]), (0, [b]), (0, [W()])], 1, {"spurious": 1}))
        for f in fam3[:3]:
            out.append(("relpoints", [(0, [f[0]]), (0, [f[1]]), (0, [f[2]])], 1, {"release_points": True}))
    return out


def shards(tier):
    progs = programs(tier)
    sh = [("prog", i, name, prog, bound, opts) for i, (name, prog, bound, opts) in enumerate(progs)]
    # heaviest first (threads^bound x requests) so the pool stays busy
    def cost(x):
        prog, bound = x[3], x[4]
        nreq = sum(len(fmt_node(n)) for _, body in prog for n in body)
        return -(len(prog) ** (bound + 1)) * nreq
    sh.sort(key=cost)
    # listed known findings are re-executed from their recorded schedule on every run
    from vlib import core

    wit = []
    for pat, e in sorted(core.load_known(PROPERTY).items()):
        w = e.get("witness") or {}
        if "program" in w and "choices" in w:
            wit.append(("witness", pat, w["program"], w["choices"], w.get("opts") or {}))
    return [("conformance",)] + wit + sh


def run_shard(shard, tier):
    from vlib import schedx

    if shard[0] == "conformance":
        from vlib import kconf

        return kconf.run(tier)
    if shard[0] == "witness":
        _, pat, prog, choices, opts = shard
        prog = [(pid, [_tup(n) for n in body]) for pid, body in prog]
        r = run_program(prog, choices, opts)
        res = {"states": len(r["sched"].points) + 1, "transitions": r["sched"].steps, "evaluations": 1, "executions": 1,
               "violations": [], "samples": [], "outcomes": {f"known-witness:{r['label']}": 1}}
        if r["failures"]:
            res["violations"].append({"program": prog, "program_text": fmt_prog(prog), "choices": r["sched"].choices, "opts": opts,
                                      "family": "known-witness", "what": f"[{fmt_prog(prog)}] " + r["failures"][0],
                                      "all": r["failures"][:5], "class": classify_text(r["failures"][0])})
        return res
    _, idx, name, prog, bound, opts = shard
    res = {"states": 0, "transitions": 0, "evaluations": 0, "distinct_nontrivial": 0, "violations": [],
           "samples": [], "outcomes": {}, "programs": 1, "executions": 0, "preemption_bound_by_family": {name: str(bound)},
           "traces_validated_against_impl": 0}
    labels = {}
    cap = 40000 if tier == "quick" else 400000

    def run_one(prefix):
        r = run_program(prog, prefix, opts)
        s = r["sched"]
        res["executions"] += 1
        res["evaluations"] += 1
        res["transitions"] += s.steps
        res["states"] += len(s.points) + 1
        if s.preemptions() > 0 or any(k > 1 for (k, _, _) in s.points):
            res["distinct_nontrivial"] += 1
        labels[r["label"]] = labels.get(r["label"], 0) + 1
        if r["failures"] and len(res["violations"]) < 20:
            res["violations"].append({
                "program": prog, "program_text": fmt_prog(prog), "choices": s.choices, "opts": opts, "family": name,
                "what": f"[{fmt_prog(prog)}] " + r["failures"][0], "all": r["failures"][:5],
                "class": classify_text(r["failures"][0]),
            })
        return s

    n, capped = schedx.explore(run_one, bound, max_execs=cap)
    res["capped"] = capped
    # differential binding of the shims to the implementation: the same program on the unmodified module with
    # real threads; its terminal outcome must be one the explorer enumerated
    if all(pid == 0 for pid, _ in prog) and not any(l in ("deadlock", "inherent-deadlock") for l in labels) and not opts \
            and not name.startswith("lines"):
        for rep in range(2):
            lab = free_run(prog)
            res["freerun_executions"] = res.get("freerun_executions", 0) + 1
            if lab in labels:
                res["traces_validated_against_impl"] += 1
            else:
                res["freerun_outcomes_outside_explored_set"] = res.get("freerun_outcomes_outside_explored_set", 0) + 1
                res.setdefault("freerun_outside_examples", []).append(f"{fmt_prog(prog)} -> {lab}")
    for lab, c in labels.items():
        key = f"{name}:{lab}"
        res["outcomes"][key] = c
    res["samples"].append({"program": fmt_prog(prog), "bound": bound, "executions": n, "terminal_outcomes": len(labels)})
    res["outcome_sets"] = {str(idx): sorted(k or "none" for k in labels)}
    return res


def free_run(prog):
    """Run the program on the real pharmpy.internals.fs.lock with real threads on a real file."""
    import tempfile
    import threading

    from pharmpy.internals.fs import lock as L

    d = tempfile.mkdtemp(prefix="verif-c15-")
    paths = {}
    for nm in ("p", "q"):
        paths[nm] = os.path.join(d, nm)
        open(paths[nm], "w").close()
    outcomes = {}

    def run_node(tid, node, nid, stack):
        path, sh, bl, re, kids = node
        recursive = any(p == path for p in stack)
        try:
            with L.path_lock(paths[path], shared=sh, blocking=bl, reentrant=re):
                for i, k in enumerate(kids):
                    run_node(tid, k, nid + (i,), stack + [path])
            outcomes[(tid,) + nid] = "ok"
        except BaseException as e:
            outcomes[(tid,) + nid] = type(e).__name__

    def body(tid, nodes):
        for i, n in enumerate(nodes):
            run_node(tid, n, (i,), [])

    ths = [threading.Thread(target=body, args=(i, b), daemon=True) for i, (_, b) in enumerate(prog)]
    for t in ths:
        t.start()
    hung = False
    for t in ths:
        t.join(timeout=10)
        hung = hung or t.is_alive()
    if not hung:
        for nm in paths.values():
            os.unlink(nm)
        os.rmdir(d)
    if hung:
        return "hang"
    return "|".join(f"{'.'.join(map(str, k))}={v}" for k, v in sorted(outcomes.items()))


def classify_text(t):
    for k in ("is suspended at", "exclusion", "held lock lost", "deadlock/lost wake-up", "non-blocking request", "bookkeeping", "kernel not quiescent",
              "crashed", "refused", "RecursiveDeadlockError", "granted", "EDEADLK-spurious", "exit-error"):
        if k in t:
            return k
    return t[:40]


def _tup(x):
    if isinstance(x, list):
        return tuple(_tup(y) for y in x)
    return x


def replay(w):
    prog = [(pid, [_tup(n) for n in body]) for pid, body in w["program"]]
    r = run_program(prog, w["choices"], dict(w.get("opts") or {}, trace=True))
    out = list(r["failures"])
    if out:
        out.append("schedule: " + " ".join(f"t{t}:{'/'.join(map(str, l)) if l else l}" for t, l in r["sched"].trace))
    return out


def classify(w):
    if w.get("class") == "EDEADLK-spurious" and all("EDEADLK-spurious" in a for a in w.get("all", [w["what"]])):
        prog = w["program"]
        pids = [pid for pid, _ in prog]
        paths = set()

        def walk(n):
            paths.add(n[0])
            for k in n[4]:
                walk(k)
        for _, body in prog:
            for n in body:
                walk(n)
        if len(set(pids)) >= 2 and all(pids.count(p) >= 2 for p in set(pids)) and len(paths) >= 2:
            return "kernel_edeadlk_false_positive_2proc_2threads_2paths"
    return None


def post(tot, tier):
    tot.pop("outcome_sets", None)
