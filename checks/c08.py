"""C08 - structural feature setters are detectable, idempotent, reversible and total.

Explicit-state BFS over the structural model graph (vlib.mgraph / vlib.seqx).  Every transition
s --f--> s' is a real modeling call; the detectors are evaluated before and after, f is applied
again (idempotence) and its declared inverse is applied (reversibility), both judged numerically.
"""
from __future__ import annotations

PROPERTY = "C08"
LEVEL = "model_checking"
ENGINE = "seqx"
PREIMPORT = ("pharmpy.modeling", "pharmpy.tools")
TECHNIQUE = ("explicit-state BFS over sequences of structural feature requests on real models; detector/feature-vector reference "
             "model, numeric equivalence for idempotence and reversibility on every transition")
LEVEL_TEXT = ("Every sequence of feature requests up to the stated depth (states merged by generated code) is executed; on every "
              "transition the detectors, totality (only documented refusals), idempotence and reversibility are checked - the property "
              "is a statement about all histories and its failures need 2-3 step histories.")
LEVEL_NOTE = ("trusted: vlib/mgraph.py feature vector (calls the public has_*/get_number_of_* detectors), vlib/ireval.py for numeric "
              "equivalence; couplings accepted between absorption / transits / lag time only (docs/modelsearch.rst exclusion table and "
              "setter docstrings)")
RULE = ("states = distinct (code, dataset) pairs reached from pheno, pheno+depot and pheno+depot+lag+F+peripheral over 18 feature requests; transitions = real setter "
        "calls; non-trivial transition = the setter returned a model whose code differs from its input")
ASSUMPTIONS = ["a refusal is ValueError / NotImplementedError / pharmpy ModelError; everything else raised by a setter is an internal error",
               "when a requested feature is documented as incompatible with a present one (absorption ZO/SEQ/INST vs transits, SEQ/INST vs lag time, "
               "lag time vs transits) the setter may reset the partner category to its default",
               "reversibility is judged after copying the initial estimates of equally named parameters; pairs whose parameter names change are counted, not judged"]
BOUNDS = {"quick": "depth 2 over the structural alphabet from 2 start models", "thorough": "depth 3"}

START = ["pheno", "pheno_oral", "pheno_rich"]

CATEGORY = {
    "abs_fo": ("absorption", "FO"), "abs_zo": ("absorption", "ZO"), "abs_seq": ("absorption", "SEQ-ZO-FO"), "abs_inst": ("absorption", "INST"),
    "lag_on": ("lagtime", True), "lag_off": ("lagtime", False),
    "transits_0": ("transits", 0), "transits_1": ("transits", 1), "transits_3": ("transits", 3), "transits_1_nodepot": ("transits", 1),
    "elim_fo": ("elimination", "FO"), "elim_mm": ("elimination", "MM"), "elim_mix": ("elimination", "MIX-FO-MM"), "elim_zo": ("elimination", "ZO"),
    "bio_add": ("bioavailability", True), "bio_remove": ("bioavailability", False),
    "metabolite": ("metabolite", True), "metabolite_psc": ("metabolite", True), "effect_cmt": ("effect", True),
}
DEFAULT = {"transits": 0, "lagtime": False, "absorption": "FO"}
COUPLED = {"absorption", "transits", "lagtime"}
UNDO = {"periph_add": "periph_remove", "lag_on": "lag_off", "bio_add": "bio_remove", "transits_1": "transits_0", "transits_3": "transits_0",
        "elim_mm": "elim_fo", "elim_mix": "elim_fo", "elim_zo": "elim_fo"}


TERMINAL = ("metabolite_psc",)  # the pre-systemic metabolite is examined as a request; the models it returns are not expanded
PRUNE_KNOWN = True  # a state returned by a transition that reproduces a recorded known finding is not expanded


def may_reset(cat, val):
    """categories that a request may reset to their default: exactly the documented exclusion pairs (docs/modelsearch.rst)
    ZO-TRANSITS, SEQ-TRANSITS, SEQ-LAGTIME(ON), INST-LAGTIME(ON), INST-TRANSITS, LAGTIME(ON)-TRANSITS"""
    if cat == "absorption":
        return {"ZO": {"transits"}, "SEQ-ZO-FO": {"transits", "lagtime"}, "INST": {"transits", "lagtime"}}.get(val, set())
    if cat == "lagtime" and val:
        return {"transits", "absorption"}
    if cat == "transits" and val:
        return {"absorption", "lagtime"}
    return set()


def alphabet(tier, depth):
    from vlib import mgraph

    # metabolite and effect compartment: requested only on states that are at most one step from a start model (they take the
    # system out of the ADVAN library, which makes every later step expensive)
    return list(mgraph.ops("structural")) + (["metabolite", "metabolite_psc", "effect_cmt"] if depth <= 1 else [])


def depth_limit(tier):
    return 2 if tier == "quick" else 3


def drive(tier):
    import sys

    from vlib import seqx

    results = seqx.drive(sys.modules[__name__], tier, START, depth_limit=depth_limit(tier), max_states=None)
    if any("harness_error" in r for r in results):
        return results
    # the states of the recorded known findings that lie deeper than this tier's depth are examined in every run
    from vlib import core

    extra = seqx.known_witness_states(sys.modules[__name__], min_depth=depth_limit(tier))
    if extra:
        results.extend(core.pmap(__name__, [("witness", extra)], tier))
    return results


def run_shard(shard, tier):
    import sys

    from vlib import seqx

    return seqx.run_level_shard(sys.modules[__name__], shard, tier, depth_limit=depth_limit(tier))


def classify_text(f):
    return f.split(":")[0][:70]


def features(model):
    import pharmpy.modeling as pm

    ab = [n for n, f in (("FO", pm.has_first_order_absorption), ("ZO", pm.has_zero_order_absorption),
                         ("SEQ-ZO-FO", pm.has_seq_zo_fo_absorption), ("INST", pm.has_instantaneous_absorption)) if f(model)]
    # a sequential ZO-FO absorption contains a zero-order and a first-order step: those two detectors are allowed to agree
    if "SEQ-ZO-FO" in ab:
        ab = [x for x in ab if x not in ("FO", "ZO")]
    el = [n for n, f in (("FO", pm.has_first_order_elimination), ("ZO", pm.has_zero_order_elimination),
                         ("MM", pm.has_michaelis_menten_elimination), ("MIX-FO-MM", pm.has_mixed_mm_fo_elimination)) if f(model)]
    cs = model.statements.ode_system
    bio = any(c.bioavailability != 1 for c in cs.dosing_compartments)
    return {
        "absorption": tuple(ab), "elimination": tuple(el),
        "peripherals": pm.get_number_of_peripheral_compartments(model),
        "transits": pm.get_number_of_transit_compartments(model),
        "lagtime": bool(__import__("pharmpy.modeling.odes", fromlist=["x"]).has_lag_time(model)),
        "bioavailability": bool(bio),
        "metabolite": cs.find_compartment("METABOLITE") is not None,
        "effect": cs.find_compartment("EFFECT") is not None,
    }


def check_state(hist, model, tier):
    fails = []
    try:
        fv = features(model)
    except Exception as e:
        return [f"detectors: raise {type(e).__name__}: {str(e)[:120]} on a model produced by the setters"], {}
    if len(fv["absorption"]) != 1:
        fails.append(f"detectors: absorption detectors report {fv['absorption']} (exactly one type expected)")
    if len(fv["elimination"]) != 1:
        fails.append(f"detectors: elimination detectors report {fv['elimination']} (exactly one type expected)")
    return fails, {"distinct_nontrivial": 1 if hist[1] else 0}


def stray_compartments(model):
    """absorption-chain compartments (DEPOT, TRANSITn) from which the central compartment cannot be reached"""
    ode = model.statements.ode_system
    if ode is None:
        return []
    names = list(ode.compartment_names)
    central = ode.central_compartment.name
    succ = {a: [b for b in names if b != a and ode.get_flow(ode.find_compartment(a), ode.find_compartment(b)) != 0] for a in names}
    out = []
    for a in names:
        if not (a.startswith("TRANSIT") or a == "DEPOT"):
            continue
        seen, todo = {a}, [a]
        while todo:
            x = todo.pop()
            for y in succ[x]:
                if y not in seen:
                    seen.add(y)
                    todo.append(y)
        if central not in seen:
            out.append(a)
    return out


def check_transition(hist, model, lab, m2, outcome, tier):
    from vlib import ireval, mgraph
    from vlib.xeval import Undefined

    fails = []
    if outcome.startswith("crash"):
        return [f"totality: {lab} fails with an internal error: {outcome[6:]}"]
    if m2 is None:
        return []
    try:
        before = features(model)
        after = features(m2)
    except Exception as e:
        return []  # reported by check_state of the successor
    if lab in CATEGORY:
        cat, val = CATEGORY[lab]
        got = after[cat]
        if cat in ("absorption", "elimination"):
            ok = got == (val,)
        else:
            ok = got == val
        if not ok and not (lab == "bio_add" and False):
            fails.append(f"detectability: after {lab} the {cat} detector reports {got}, requested {val}")
        if lab.endswith("_nodepot"):
            try:
                depot = m2.statements.ode_system.find_depot(m2.statements)
            except Exception:
                depot = None
            if depot is not None:
                fails.append(f"detectability: {lab} was accepted but the model still has a depot compartment ({depot.name})")
        for d in after:
            if d == cat or after[d] == before[d]:
                continue
            dv = after[d][0] if isinstance(after[d], tuple) and len(after[d]) == 1 else after[d]
            if d in may_reset(cat, val) and dv == DEFAULT[d]:
                continue
            if cat == "transits" and d == "absorption" and dv in ("FO", "INST"):
                continue  # the depot comes and goes with the transit chain
            if lab == "metabolite_psc" and d == "bioavailability":
                continue  # the pre-systemic fraction is modelled through the bioavailability of the dose
            if lab == "metabolite_psc" and d == "absorption" and dv == "FO":
                continue  # documented: "If a depot compartment is not present, one will be created"
            fails.append(f"frame: {lab} changed {d} from {before[d]} to {after[d]}")
        # a category that the request reset (or left alone) is not half there: every absorption-chain compartment of the
        # returned model still leads to the central compartment
        try:
            stray = stray_compartments(m2) if not stray_compartments(model) else []
        except Exception:
            stray = []
        if stray:
            fails.append(f"frame: {lab} leaves {', '.join(stray)} in the system with no path to the central compartment")
    elif lab in ("periph_add", "periph_remove"):
        want = before["peripherals"] + 1 if lab == "periph_add" else max(0, before["peripherals"] - 1)
        if after["peripherals"] != want:
            fails.append(f"detectability: after {lab} the number of peripheral compartments is {after['peripherals']}, expected {want}")
        for d in after:
            if d != "peripherals" and after[d] != before[d]:
                fails.append(f"frame: {lab} changed {d} from {before[d]} to {after[d]}")
    if fails:
        return fails
    # idempotence and reversibility (numeric)
    try:
        obs1 = mgraph.observe(m2)
    except (ireval.Unsupported, Undefined, ArithmeticError) as e:
        return []
    if lab not in ("periph_add", "periph_remove"):
        m3, out3 = mgraph.apply(m2, lab)
        if out3.startswith("crash"):
            fails.append(f"totality: {lab} applied a second time fails with an internal error: {out3[6:]}")
        elif m3 is not None:
            try:
                d = mgraph.same_observations(obs1, mgraph.observe(m3))
                if d:
                    fails.append(f"idempotence: applying {lab} twice changes the model function: {d}")
            except (ireval.Unsupported, Undefined, ArithmeticError) as e:
                fails.append(f"idempotence: after applying {lab} twice the model cannot be evaluated: {e}")
    # the undo request only leads back when the feature was not there before the request (lag_off after lag_on on a model that
    # already had a lag time legitimately removes that lag time)
    undo_leads_back = True
    if lab in UNDO and UNDO[lab] in CATEGORY:
        ucat, uval = CATEGORY[UNDO[lab]]
        bv = before.get(ucat)
        undo_leads_back = bv == uval or bv == (uval,)
    if lab in UNDO and undo_leads_back and m2.code != model.code:
        back, outb = mgraph.apply(m2, UNDO[lab])
        if outb.startswith("crash"):
            fails.append(f"totality: {UNDO[lab]} after {lab} fails with an internal error: {outb[6:]}")
        elif back is not None:
            if set(back.parameters.names) == set(model.parameters.names):
                from pharmpy.modeling import set_initial_estimates

                try:
                    back2 = set_initial_estimates(back, {p.name: p.init for p in model.parameters if not p.fix or True}, move_est_close_to_bounds=False)
                except Exception:
                    back2 = back
                try:
                    obs0 = mgraph.observe(model)
                    d = mgraph.same_observations(obs0, mgraph.observe(back2))
                    if d:
                        fails.append(f"reversibility: {lab} then {UNDO[lab]} does not restore the model function: {d}")
                except (ireval.Unsupported, Undefined, ArithmeticError) as e:
                    fails.append(f"reversibility: after {lab} then {UNDO[lab]} the model cannot be evaluated: {e}")
    return fails


def replay(w):
    from vlib import mgraph

    start, labels = w["history"]
    fails = []
    if not labels:
        return []
    parent = mgraph.build((start, tuple(labels[:-1])))
    if parent is None:
        return ["replay: history can no longer be built"]
    m2, outcome = mgraph.apply(parent, labels[-1])
    fails += check_transition((start, tuple(labels[:-1])), parent, labels[-1], m2, outcome, "quick")
    if m2 is not None:
        fails += check_state((start, tuple(labels)), m2, "quick")[0]
    return fails


def classify(w):
    from checks import c08_patterns

    return c08_patterns.classify(w)
