"""C07 - refactorings and pharmpy's own evaluators preserve the model function.

(A) explicit-state search: on every model of the graph reachable within the bound (vlib.mgraph) each
    refactoring documented as function preserving is applied (singly; in ordered pairs in the thorough tier) and the
    model function is compared numerically before/after (vlib.ireval on the grid).
(B) on every ODE-free state pharmpy's evaluators and symbolic gradients are compared with direct evaluation and
    central finite differences.
"""
from __future__ import annotations

import itertools

PROPERTY = "C07"
LEVEL = "model_checking"
ENGINE = "seqx"
PREIMPORT = ("pharmpy.modeling", "pharmpy.tools")
TECHNIQUE = ("explicit-state enumeration of (reachable model, refactoring [pair]) combinations on real objects with numeric "
             "equivalence of the model function as oracle; evaluator results compared with an independent evaluator and finite differences")
LEVEL_TEXT = ("All start models and their successors under the full transformation alphabet are combined with every refactoring "
              "of the preserving set; equality of the model function is decided numerically on the grid for each combination.")
LEVEL_NOTE = "trusted: vlib/ireval.py, vlib/xeval.py, vlib/pkeng.py; finite grid; finite differences h=1e-5, tolerance 1e-5 relative"
RULE = ("states = models reachable from {pheno, pheno+depot, pheno_linear} by <= depth transformations (merged by code+data); for each "
        "state every refactoring (and ordered pair, thorough) is one evaluation; non-trivial = the refactoring returned a model "
        "whose code or statements differ from the input and both sides were evaluated")
ASSUMPTIONS = ["a refactoring that refuses (ValueError/NotImplementedError/ModelError) is counted, not failed",
               "evaluators are documented for models without ODE systems; they are only judged there"]
BOUNDS = {"quick": "states at depth <= 1 (full alphabet, capped at 80 states); single refactorings; statement programs: every $PRED body of <= 3 "
                   "straight statements / logical IFs over two reassigned symbols, or one block IF (8 shapes), through 5 statement-rewriting refactorings",
          "thorough": "depth <= 2; ordered pairs of refactorings on depth <= 1 states; statement programs also with a statement before / after the "
                      "block IF and pairs of block IFs"}

START = ["pheno", "pheno_oral", "pheno_linear", "pred_nl", "pheno_partial_mu"]


def refactorings():
    import pharmpy.modeling as pm

    def rename_fresh(m):
        names = [str(s.symbol) for s in m.statements if hasattr(s, "symbol")]
        d = {}
        for n in names[:2]:
            d[n] = n + "_R"
        p0 = [p.name for p in m.parameters if p.name not in m.random_variables.parameter_names]
        if p0:
            d[p0[0]] = "THR_" + p0[0]
        return pm.rename_symbols(m, d)

    def rename_swap(m):
        # new names overlap old names: the first two etas swap, two thetas rotate (a simultaneous substitution)
        etas = list(m.random_variables.etas.names)
        d = {}
        if len(etas) >= 2:
            d[etas[0]], d[etas[1]] = etas[1], etas[0]
        th = [p.name for p in m.parameters if p.name not in m.random_variables.parameter_names]
        if len(th) >= 2:
            d[th[0]], d[th[1]] = th[1], th[0]
        if not d:
            raise ValueError("nothing to swap")
        return pm.rename_symbols(m, d)

    def generic_and_back(m):
        g = pm.convert_model(m, "generic")
        return pm.convert_model(g, "nonmem")

    def unload_load(m):
        return pm.load_dataset(pm.unload_dataset(m)) if m.datainfo.path is not None else m

    def fix_and_replace(m):
        th = [p.name for p in m.parameters if p.name not in m.random_variables.parameter_names]
        m2 = pm.fix_parameters(m, th[:1])
        return pm.replace_fixed_thetas(m2)

    def joint_then_split(m):
        j = pm.create_joint_distribution(m)
        return pm.split_joint_distribution(j)

    return {
        "mu_reference": pm.mu_reference_model,
        "make_declarative": pm.make_declarative,
        "cleanup": pm.cleanup_model,
        "greekify": pm.greekify_model,
        "rename_fresh": rename_fresh,
        "rename_swap": rename_swap,
        "generic_and_back": generic_and_back,
        "to_generic": lambda m: pm.convert_model(m, "generic"),
        "remove_unused": pm.remove_unused_parameters_and_rvs,
        "joint": pm.create_joint_distribution,
        "joint_then_split": joint_then_split,
        "fix_and_replace_theta": fix_and_replace,
        "replace_non_random_rvs": pm.replace_non_random_rvs,
        "update_source": lambda m: m.update_source(),
    }


def alphabet(tier, depth):
    from vlib import mgraph

    return list(mgraph.ops("all"))


def depth_limit(tier):
    return 1 if tier == "quick" else 2


def drive(tier):
    import sys

    from vlib import seqx

    results = seqx.drive(sys.modules[__name__], tier, START, depth_limit=depth_limit(tier), max_states=80 if tier == "quick" else 800)
    if any("harness_error" in r for r in results):
        return results
    # witnesses of the recorded known findings that lie deeper than the BFS of this tier: checked as extra states, so that every
    # listed finding is re-examined (and printed) in every run
    import json as _json
    import os as _os

    from vlib import core as _core

    seen_h = set()
    extra = []
    try:
        kf = _json.load(open(_os.path.join(_core.ROOT, "known_findings.json")))["findings"]
    except Exception:
        kf = []
    for f in kf:
        h = (f.get("witness") or {}).get("history")
        if f.get("property") == PROPERTY and f.get("kind") == "known" and h and len(h[1]) > depth_limit(tier):
            key = (h[0], tuple(h[1]))
            if key not in seen_h:
                seen_h.add(key)
                extra.append(key)
    if extra:
        results.extend(_core.pmap(__name__, [("level", extra)], tier))
    # statement-program round: every small $PRED program (straight-line reassignments, logical and block IFs) through the
    # refactorings that rewrite statements
    from vlib import core

    progs = stmt_programs(tier)
    n = 64
    k = (len(progs) + n - 1) // n
    shards = [("stmt", progs[i:i + k]) for i in range(0, len(progs), k)]
    results.extend(core.pmap(__name__, shards, tier))
    return results


STMT_REFACTORINGS = ["make_declarative", "cleanup", "generic_and_back", "remove_unused", "update_source"]
STMT_GRID = [{"X": x, "TH": 1.3, "ET": et, "EP": ep} for x in (-1.5, 0.0, 0.5, 2.0) for et, ep in ((0.0, 0.0), (0.3, -0.2))]
STMT_HEAD = "$PROBLEM p\n$INPUT ID TIME X DV\n$DATA data.csv IGNORE=@\n$PRED\n"
STMT_TAIL = "\n$THETA 1.3\n$OMEGA 0.1\n$SIGMA 1\n$ESTIMATION METHOD=1 INTER\n"


def stmt_programs(tier):
    """$PRED bodies: the C01 flow programs (prefix A = X, B = 1; up to three straight statements / logical IFs, or one block IF
    with an optional statement before / after) with a response that reads both symbols, a theta, an eta and an epsilon"""
    from vlib import nmgen

    out = []
    for fam, body in nmgen.flow_programs(tier):
        if tier == "quick" and ("+pre" in fam or "+post" in fam):
            continue  # block IF with a further statement before / after: thorough tier
        if fam == "flat" and not body.startswith("A = X\nB = 1"):
            body = "A = X\nB = 1\n" + body
        body = body.replace("\nY = A + B*10", "\nIPRED = A + B*10 + THETA(1)*EXP(ETA(1))\nY = IPRED + IPRED*EPS(1)")
        out.append((fam, body))
    return out


def stmt_values(model, g):
    """sequential evaluation of the statements of a model at one grid point -> value of the dependent variable"""
    from vlib.xeval import Undefined, ev

    env = {"X": g["X"], "ID": 1.0, "TIME": 0.0, "DV": 0.0}
    for p in model.parameters:
        env[p.name] = float(p.init)
    th = [p.name for p in model.parameters if p.name not in model.random_variables.parameter_names]
    if th:
        env[th[0]] = g["TH"]
    for n in model.random_variables.etas.names:
        env[n] = g["ET"]
    for n in model.random_variables.epsilons.names:
        env[n] = g["EP"]
    for st in model.statements:
        try:
            env[str(st.symbol)] = ev(st.expression, env)
        except Undefined:
            env.pop(str(st.symbol), None)
    y = list(model.dependent_variables.keys())[0]
    return env.get(str(y))


def check_stmt_program(body):
    import warnings

    from pharmpy.modeling import read_model_from_string
    from vlib.xeval import close

    with warnings.catch_warnings():
        warnings.simplefilter("ignore")
        try:
            m = read_model_from_string(STMT_HEAD + body + STMT_TAIL)
        except Exception as e:
            return f"refused:{type(e).__name__}", [], 0
    base = [stmt_values(m, g) for g in STMT_GRID]
    fails = []
    compared = 0
    crashed = 0
    for name in STMT_REFACTORINGS:
        m2, outcome = apply_ref(m, name)
        if m2 is None:
            # no model was produced (counted in the evidence; the property speaks about the models that are returned)
            crashed += outcome.startswith("crash")
            continue
        for g, v0 in zip(STMT_GRID, base):
            if v0 is None:
                continue
            try:
                v1 = stmt_values(m2, g)
            except Exception as e:
                fails.append(f"{name}: the refactored model cannot be evaluated: {type(e).__name__}: {str(e)[:80]}")
                break
            compared += 1
            if v1 is None or not close(v1, v0, 1e-9):
                fails.append(f"{name}: Y = {v1!r} after the refactoring, {v0!r} before, at X={g['X']} eta={g['ET']} eps={g['EP']}")
                break
    return ("ok" if not crashed else "ok-some-refactoring-crashed"), fails, compared


def run_stmt_shard(shard, tier):
    res = {"states": 0, "transitions": 0, "evaluations": 0, "distinct_nontrivial": 0, "violations": [], "samples": [],
           "outcomes": {}, "traces_validated_against_impl": 0, "stmt_programs": 0, "stmt_values_compared": 0}
    for fam, body in shard[1]:
        status, fails, compared = check_stmt_program(body)
        res["states"] += 1
        res["stmt_programs"] += 1
        res["transitions"] += len(STMT_REFACTORINGS)
        res["evaluations"] += 1
        res["stmt_values_compared"] += compared
        if compared:
            res["distinct_nontrivial"] += 1
            res["traces_validated_against_impl"] += 1
        key = "stmt:" + (status.split(":")[0] if not fails else "mismatch")
        if status == "ok-some-refactoring-crashed":
            res["refactorings_crashed"] = res.get("refactorings_crashed", 0) + 1
        res["outcomes"][key] = res["outcomes"].get(key, 0) + 1
        for f in fails[:10]:
            res["violations"].append({"kind": "stmt", "family": fam, "body": body, "what": f"[{body.replace(chr(10), ' | ')}] {f}",
                                      "class": "stmt:" + f.split(":")[0]})
    if shard[1]:
        res["samples"].append("statement program: " + shard[1][0][1].replace("\n", " | "))
    return res


def run_shard(shard, tier):
    import sys

    from vlib import seqx

    if shard[0] == "stmt":
        return run_stmt_shard(shard, tier)
    return seqx.run_level_shard(sys.modules[__name__], shard, tier, depth_limit=depth_limit(tier))


def classify_text(f):
    return f.split(":")[0][:70]


def apply_ref(model, name):
    import warnings

    from pharmpy.model import ModelError

    f = refactorings()[name]
    if model.dataset is not None:
        model = model.replace(dataset=model.dataset.copy())
    from vlib import mgraph

    try:
        with warnings.catch_warnings():
            warnings.simplefilter("ignore")
            with mgraph.time_limit(20):
                return f(model), "ok"
    except mgraph.CallTimeout:
        return None, "refused:timeout"
    except (ValueError, NotImplementedError, ModelError) as e:
        return None, f"refused:{type(e).__name__}"
    except Exception as e:
        return None, f"crash:{type(e).__name__}: {str(e)[:140]}"


def check_state(hist, model, tier):
    from vlib import ireval, mgraph
    from vlib.xeval import Undefined

    fails = []
    counters = {"refactorings_applied": 0, "refactorings_refused": 0, "refactorings_crashed": 0, "evaluator_points": 0}
    try:
        envs = mgraph.grid_envs(model)[:2]  # parameters at their initial values (a replaced fixed theta is a constant)
        base = mgraph.observe(model, envs, max_ids=2)
    except (ireval.Unsupported, Undefined, ArithmeticError):
        return [], counters
    names = list(refactorings())
    combos = [(n,) for n in names]
    if len(hist[1]) == 0:
        # a refactoring applied to a model that already is in its normal form (start models only: the cost doubles)
        combos += [(n, n) for n in names if n not in ("update_source", "to_generic")]
    if tier == "thorough" and len(hist[1]) <= 1:
        combos += [c for c in itertools.permutations(["mu_reference", "make_declarative", "cleanup", "remove_unused", "joint", "generic_and_back"], 2)]
    for combo in combos:
        m = model
        status = "ok"
        for n in combo:
            m, status = apply_ref(m, n)
            if m is None:
                break
        if m is None:
            if status.startswith("crash"):
                counters["refactorings_crashed"] += 1
            else:
                counters["refactorings_refused"] += 1
            continue
        counters["refactorings_applied"] += 1
        try:
            envs2 = _translate_envs(model, m, envs, combo)
            obs = mgraph.observe(m, envs2, max_ids=2)
        except ireval.Unsupported:
            continue
        except (Undefined, ArithmeticError) as e:
            fails.append(f"{'+'.join(combo)}: the refactored model cannot be evaluated: {e}")
            continue
        d = mgraph.same_observations(base, obs)
        if d:
            fails.append(f"{'+'.join(combo)}: model function changed: {d}")
        elif m.statements != model.statements or m.parameters != model.parameters:
            counters["distinct_nontrivial"] = counters.get("distinct_nontrivial", 0) + 1
    # (B) evaluators on ODE-free models
    if model.statements.ode_system is None:
        fails += check_evaluators(model, counters)
    else:
        import pharmpy.modeling as pm

        try:
            with mgraph.time_limit(20):
                m = pm.solve_ode_system(model)
        except BaseException:
            m = None
        if m is not None and m.statements.ode_system is None:
            fails += ["after solve_ode_system: " + f for f in check_evaluators(m, counters)]
    return fails, counters


def _translate_envs(old, new, envs, combo):
    """environments for the refactored model: same numeric values, keyed by the new parameter names (renaming refactorings
    keep the order of parameters)"""
    out = []
    oldp = [p.name for p in old.parameters]
    newp = [p.name for p in new.parameters]
    oldr = list(old.random_variables.names)
    newr = list(new.random_variables.names)
    for label, env in envs:
        e = dict(env)
        if ("rename_fresh" in combo or "greekify" in combo or "rename_swap" in combo) and len(oldp) == len(newp):
            for a, b in zip(oldp, newp):
                e[b] = env[a]
        if ("greekify" in combo or "rename_swap" in combo) and len(oldr) == len(newr):
            for a, b in zip(oldr, newr):
                e[b] = env[a]
        for p in new.parameters:
            e.setdefault(p.name, float(p.init))
        for n in new.random_variables.names:
            e.setdefault(n, 0.0)
        out.append((label, e))
    return out


def check_evaluators(model, counters, _nested=False):
    import numpy as np
    import pandas as pd

    import pharmpy.modeling as pm
    from vlib import ireval
    from vlib.xeval import Undefined, close

    fails = []
    me = ireval.ModelEval(model)
    inds = ireval.individuals(model, max_ids=3)
    df = model.dataset
    idcol = model.datainfo.id_column.name
    ids = list(dict.fromkeys(df[idcol]))[:3]
    sub = df[df[idcol].isin(ids)].reset_index(drop=True)
    etas = model.random_variables.etas.names
    epss = model.random_variables.epsilons.names
    dv = str(list(model.dependent_variables.keys())[0])
    etaval = {n: (0.3 if i % 2 == 0 else -0.2) for i, n in enumerate(sorted(etas))}
    eta_df = pd.DataFrame({n: [etaval[n]] * len(ids) for n in etas}, index=ids)

    def direct(eta, eps):
        env = ireval.base_env(model, etas=eta, eps=eps)
        out = []
        for recs in inds:
            for e in me.run(env, recs):
                out.append(e[dv])
        return np.array(out)

    zero_eps = {n: 0.0 for n in epss}
    try:
        want_pred = direct({n: 0.0 for n in etas}, zero_eps)
        want_ipred = direct(etaval, zero_eps)
    except (Undefined, ArithmeticError):
        return []

    def cmp(name, got, want, tol=1e-7):
        got = np.asarray(got, dtype=float)
        counters["evaluator_points"] += len(want)
        if got.shape != want.shape:
            fails.append(f"{name}: shape {got.shape} vs {want.shape}")
            return
        for i, (a, b) in enumerate(zip(got, want)):
            if not close(float(a), float(b), tol):
                fails.append(f"{name}: row {i}: pharmpy {a:.10g} vs direct evaluation {b:.10g}")
                return

    import warnings

    with warnings.catch_warnings():
        warnings.simplefilter("ignore")
        try:
            cmp("evaluate_population_prediction", pm.evaluate_population_prediction(model, dataset=sub), want_pred)
        except Exception as e:
            fails.append(f"evaluate_population_prediction: raises {type(e).__name__}: {str(e)[:100]} on a model without ODE system")
        try:
            cmp("evaluate_individual_prediction", pm.evaluate_individual_prediction(model, etas=eta_df, dataset=sub), want_ipred)
        except Exception as e:
            fails.append(f"evaluate_individual_prediction: raises {type(e).__name__}: {str(e)[:100]} on a model without ODE system")
        h = 1e-5
        try:
            g = pm.evaluate_eta_gradient(model, etas=eta_df, dataset=sub)
            for j, n in enumerate(etas):
                up = dict(etaval)
                up[n] += h
                dn = dict(etaval)
                dn[n] -= h
                fd = (direct(up, zero_eps) - direct(dn, zero_eps)) / (2 * h)
                cmp(f"evaluate_eta_gradient d/d{n}", g.iloc[:, j].values, fd, 1e-5)
        except Exception as e:
            fails.append(f"evaluate_eta_gradient: raises {type(e).__name__}: {str(e)[:100]} on a model without ODE system")
        try:
            g = pm.evaluate_epsilon_gradient(model, etas=eta_df, dataset=sub)
            for j, n in enumerate(epss):
                up = dict(zero_eps)
                up[n] = h
                dn = dict(zero_eps)
                dn[n] = -h
                fd = (direct(etaval, up) - direct(etaval, dn)) / (2 * h)
                cmp(f"evaluate_epsilon_gradient d/d{n}", g.iloc[:, j].values, fd, 1e-5)
        except Exception as e:
            fails.append(f"evaluate_epsilon_gradient: raises {type(e).__name__}: {str(e)[:100]} on a model without ODE system")
        # the same four evaluators at explicitly passed parameter values that differ from the initial estimates
        env_s = ireval.base_env(model, scale=0.8)
        pvals = {p.name: float(env_s[p.name]) for p in model.parameters}

        def direct_s(eta, eps):
            env = ireval.base_env(model, scale=0.8, etas=eta, eps=eps)
            out = []
            for recs in inds:
                for e in me.run(env, recs):
                    out.append(e[dv])
            return np.array(out)

        try:
            want_pred_s = direct_s({n: 0.0 for n in etas}, zero_eps)
            want_ipred_s = direct_s(etaval, zero_eps)
        except (Undefined, ArithmeticError):
            want_pred_s = None
        if want_pred_s is not None and any(abs(pvals[p.name] - float(p.init)) > 0 for p in model.parameters):
            calls = [
                ("evaluate_population_prediction(parameters=...)", lambda: pm.evaluate_population_prediction(model, parameters=pvals, dataset=sub), want_pred_s, 1e-7),
                ("evaluate_individual_prediction(parameters=...)", lambda: pm.evaluate_individual_prediction(model, etas=eta_df, parameters=pvals, dataset=sub), want_ipred_s, 1e-7),
            ]
            for name, f, want, tol in calls:
                try:
                    cmp(name, f(), want, tol)
                except Exception as e:
                    fails.append(f"{name}: raises {type(e).__name__}: {str(e)[:100]} on a model without ODE system")
            try:
                g = pm.evaluate_eta_gradient(model, etas=eta_df, parameters=pvals, dataset=sub)
                for j, n in enumerate(etas):
                    up = dict(etaval)
                    up[n] += h
                    dn = dict(etaval)
                    dn[n] -= h
                    fd = (direct_s(up, zero_eps) - direct_s(dn, zero_eps)) / (2 * h)
                    cmp(f"evaluate_eta_gradient(parameters=...) d/d{n}", g.iloc[:, j].values, fd, 1e-5)
            except Exception as e:
                fails.append(f"evaluate_eta_gradient(parameters=...): raises {type(e).__name__}: {str(e)[:100]} on a model without ODE system")
            try:
                g = pm.evaluate_epsilon_gradient(model, etas=eta_df, parameters=pvals, dataset=sub)
                for j, n in enumerate(epss):
                    up = dict(zero_eps)
                    up[n] = h
                    dn = dict(zero_eps)
                    dn[n] = -h
                    fd = (direct_s(etaval, up) - direct_s(etaval, dn)) / (2 * h)
                    cmp(f"evaluate_epsilon_gradient(parameters=...) d/d{n}", g.iloc[:, j].values, fd, 1e-5)
            except Exception as e:
                fails.append(f"evaluate_epsilon_gradient(parameters=...): raises {type(e).__name__}: {str(e)[:100]} on a model without ODE system")
    # the same evaluations on the same model carrying *different* stored initial individual estimates: explicitly passed etas
    # must still be the evaluation point
    if not fails and not _nested:
        try:
            from vlib import mgraph

            other = mgraph.individual_estimates_table(model, offset=0.07)
            m_ie = pm.update_initial_individual_estimates(model, other)
        except Exception:
            m_ie = None
        if m_ie is not None:
            sub_fails = check_evaluators(m_ie, counters, _nested=True)
            fails += ["with stored initial individual estimates: " + f for f in sub_fails]
    return fails[:12]


def replay(w):
    from vlib import mgraph

    if w.get("kind") == "stmt":
        return check_stmt_program(w["body"])[1]
    start, labels = w["history"]
    model = mgraph.build((start, tuple(labels)))
    if model is None:
        return ["replay: history can no longer be built"]
    return check_state((start, tuple(labels)), model, "quick")[0]


def classify(w):
    from checks import c07_patterns

    return c07_patterns.classify(w)
