"""C20 - estimation results are read faithfully from NONMEM output.

Bounded-exhaustive enumeration of synthetic NONMEM output: a reference writer (vlib/c20_ref.py, validated
byte-for-byte on checked-in real NONMEM files) renders ext/phi/cov/cor/coi/$TABLE files and whole run
directories for every parameter configuration x output variant of the stated space; pharmpy's readers
(NONMEMTableFile, read_modelfit_results) are run on them and every reported number, index and label is
compared with what was written; matrices reported together must satisfy their defining relations and every
results object must survive to_json/read_results.
"""
from __future__ import annotations

import itertools
import math
import os
import shutil
import tempfile
import traceback

from vlib import c20_ref as R

PROPERTY = "C20"
LEVEL = "model_checking"
ENGINE = "enumx"
TECHNIQUE = ("bounded exhaustive enumeration of NONMEM output files/directories rendered by a reference writer; "
             "reader output compared cell by cell with the written values (reference-model oracle)")
LEVEL_TEXT = (
    "Every parameter configuration x output variant of the stated finite space is rendered (no sampling) and "
    "read back with the real readers; all values, indices and labels are compared with the writer's own "
    "bookkeeping.  This is the right level because the property quantifies over all files of a documented "
    "format and its failure modes (row/column selection, label mapping, fixed-parameter removal, triangular "
    "unpacking, lossy serialisation) already show on tables with <= 3 rows and <= 4 etas."
)
LEVEL_NOTE = (
    "trusted: the reference writer (byte-for-byte reproduction of 19 real NONMEM files is re-checked in every "
    "run and counted in traces_validated_against_impl), the 30-line Gauss-Jordan inverse and the comparison "
    "code; nothing is claimed for 3-digit exponents, user $FORMATs, several $PROBLEMs or values outside the "
    "field-stress alphabet"
)
PREIMPORT = ("pharmpy.modeling", "pharmpy.tools")
RULE = (
    "union of completely enumerated sub-spaces: (T) single files: ext tables over all TABLE NO. header forms x "
    "special-row sets (-1000000000..-1000000008) x iteration lists x OBJ column names x fixed masks x every "
    "alphabet assignment to a small grid; phi tables over 1-4 etas x 1-3 individuals x all-zero masks x "
    "ETA/PHI naming; cov/cor/coi tables over every estimated/fixed mask of 9 labels and 5x4 positive definite "
    "matrices; $TABLE files over title/label/repeated-label/multi-table layouts; the 8 matrix conversion "
    "functions on the matrix alphabet; (D) run directories (control stream + ext + lst + phi + cov/cor/coi + "
    "table file): parameter configurations (thetas x omega structure x sigma structure x fixed-unit subsets x "
    "naming) x {every subset of matrix files, special-row sets, value rotations, 0-2 estimation steps, phi "
    "variants with/without MU referencing, $TABLE variants, covariance matrices}; a case is non-trivial when "
    "the reader accepted the input and at least one value was compared; states = files/directories read, "
    "transitions = render+read steps, evaluations = values compared"
)
ASSUMPTIONS = [
    "numbers use the documented 2-digit-exponent fields (1PE13.5, 1PE12.4, 17-significant-digit OBJ); the "
    "3-digit exponent of the design alphabet (1.23456E-101) is replaced by 1.23456E-99 because Fortran would "
    "print it without the E, which docs/NONMEM.rst does not describe",
    "the final row -1000000000 repeats the last printed iteration (NONMEM's behaviour for the generated "
    "methods); fixed parameters keep their initial estimate in every row; SAME and off-block elements are "
    "flagged fixed as in the checked-in qa/iov.ext",
    "values are compared exactly up to 1e-12 relative (the reader must return the printed decimal); relations "
    "between matrices are checked with a component-wise bound of 1e-4 (6 printed digits)",
    "JSON round trip: labels, shapes and numeric values (1e-9 relative) must agree; None and NaN are both "
    "'missing'; dtypes and index order are not compared",
]
BOUNDS = {
    "quick": "thetas<=3, omega in {d1,d2,b2,b2+d1,d1+SAME}, sigma in {d1,b2}, fixed-unit subsets of size<=1 "
             "(all subsets for <=3 units; both namings without fixed units, alternating otherwise), 2 value rotations, "
             "JSON round trip on every 2nd variant of basic-named configurations; table level: grids of 3-4 cells "
             "over the 6-value alphabet",
    "thorough": "thetas<=6, same structures, every fixed-unit subset of size<=2 (size<=1 for 5-6 thetas, all subsets "
                "for <=4 units), both namings, 6 value rotations; table level: grids of 6 cells over the alphabet",
}

ALPHA = [0.0, 1.0, -1.0, 1.23456e-99, -9.87654e+99, 0.1]
OBJS = [587.36644134661617, -44.507437157012490, 0.73662757275871138, 7.6804883433667426e-2, 1068.6244533830677,
        0.0, -0.23471926909847440, 12345678.901234567]
FOCE = "First Order Conditional Estimation with Interaction"
IMP = "Importance Sampling"
GOAL_MIN = "MINIMUM VALUE OF OBJECTIVE FUNCTION"
GOAL_FIN = "FINAL VALUE OF OBJECTIVE FUNCTION"


# ============================================================================= small helpers
def p6(x):
    return float("%.5E" % x)


def p5(x):
    return float("%.4E" % x)


def pobj(x):
    return float(R.obj22(x))


def isnan(x):
    try:
        return x is None or (isinstance(x, float) and math.isnan(x)) or (x != x)
    except Exception:
        return False


def feq(a, b, rtol=1e-12):
    if isnan(a) and isnan(b):
        return True
    if isnan(a) or isnan(b):
        return False
    if isinstance(a, (str, bytes)) or isinstance(b, (str, bytes)):
        return False  # a number was written: text is never an acceptable reading of it
    try:
        a = float(a)
        b = float(b)
    except (TypeError, ValueError):
        return a == b
    if a == b:
        return True
    if math.isinf(a) or math.isinf(b):
        return False
    return abs(a - b) <= rtol * max(abs(a), abs(b))


def key_of(k):
    """normalise index labels: numpy ints -> int, tuples recursively"""
    if isinstance(k, tuple):
        return tuple(key_of(x) for x in k)
    try:
        import numpy as np

        if isinstance(k, (np.integer,)):
            return int(k)
        if isinstance(k, (np.floating,)):
            f = float(k)
            if f != f:
                return "<NaN>"
            return int(f) if (abs(f) < 1e15 and f == int(f)) else f
    except Exception:
        pass
    if isinstance(k, float):
        if k != k:
            return "<NaN>"
        if abs(k) < 1e15 and k == int(k):
            return int(k)
    return k


def ser_dict(s):
    return {key_of(k): v for k, v in s.items()}


def frame_dict(df):
    """{row label: {column label: value}}"""
    out = {}
    cols = [key_of(c) for c in df.columns]
    for idx, row in zip(df.index, df.itertuples(index=False, name=None)):
        out[key_of(idx)] = dict(zip(cols, row))
    return out


def cmp_dict(name, got, want, fails, rtol=1e-12):
    """got/want: flat dicts label -> number; failure classes are named after the attribute (no labels)"""
    base = name.split("[")[0]
    gk, wk = list(got.keys()), list(want.keys())
    if sorted(map(repr, gk)) != sorted(map(repr, wk)):
        fails.append((base + ":labels", f"{name}: labels {gk} but written {wk}"))
        return 0
    n = 0
    for k in wk:
        n += 1
        if not feq(got[k], want[k], rtol):
            fails.append((base + ":value", f"{name}[{k}] = {got[k]!r} but the output files give {want[k]!r}"))
            break
    return n


def cmp_frame(name, got, want, fails, rtol=1e-12):
    base = name.split("[")[0]
    gk, wk = list(got.keys()), list(want.keys())
    if sorted(map(repr, gk)) != sorted(map(repr, wk)):
        fails.append((base + ":index", f"{name}: row labels {gk} but written {wk}"))
        return 0
    n = 0
    for k in wk:
        before = len(fails)
        n += cmp_dict(f"{name}[{k}]", got[k], want[k], fails, rtol)
        if len(fails) > before:
            break
    return n


def crash_info(exc):
    """(class string, human text) naming the innermost pharmpy frame"""
    tb = traceback.extract_tb(exc.__traceback__)
    where = "?"
    line = ""
    for fr in tb:
        if "/pharmpy/" in fr.filename:
            where = f"{os.path.basename(fr.filename)}:{fr.name}"
            line = (fr.line or "").strip()
    return f"crash:{type(exc).__name__}@{where}", f"{type(exc).__name__}: {exc} at {where} `{line}`"


# ============================================================================= (T) table-level cases
def header_forms():
    """(table line kwargs, expected metadata)"""
    out = []
    for number in (1, 2, 11):
        for method, evaluation in ((FOCE, False), ("First Order", False), (FOCE + " (Evaluation)", True),
                                   ("Stochastic Approximation Expectation-Maximization", False),
                                   ("Objective Function Evaluation by Importance Sampling", False),
                                   ("MCMC Bayesian Analysis", False)):
            for goal in (None, GOAL_MIN, "AVERAGE VALUE OF LIKELIHOOD FUNCTION"):
                for design in (None, "D-OPTIMALITY"):
                    out.append({"number": number, "method": method, "goal": goal, "design": design,
                                "evaluation": evaluation})
    return out


EXT_ROWSETS = {
    "cov": ["se", "sdcorr", "se_sdcorr", "fixed", "term", "grad"],
    "cov_eig": ["se", "eig", "cond", "sdcorr", "se_sdcorr", "fixed", "term", "grad"],
    "nocov": ["sdcorr", "fixed", "term", "grad"],
    "nm72cov": ["se", "sdcorr", "se_sdcorr"],
    "nm72nocov": ["sdcorr"],
}


def ext_table_case(desc):
    """desc: dict(labels, iters, rowset, head, cells (list of alphabet indices, consumed row-wise), objname)
    -> (text, expectation)"""
    labels = desc["labels"]
    cells = desc["cells"]
    pos = [0]

    def nxt():
        v = ALPHA[cells[pos[0] % len(cells)] % len(ALPHA)]
        pos[0] += 1
        return v

    rows = []
    obase = desc.get("obj", 0)
    for k, it in enumerate(desc["iters"]):
        vals = [nxt() for _ in labels]
        obj = OBJS[(obase + k) % len(OBJS)]
        rows.append((it, vals, obj))
    if desc.get("final", True):
        last = rows[-1] if rows else (0, [nxt() for _ in labels], OBJS[obase % len(OBJS)])
        rows.append((R.SPECIAL["final"], list(last[1]), last[2]))
    for nm in EXT_ROWSETS[desc["rowset"]]:
        if nm == "fixed":
            vals = [float(b) for b in desc["fixmask"]]
        elif nm in ("sdcorr", "se_sdcorr"):
            vals = [0.0 if lab.startswith("THETA") else nxt() for lab in labels]
        else:
            vals = [nxt() for _ in labels]
        rows.append((R.SPECIAL[nm], vals, 0.0))
    h = desc["head"]
    tline = R.table_line(h["number"], h["method"], goal=h["goal"], design=h["design"])
    text = R.render_ext_table(tline, labels, rows, objname=desc.get("objname", "OBJ"))
    return text, rows


def order_tos(labels):
    """pharmpy's documented column order THETA, OMEGA, SIGMA with THETA(n) spelling"""
    th = [x for x in labels if x.startswith("THETA")]
    om = [x for x in labels if x.startswith("OMEGA")]
    sg = [x for x in labels if x.startswith("SIGMA")]
    return th + om + sg


def plabel(lab):
    if lab.startswith("THETA"):
        return "THETA(%s)" % lab[5:]
    return lab


def check_ext_table(desc, tmp):
    """-> (fails, ncompared)"""
    from pharmpy.model.external.nonmem.table import ExtTable, NONMEMTableFile

    fails = []
    ncmp = 0
    text, rows = ext_table_case(desc)
    path = os.path.join(tmp, "t.ext")
    with open(path, "w") as fh:
        fh.write(text * 1 if not desc.get("twice") else text + text.replace("TABLE NO.     1", "TABLE NO.     2"))
    labels = desc["labels"]
    try:
        tf = NONMEMTableFile(path)
        if len(tf) != (2 if desc.get("twice") else 1):
            return [("ext:ntables", f"{len(tf)} tables read")], 0
        t = tf[len(tf) - 1]
        if not isinstance(t, ExtTable):
            return [("ext:type", "not an ExtTable")], 0
        h = desc["head"]
        meta_want = {"number": h["number"] if not desc.get("twice") else t.number, "method": h["method"],
                     "goal_function": h["goal"], "design_optimality": h["design"], "is_evaluation": h["evaluation"],
                     "problem": 1, "subproblem": 0, "superproblem1": 0, "iteration1": 0, "superproblem2": 0,
                     "iteration2": 0}
        for k, v in meta_want.items():
            if k == "is_evaluation" and "Evaluation" in h["method"] and not h["evaluation"]:
                continue  # the flag is undocumented for method names that merely contain the word
            ncmp += 1
            if getattr(t, k) != v:
                fails.append(("ext:meta:" + k, f"table.{k} = {getattr(t, k)!r} but the TABLE NO. line says {v!r}"))
        df = t.data_frame
        want_cols = ["ITERATION"] + [plabel(x) for x in order_tos(labels)] + ["OBJ"]
        if [str(c) for c in df.columns] != want_cols:
            fails.append(("ext:columns", f"columns {list(df.columns)} want {want_cols}"))
            return fails, ncmp
        if len(df) != len(rows):
            fails.append(("ext:nrows", f"{len(df)} rows read, {len(rows)} written"))
            return fails, ncmp
        for (it, vals, obj), got in zip(rows, df.itertuples(index=False, name=None)):
            w = {"ITERATION": it, "OBJ": pobj(obj)}
            for lab, v in zip(labels, vals):
                w[plabel(lab)] = p6(v)
            g = dict(zip(want_cols, got))
            for c in want_cols:
                ncmp += 1
                if not feq(g[c], w[c]):
                    fails.append(("ext:cell", f"row ITERATION={it} column {c}: read {g[c]!r}, written {w[c]!r}"))
                    return fails, ncmp
        byit = {it: (vals, obj) for it, vals, obj in rows}

        def rowdict(code, only=None):
            vals, _ = byit[code]
            d = {plabel(lab): p6(v) for lab, v in zip(labels, vals)}
            if only:
                d = {k: v for k, v in d.items() if not k.startswith("THETA")}
            return d

        fin = R.SPECIAL["final"]
        if fin in byit:
            ncmp += cmp_dict("final_parameter_estimates", ser_dict(t.final_parameter_estimates), rowdict(fin), fails)
            ncmp += 1
            if not feq(t.final_ofv, pobj(byit[fin][1])):
                fails.append(("ext:final_ofv", f"final_ofv {t.final_ofv!r} but row -1000000000 says {byit[fin][1]!r}"))
            want_init = pobj(byit[0][1]) if 0 in byit else pobj(byit[fin][1])
            ncmp += 1
            if not feq(t.initial_ofv, want_init):
                fails.append(("ext:initial_ofv", f"initial_ofv {t.initial_ofv!r} want {want_init!r}"))
        ncmp += 1
        if [int(x) for x in t.iterations] != [it for it in desc["iters"]]:
            fails.append(("ext:iterations", f"iterations {t.iterations} written {desc['iters']}"))
        present = EXT_ROWSETS[desc["rowset"]]
        for nm, getter, only in (("se", "standard_errors", False), ("sdcorr", "omega_sigma_stdcorr", True),
                                 ("se_sdcorr", "omega_sigma_se_stdcorr", True)):
            if nm in present:
                got = ser_dict(getattr(t, getter))
                ncmp += cmp_dict(getter, got, rowdict(R.SPECIAL[nm], only), fails)
            else:
                try:
                    getattr(t, getter)
                    fails.append(("ext:" + getter, f"{getter} returned a value although row {R.SPECIAL[nm]} is absent"))
                except KeyError:
                    pass
        if "fixed" in present:
            got = {k: bool(v) for k, v in ser_dict(t.fixed).items()}
            want = {plabel(lab): bool(b) for lab, b in zip(labels, desc["fixmask"])}
            ncmp += len(want)
            if got != want:
                fails.append(("ext:fixed", f"fixed flags {got} but row -1000000006 says {want}"))
        if "cond" in present:
            ncmp += 1
            want = p6(byit[R.SPECIAL["cond"]][0][0])
            if not feq(t.condition_number, want):
                fails.append(("ext:condition_number", f"condition number {t.condition_number!r} written {want!r}"))
    except Exception as e:  # the reader must not fail on a well formed file
        cls, txt = crash_info(e)
        fails.append((cls, "ext table: " + txt))
    return fails, ncmp


def ext_table_descs(tier):
    """enumeration of ext table cases"""
    out = []
    base_labels = ["THETA1", "THETA2", "SIGMA(1,1)", "OMEGA(1,1)", "OMEGA(2,1)", "OMEGA(2,2)"]
    base_fix = [0, 1, 0, 0, 1, 0]
    h0 = {"number": 1, "method": FOCE, "goal": GOAL_MIN, "design": None, "evaluation": False}
    # (a) every header form
    for h in header_forms():
        out.append({"labels": base_labels, "fixmask": base_fix, "iters": [0, 7], "rowset": "cov", "head": h,
                    "cells": [1, 5, 2, 3, 4, 0, 5]})
    # (b) row sets x iteration lists x OBJ column names x fixed masks
    for rowset in EXT_ROWSETS:
        for iters in ([0], [0, 1], [0, 5, 12], []):
            for objname in ("OBJ", "SAEMOBJ", "MCMCOBJ"):
                for twice in (False, True):
                    out.append({"labels": base_labels, "fixmask": base_fix, "iters": iters, "rowset": rowset,
                                "head": h0, "cells": [2, 1, 4, 5, 3, 1, 0], "objname": objname, "twice": twice,
                                "obj": len(iters)})
    for nth in range(1, 7 if tier == "thorough" else 4):
        labels = [f"THETA{i}" for i in range(1, nth + 1)] + ["SIGMA(1,1)", "OMEGA(1,1)"]
        for mask in itertools.product((0, 1), repeat=len(labels)):
            out.append({"labels": labels, "fixmask": list(mask), "iters": [0, 3], "rowset": "cov", "head": h0,
                        "cells": [4, 2, 1, 5, 3, 0, 2]})
    # (c) every assignment of the alphabet to a grid of k cells (2 labels; the cells fill iteration rows first)
    k = 6 if tier == "thorough" else 4
    for cells in itertools.product(range(len(ALPHA)), repeat=k):
        out.append({"labels": ["THETA1", "SIGMA(1,1)", "OMEGA(1,1)"], "fixmask": [0, 0, 0], "iters": [0, 1],
                    "rowset": "nm72cov", "head": h0, "cells": list(cells)})
    return out


# ---- phi
def phi_case(desc):
    neta = desc["neta"]
    ntri = neta * (neta + 1) // 2
    inds = []
    c = desc.get("cells", [1, 2, 5, 3, 4])
    pos = 0
    for k in range(desc["nind"]):
        idv = desc["ids"][k]
        if desc["zero"][k]:
            inds.append((k + 1, idv, [0.0] * neta, [0.0] * ntri, 0.0))
            continue
        if desc.get("onehot") is not None and k == 0:
            # an individual with exactly one non-zero field is not an "all zero" individual
            cellsv = [0.0] * (neta + ntri + 1)
            cellsv[desc["onehot"]] = 0.1 if desc["onehot"] < neta + ntri else OBJS[2]
            inds.append((k + 1, idv, cellsv[:neta], cellsv[neta:neta + ntri], cellsv[-1]))
            continue
        eta = []
        for _ in range(neta):
            eta.append(ALPHA[c[pos % len(c)]])
            pos += 1
        etc = []
        for _ in range(ntri):
            etc.append(ALPHA[c[pos % len(c)]] if desc.get("stress") else 0.001 * (pos + 1) * (-1) ** pos)
            pos += 1
        inds.append((k + 1, idv, eta, etc, OBJS[(k + desc.get("obj", 0)) % len(OBJS)]))
    return inds


def phi_expect(desc, inds, eta_names=None):
    """expected iofv, etas, etcs for the non-all-zero individuals"""
    neta = desc["neta"]
    names = eta_names or [f"ETA({i})" for i in range(1, neta + 1)]
    iofv, etas, etcs = {}, {}, {}
    for sno, idv, eta, etc, obj in inds:
        if all(v == 0 for v in eta) and all(v == 0 for v in etc) and obj == 0:
            continue
        iofv[idv] = pobj(obj)
        etas[idv] = {n: p6(v) for n, v in zip(names, eta)}
        m = {}
        q = 0
        for i in range(neta):
            for j in range(i + 1):
                m.setdefault(names[i], {})[names[j]] = p6(etc[q])
                m.setdefault(names[j], {})[names[i]] = p6(etc[q])
                q += 1
        etcs[idv] = m
    return iofv, etas, etcs


def render_phi(desc, inds, number=1, method=FOCE):
    pre = ("PHI", "PHC") if desc["prefix"] == "PHI" else ("ETA", "ETC")
    tline = R.table_line(number, method)
    return R.render_phi_table(tline, desc["neta"], inds, prefix=pre, objname=desc.get("objname", "OBJ"))


def check_phi_table(desc, tmp):
    from pharmpy.model.external.nonmem.table import NONMEMTableFile, PhiTable

    fails, ncmp = [], 0
    inds = phi_case(desc)
    path = os.path.join(tmp, "t.phi")
    with open(path, "w") as fh:
        fh.write(render_phi(desc, inds))
    try:
        tf = NONMEMTableFile(path)
        t = tf[0]
        if len(tf) != 1 or not isinstance(t, PhiTable):
            return [("phi:type", "not one PhiTable")], 0
        pre = desc["prefix"]
        names_file = [f"{pre}({i})" for i in range(1, desc["neta"] + 1)]
        iofv, etas, _ = phi_expect(desc, inds, names_file)
        _, _, etcs = phi_expect(desc, inds)  # etcs are labelled ETA(n) also for PHC ("PHC == ETC")
        ncmp += cmp_dict("iofv", ser_dict(t.iofv), iofv, fails)
        ncmp += cmp_frame("etas", frame_dict(t.etas), etas, fails)
        got = t.etcs
        gk = [key_of(k) for k in got.index]
        if gk != list(etcs.keys()):
            fails.append(("phi:etcs:index", f"etcs individuals {gk} want {list(etcs.keys())}"))
        else:
            for k, m in zip(gk, got.values):
                ncmp += cmp_frame(f"etcs[{k}]", frame_dict(m), etcs[k], fails)
    except Exception as e:
        cls, txt = crash_info(e)
        fails.append((cls, "phi table: " + txt))
    return fails, ncmp


def phi_descs(tier):
    out = []
    idsets = {1: [[1], [7]], 2: [[1, 2], [3, 11]], 3: [[1, 2, 3], [5, 2, 9]]}
    for neta in (1, 2, 3, 4):
        for nind in (1, 2, 3):
            for zero in itertools.product((False, True), repeat=nind):
                for prefix in ("ETA", "PHI"):
                    for ids in idsets[nind]:
                        for stress in (False, True):
                            out.append({"neta": neta, "nind": nind, "zero": list(zero), "prefix": prefix, "ids": ids,
                                        "stress": stress, "objname": "SAEMOBJ" if prefix == "PHI" else "OBJ",
                                        "cells": [1, 2, 5, 3, 4, 2] if stress else [1, 2, 5, 3, 4]})
    for neta in (1, 2, 3):
        for hot in range(neta + neta * (neta + 1) // 2 + 1):
            out.append({"neta": neta, "nind": 2, "zero": [False, False], "prefix": "ETA", "ids": [1, 2], "stress": False,
                        "onehot": hot})
    k = 5 if tier == "thorough" else 3
    for cells in itertools.product(range(len(ALPHA)), repeat=k):
        if all(ALPHA[c] == 0 for c in cells):
            continue
        out.append({"neta": 1, "nind": 2, "zero": [False, False], "prefix": "ETA", "ids": [1, 2], "stress": True,
                    "cells": list(cells), "obj": 1})
    return out


# ---- cov / cor / coi tables
def matrix_family(p, fam, scale):
    """(se vector, correlation matrix) of a positive definite covariance matrix; all entries distinct for 'gen'"""
    if fam == "I":
        Rm = [[1.0 if i == j else 0.0 for j in range(p)] for i in range(p)]
    elif fam == "equi":
        Rm = [[1.0 if i == j else 0.5 for j in range(p)] for i in range(p)]
    elif fam == "neg":
        r = -0.9 / max(1, p - 1)
        Rm = [[1.0 if i == j else r for j in range(p)] for i in range(p)]
    elif fam == "ar":
        Rm = [[(-0.7) ** abs(i - j) for j in range(p)] for i in range(p)]
    else:  # gen
        B = [[math.sin(1 + 3 * i + 7 * j) for j in range(p)] for i in range(p)]
        S = [[sum(B[i][k] * B[j][k] for k in range(p)) + (1.5 if i == j else 0.0) for j in range(p)] for i in range(p)]
        d = [math.sqrt(S[i][i]) for i in range(p)]
        Rm = [[S[i][j] / (d[i] * d[j]) if i != j else 1.0 for j in range(p)] for i in range(p)]
    if scale == "one":
        se = [1.0] * p
    elif scale == "geo":
        se = [10.0 ** (-(i % 4)) * (1 + i / 8.0) for i in range(p)]
    elif scale == "tiny":
        se = [2.1e-6 * (i + 1) for i in range(p)]
    else:  # big
        se = [3.0e4 * (i + 1) for i in range(p)]
    return se, Rm


def full_matrices(labels, est_mask, fam, scale):
    """cov/cor/coi as written by NONMEM (all labels; zero rows for the non-estimated), with printed values"""
    idx = [k for k, e in enumerate(est_mask) if e]
    p = len(idx)
    se, Rm = matrix_family(p, fam, scale)
    se = [p6(s) for s in se]
    cov = [[se[i] * se[j] * Rm[i][j] for j in range(p)] for i in range(p)]
    coi = R.inverse(cov)
    cor = [[Rm[i][j] if i != j else se[i] for j in range(p)] for i in range(p)]
    n = len(labels)

    def embed(M):
        F = [[0.0] * n for _ in range(n)]
        for a, i in enumerate(idx):
            for b, j in enumerate(idx):
                F[i][j] = M[a][b]
        return F

    return {"cov": embed(cov), "cor": embed(cor), "coi": embed(coi), "se": se, "idx": idx}


def check_matrix_table(desc, tmp):
    from pharmpy.model.external.nonmem.table import CovTable, NONMEMTableFile

    fails, ncmp = [], 0
    labels = desc["labels"]
    mats = full_matrices(labels, desc["est"], desc["fam"], desc["scale"])
    for kind in ("cov", "cor", "coi"):
        path = os.path.join(tmp, "t." + kind)
        with open(path, "w") as fh:
            fh.write(R.render_matrix_table(R.table_line(1, FOCE), labels, mats[kind]))
        try:
            tf = NONMEMTableFile(path)
            t = tf[0]
            if len(tf) != 1 or not isinstance(t, CovTable):
                fails.append((kind + ":type", "not one CovTable"))
                continue
            df = t.data_frame
            want_labels = [plabel(x) for x in order_tos([lab for lab, e in zip(labels, desc["est"]) if e])]
            want = {}
            for a, la in enumerate(labels):
                if not desc["est"][a]:
                    continue
                want[plabel(la)] = {plabel(lb): p6(mats[kind][a][b]) for b, lb in enumerate(labels) if desc["est"][b]}
            if [str(x) for x in df.index] != want_labels or [str(x) for x in df.columns] != want_labels:
                fails.append((kind + ":labels", f".{kind}: labels {list(df.index)} / {list(df.columns)} want {want_labels}"))
                continue
            ncmp += cmp_frame("." + kind, frame_dict(df), want, fails)
        except Exception as e:
            cls, txt = crash_info(e)
            fails.append((cls, f".{kind} table: " + txt))
    return fails, ncmp


def matrix_descs(tier):
    out = []
    labels = ["THETA1", "THETA2", "THETA3", "SIGMA(1,1)", "SIGMA(2,1)", "SIGMA(2,2)", "OMEGA(1,1)", "OMEGA(2,1)",
              "OMEGA(2,2)"]
    for mask in itertools.product((0, 1), repeat=len(labels)):
        if sum(mask) == 0:
            continue
        out.append({"labels": labels, "est": list(mask), "fam": "gen", "scale": "geo"})
    for fam in ("I", "equi", "neg", "ar", "gen"):
        for scale in ("one", "geo", "tiny", "big"):
            for nth in (1, 2, 6 if tier == "thorough" else 3):
                lab = [f"THETA{i}" for i in range(1, nth + 1)] + ["SIGMA(1,1)", "OMEGA(1,1)", "OMEGA(2,1)", "OMEGA(2,2)"]
                out.append({"labels": lab, "est": [1] * nth + [1, 1, 0, 1], "fam": fam, "scale": scale})
    return out


# ---- $TABLE files
def dollar_rows(names, nrows, cells):
    rows = []
    pos = 0
    for r in range(nrows):
        row = []
        for n in names:
            if n == "ID":
                row.append(float(1 + r // 3))
            elif n == "MDV":
                row.append(1.0 if r % 3 == 0 else 0.0)
            elif n in ("RES", "WRES", "CWRES") and r % 3 == 0:
                row.append(0.0)
            elif n in ("RES", "WRES", "CWRES"):
                v = ALPHA[cells[pos % len(cells)]]
                pos += 1
                # an observation has at least one non-zero residual
                row.append(v if (v != 0 or n != "RES") else 0.5)
            else:
                row.append(ALPHA[cells[pos % len(cells)]] if n != "TIME" else float(r % 3))
                pos += 1
        rows.append(row)
    return rows


def check_dollar_table(desc, tmp):
    from pharmpy.model.external.nonmem.table import NONMEMTableFile

    fails, ncmp = [], 0
    names = desc["names"]
    label = desc.get("label", True)
    path = os.path.join(tmp, "sdtab")
    texts = []
    allrows = []
    for k in range(desc["ntables"]):
        rows = dollar_rows(names, desc["nrows"], desc["cells"][k:] + desc["cells"][:k])
        allrows.append(rows)
        texts.append(R.render_dollar_table(k + 1, names, rows, title=desc["title"], label=label,
                                           repeat_every=desc["repeat"]))
    with open(path, "w") as fh:
        fh.write("".join(texts))
    try:
        tf = NONMEMTableFile(path, notitle=not desc["title"], nolabel=not label)
        want_tables = desc["ntables"] if desc["title"] else 1
        if len(tf) != want_tables:
            fails.append(("tab:ntables", f"{len(tf)} tables read, {want_tables} written"))
            return fails, ncmp
        for k, t in enumerate(tf):
            if desc["title"]:
                ncmp += 1
                if t.number != k + 1:
                    fails.append(("tab:number", f"table number {t.number} want {k + 1}"))
            df = t.data_frame
            rows = allrows[k] if desc["title"] else [r for rr in allrows for r in rr]
            if label and [str(c) for c in df.columns] != names:
                fails.append(("tab:columns", f"columns {list(df.columns)} want {names}"))
                continue
            if not label and len(df) == len(rows) - 1 and all(
                    feq(g, p5(w)) for got, want in zip(df.itertuples(index=False, name=None), rows[1:])
                    for g, w in zip(got, want)):
                fails.append(("tab:nolabel_first_record_lost",
                              f"table {k + 1} written without label line (NOLABEL/NOHEADER): {len(rows)} records "
                              f"written, {len(df)} read - the first record {[p5(v) for v in rows[0]]} was taken as "
                              f"the header {list(df.columns)}"))
                continue
            if len(df) != len(rows):
                fails.append(("tab:nrows", f"table {k + 1}: {len(df)} rows read, {len(rows)} written "
                                           f"(title={desc['title']} label={label} repeat={desc['repeat']})"))
                continue
            for r, (got, want) in enumerate(zip(df.itertuples(index=False, name=None), rows)):
                for c, g, w in zip(names, got, want):
                    ncmp += 1
                    if not feq(g, p5(w)):
                        fails.append(("tab:cell", f"table {k + 1} row {r} column {c}: read {g!r} written {p5(w)!r}"))
                        return fails, ncmp
    except Exception as e:
        cls, txt = crash_info(e)
        fails.append((cls, "$TABLE file: " + txt))
    return fails, ncmp


def dollar_descs(tier):
    out = []
    namesets = [["ID", "TIME", "DV", "PRED", "IPRED", "RES", "WRES", "CWRES", "MDV"], ["ID", "TIME", "IPRED", "CWRES",
                "DV", "PRED", "RES", "WRES"], ["DV"], ["_A1", "PRED"]]
    for names in namesets:
        for title in (True, False):
            for repeat in (None, 2, 900):
                for ntables in (1, 2):
                    for nrows in (1, 4, 905) if repeat == 900 else (1, 4):
                        if repeat == 900 and nrows != 905:
                            continue
                        out.append({"names": names, "title": title, "repeat": repeat, "ntables": ntables,
                                    "nrows": nrows, "cells": [1, 4, 2, 5, 3, 0, 1]})
                        if repeat is None:  # NOLABEL / NOHEADER: no label line at all
                            out.append({"names": names, "title": title, "repeat": None, "ntables": ntables,
                                        "nrows": nrows, "cells": [1, 4, 2, 5, 3, 0, 1], "label": False})
    k = 5 if tier == "thorough" else 3
    for cells in itertools.product(range(len(ALPHA)), repeat=k):
        out.append({"names": ["PRED", "IPRED", "CWRES"], "title": True, "repeat": None, "ntables": 1, "nrows": 2,
                    "cells": list(cells)})
    return out


# ---- the conversion functions of pharmpy.modeling (covariance <-> correlation <-> precision <-> SE)
def check_math(desc, tmp):
    import pandas as pd

    import pharmpy.modeling as M

    fails, ncmp = [], 0
    p = desc["p"]
    se, Rm = matrix_family(p, desc["fam"], desc["scale"])
    cov = [[se[i] * se[j] * Rm[i][j] for j in range(p)] for i in range(p)]
    coi = R.inverse(cov)
    labs = [f"P{i}" for i in range(p)]
    rng = range(p)

    def frame(m):
        return pd.DataFrame(m, index=labs, columns=labs, dtype=float)

    cov_df, coi_df, cor_df = frame(cov), frame(coi), frame(Rm)
    se_s = pd.Series(se, index=labs, dtype=float)
    sp = [math.sqrt(coi[i][i]) for i in rng]
    tol = 1e-8
    cases = [
        ("calculate_se_from_cov", lambda: M.calculate_se_from_cov(cov_df), "vec", se, se),
        ("calculate_se_from_prec", lambda: M.calculate_se_from_prec(coi_df), "vec", se, se),
        ("calculate_corr_from_cov", lambda: M.calculate_corr_from_cov(cov_df), "mat", Rm, [1.0] * p),
        ("calculate_corr_from_prec", lambda: M.calculate_corr_from_prec(coi_df), "mat", Rm, [1.0] * p),
        ("calculate_cov_from_prec", lambda: M.calculate_cov_from_prec(coi_df), "mat", cov, se),
        ("calculate_cov_from_corrse", lambda: M.calculate_cov_from_corrse(cor_df, se_s), "mat", cov, se),
        ("calculate_prec_from_cov", lambda: M.calculate_prec_from_cov(cov_df), "mat", coi, sp),
        ("calculate_prec_from_corrse", lambda: M.calculate_prec_from_corrse(cor_df, se_s), "mat", coi, sp),
    ]
    for name, fn, kind, want, scale in cases:
        try:
            got = fn()
            if [str(x) for x in got.index] != labs or (kind == "mat" and [str(x) for x in got.columns] != labs):
                fails.append(("math:labels:" + name, f"{name}: labels {list(got.index)} want {labs}"))
                continue
            if kind == "vec":
                g = [float(v) for v in got.values]
                for i in rng:
                    ncmp += 1
                    if not abs(g[i] - want[i]) <= tol * scale[i]:
                        fails.append(("math:" + name, f"{name}[{i}] = {g[i]!r}, by definition {want[i]!r}"))
                        break
            else:
                g = got.values.tolist()
                bad = False
                for i in rng:
                    for j in rng:
                        ncmp += 1
                        if not abs(g[i][j] - want[i][j]) <= tol * scale[i] * scale[j]:
                            fails.append(("math:" + name, f"{name}[{i},{j}] = {g[i][j]!r}, by definition {want[i][j]!r}"))
                            bad = True
                            break
                    if bad:
                        break
        except Exception as e:
            cls, txt = crash_info(e)
            fails.append((cls, f"{name}: " + txt))
    return fails, ncmp


def math_descs(tier):
    out = []
    for p in range(1, 11 if tier == "thorough" else 7):
        for fam in ("I", "equi", "neg", "ar", "gen"):
            for scale in ("one", "geo", "tiny", "big"):
                out.append({"p": p, "fam": fam, "scale": scale})
    return out


TABLE_CHECKS = {"ext": (ext_table_descs, check_ext_table), "phi": (phi_descs, check_phi_table),
                "mat": (matrix_descs, check_matrix_table), "tab": (dollar_descs, check_dollar_table),
                "math": (math_descs, check_math)}


# ============================================================================= (D) run directories
OMEGA_STRUCTS = {
    "d1": [{"size": 1}],
    "d2": [{"size": 1}, {"size": 1}],
    "b2": [{"size": 2}],
    "b2d1": [{"size": 2}, {"size": 1}],
    "d1same": [{"size": 1, "block": True}, {"size": 1, "same": True}],
}
SIGMA_STRUCTS = {"d1": [{"size": 1}], "b2": [{"size": 2}]}


def config_descs(tier):
    """JSON-able configuration descriptors"""
    out = []
    maxth = 6 if tier == "thorough" else 3
    maxfix = 2 if tier == "thorough" else 1
    allupto = 4 if tier == "thorough" else 3
    for nth in range(1, maxth + 1):
        for om in OMEGA_STRUCTS:
            for sg in SIGMA_STRUCTS:
                units = [("t", i) for i in range(nth)]
                units += [("o", i) for i, r in enumerate(OMEGA_STRUCTS[om]) if not r.get("same")]
                units += [("s", i) for i in range(len(SIGMA_STRUCTS[sg]))]
                mf = 1 if nth >= 5 else maxfix  # thorough: subsets of size 2 up to 4 thetas
                sizes = range(0, len(units)) if len(units) <= allupto else range(0, mf + 1)
                ordinal = 0
                for k in sizes:
                    for fixed in itertools.combinations(range(len(units)), k):
                        ordinal += 1
                        for named in (False, True):
                            if tier == "quick" and fixed and named != bool(ordinal % 2):
                                continue  # quick: both namings without fixed units, alternating otherwise
                            out.append({"nth": nth, "om": om, "sg": sg, "fixed": [list(units[i]) for i in fixed],
                                        "named": named})
    return out


def make_config(cd, mu_ref=False, nest=1, cov=True, table=None):
    fixed = {tuple(x) for x in cd["fixed"]}
    named = cd["named"]
    thetas = [{"fix": ("t", i) in fixed, "name": (f"TV{i + 1}" if named and i % 2 == 0 else None)}
              for i in range(cd["nth"])]
    omegas = []
    for i, r in enumerate(OMEGA_STRUCTS[cd["om"]]):
        d = dict(r)
        d["fix"] = ("o", i) in fixed
        if named and not d.get("same"):
            d["names"] = [f"IIV{i + 1}{a + 1}" for a in range(d["size"])]
        omegas.append(d)
    sigmas = []
    for i, r in enumerate(SIGMA_STRUCTS[cd["sg"]]):
        d = dict(r)
        d["fix"] = ("s", i) in fixed
        sigmas.append(d)
    return R.Config(thetas, omegas, sigmas, mu_ref=mu_ref, nest=nest, cov=cov, table=table)


BASE_RUN = {"iters": [0, 3], "rows": "cov", "goal": True, "mat": ["cov", "cor", "coi"], "lst": True,
            "phi": {"nind": 2, "zero": [False, False], "prefix": "ETA", "ids": [1, 2]}, "fam": "gen", "scale": "geo",
            "rot": 0, "nest": 1, "mu": False, "table": None}

TABLE_VARIANTS = [
    {"cols": ["ID", "TIME", "DV", "PRED", "IPRED", "RES", "WRES", "CWRES", "MDV"], "options": "NOAPPEND ONEHEADER NOPRINT",
     "nrows": 6, "repeat": None},
    {"cols": ["ID", "TIME", "IPRED", "CWRES"], "options": "ONEHEADER NOPRINT", "nrows": 6, "repeat": None},
    {"cols": ["ID", "TIME", "IPRED", "CIPREDI", "CWRES"], "options": "NOPRINT", "nrows": 905, "repeat": 900},
    {"cols": ["ID", "TIME", "DV", "PRED", "RES", "WRES"], "options": "NOAPPEND NOPRINT NOTITLE", "nrows": 6, "repeat": None,
     "notitle": True},
    {"cols": ["ID", "TIME", "DV", "PRED", "IPRED", "RES", "CWRES"], "options": "NOAPPEND NOPRINT NOHEADER", "nrows": 6,
     "repeat": None, "notitle": True, "nolabel": True},
    {"cols": ["ID", "TIME", "DV", "PRED", "IPRED", "RES", "CWRES"], "options": "NOAPPEND NOPRINT NOLABEL", "nrows": 6,
     "repeat": None, "nolabel": True},
]


def runs_for(cd, index, tier):
    """output variants of one configuration (list of run descriptors)"""
    runs = []

    def var(**kw):
        r = dict(BASE_RUN)
        r.update(kw)
        runs.append(r)

    # S1: every subset of matrix files (the base run is the full subset)
    for k in range(3, -1, -1):
        for sub in itertools.combinations(["cov", "cor", "coi"], k):
            if tier == "thorough" or not cd["named"] or k in (0, 3):
                var(mat=list(sub))
    # S2: special-row sets x value rotations
    nrot = 6 if tier == "thorough" else 2
    for rows in ("cov_eig", "nocov", "nm72cov", "nm72nocov"):
        var(rows=rows, mat=[], rot=1, phi=None)
    for rot in range(1, nrot):
        var(rows="nocov", mat=[], rot=rot, iters=[0, 1, 2] if rot % 2 else [0], phi=None, goal=bool(rot % 2))
    var(lst=False, phi=None)
    # S3: estimation steps
    var(nest=2, mat=["cov"], rot=2)
    var(nest=2, rows="nocov", mat=[], rot=3, phi={"nind": 1, "zero": [False], "prefix": "ETA", "ids": [4]})
    var(nest=0, rows="nocov", mat=[], lst=False, iters=[], phi=None, rot=4)
    # S4: phi variants (quick: once per structure; thorough: every basic-named configuration)
    if not cd["named"] and (tier == "thorough" or not cd["fixed"]):
        for nind in (1, 2, 3):
            for zero in itertools.product((False, True), repeat=nind):
                for prefix in ("ETA", "PHI"):
                    mu = prefix == "PHI" and (len(zero) + sum(zero)) % 2 == 0
                    var(rows="nocov", mat=[], lst=False, rot=nind,
                        phi={"nind": nind, "zero": list(zero), "prefix": prefix, "ids": [[3], [1, 2], [5, 2, 9]][nind - 1]},
                        mu=mu)
    # S5: covariance matrices
    if len(cd["fixed"]) <= 1 and (tier == "thorough" or not cd["named"]):
        for fam in ("I", "equi", "neg", "ar"):
            for scale in ("one", "tiny", "big"):
                var(fam=fam, scale=scale, mat=["cov", "coi"], phi=None)
        var(fam="gen", scale="tiny", mat=["cov"], phi=None)
        var(fam="gen", scale="tiny", mat=["coi"], phi=None)
    # S6: $TABLE variants
    if not cd["fixed"]:
        for tv in range(len(TABLE_VARIANTS)):
            var(rows="nocov", mat=[], lst=False, phi=None, table=tv, rot=tv)
    return runs


def build_dir(cd, run):
    """-> (files {name: text}, expectation dict, Config)"""
    tv = TABLE_VARIANTS[run["table"]] if run["table"] is not None else None
    table = None
    if tv:
        table = {"cols": tv["cols"], "options": tv["options"]}
    nest = run["nest"]
    cfg = make_config(cd, mu_ref=run["mu"], nest=max(nest, 1), cov=True, table=table)
    text = cfg.control_stream()
    if nest == 0:
        text = text.replace("MAXEVAL=9999", "MAXEVAL=0")
    files = {"run.mod": text, "data.csv": "ID,TIME,DV\n1,0,1.5\n1,1,2.5\n2,0,1.25\n2,1,0.5\n"}
    P = cfg.params
    labels = [p["label"] for p in P]
    rot = run["rot"]
    has_se = run["rows"] in ("cov", "cov_eig", "nm72cov")
    est_mask = [p["kind"] == "est" for p in P]
    mats = full_matrices(labels, est_mask, run["fam"], run["scale"]) if has_se else None

    def val(col, row):
        return ALPHA[(rot + 2 * col + row) % len(ALPHA)]

    def rowvals(row, srcvals=None):
        """values of one estimate row: estimated -> alphabet, fixed -> init, zero -> 0, same -> source"""
        vals = []
        bylabel = {}
        for c, p in enumerate(P):
            if p["kind"] == "est":
                v = val(c, row)
            elif p["kind"] == "fix":
                v = p["init"]
            elif p["kind"] == "zero":
                v = 0.0
            else:
                v = bylabel[p["group"], p["src"]]
            vals.append(v)
            if "ij" in p:
                bylabel[p["group"], p["ij"]] = v
        return vals

    def special_rows(tabno, rowset):
        out = []
        for nm in EXT_ROWSETS[rowset]:
            if nm == "se":
                vals = []
                k = 0
                for p in P:
                    if p["kind"] == "est":
                        vals.append(mats["se"][k])
                        k += 1
                    else:
                        vals.append(1.0e10)
            elif nm == "fixed":
                vals = [0.0 if p["kind"] == "est" else 1.0 for p in P]
            elif nm == "sdcorr":
                vals = [0.0 if p["group"] == "theta" else (val(c, 7 + tabno) if p["kind"] == "est" else
                                                             (math.sqrt(p["init"]) if p["kind"] != "zero" and
                                                              p["init"] > 0 else 0.0))
                        for c, p in enumerate(P)]
            elif nm == "se_sdcorr":
                vals = [0.0 if p["group"] == "theta" else (val(c, 9 + tabno) if p["kind"] == "est" else 1.0e10)
                        for c, p in enumerate(P)]
            elif nm == "term":
                vals = [float(37 * (c == 1)) for c in range(len(P))]
            else:
                vals = [val(c, 11 + len(nm)) for c in range(len(P))]
            out.append((R.SPECIAL[nm], vals, 0.0))
        return out

    tables = []  # (number, method, goal, rows)
    ntab = 2 if nest == 2 else 1
    exp = {"ofv_iter": {}, "pe_iter": {}}
    for t in range(ntab):
        last = t == ntab - 1
        rows = []
        iters = run["iters"] if t == 0 else [0, 5]
        for k, it in enumerate(iters):
            rows.append((it, rowvals(10 * t + k), OBJS[(rot + 3 * t + k) % len(OBJS)]))
        if rows:
            fin = (R.SPECIAL["final"], list(rows[-1][1]), rows[-1][2])
        else:
            fin = (R.SPECIAL["final"], rowvals(10 * t), OBJS[(rot + 3 * t) % len(OBJS)])
        rows.append(fin)
        if last:
            rows += special_rows(t, run["rows"])
        else:  # the covariance step only follows the last estimation
            rows += special_rows(t, "nocov" if "fixed" in EXT_ROWSETS[run["rows"]] else "nm72nocov")
        if nest == 0:
            method = FOCE + " (Evaluation)"
        else:
            method = FOCE if t == 0 else IMP
        goal = (GOAL_MIN if t == 0 else GOAL_FIN) if run["goal"] else None
        tables.append((t + 1, method, goal, rows))
        # expectations
        for it, vals, obj in rows:
            if it >= 0 or (it == R.SPECIAL["final"] and not iters):
                key = (t + 1, it if it >= 0 else 0)
                exp["ofv_iter"][key] = pobj(obj)
                exp["pe_iter"][key] = {p["name"]: p6(v) for p, v in zip(P, vals) if p["kind"] == "est"}
        if last:
            by = {it: (vals, obj) for it, vals, obj in rows}
            fv, fo = by[R.SPECIAL["final"]]
            exp["ofv"] = pobj(fo)
            exp["pe"] = {p["name"]: p6(v) for p, v in zip(P, fv) if p["kind"] == "est"}
            sd = by[R.SPECIAL["sdcorr"]][0]
            exp["pe_sdcorr"] = {p["name"]: p6(fv[c] if p["group"] == "theta" else sd[c])
                                for c, p in enumerate(P) if p["kind"] == "est"}
            if has_se:
                sv = by[R.SPECIAL["se"]][0]
                ss = by[R.SPECIAL["se_sdcorr"]][0]
                exp["se"] = {p["name"]: p6(v) for p, v in zip(P, sv) if p["kind"] == "est"}
                exp["se_sdcorr"] = {p["name"]: p6(sv[c] if p["group"] == "theta" else ss[c])
                                    for c, p in enumerate(P) if p["kind"] == "est"}
            else:
                exp["se"] = exp["se_sdcorr"] = None
    files["run.ext"] = "".join(R.render_ext_table(R.table_line(no, method, goal=goal), labels, rows)
                               for no, method, goal, rows in tables)
    # ---- matrices
    exp["mat"] = {}
    exp["cov_reported"] = bool(has_se and run["lst"])
    if has_se:
        names = {p["label"]: p["name"] for p in P}
        for kind in run["mat"]:
            lastt = tables[-1]
            files["run." + kind] = R.render_matrix_table(R.table_line(lastt[0], lastt[1]), labels, mats[kind])
            want = {}
            for a, la in enumerate(labels):
                if not est_mask[a]:
                    continue
                want[names[la]] = {names[lb]: (1.0 if (kind == "cor" and a == b) else p6(mats[kind][a][b]))
                                   for b, lb in enumerate(labels) if est_mask[b]}
            exp["mat"][kind] = want
    # ---- lst
    if run["lst"]:
        files["run.lst"] = R.render_lst([(no, method.replace(" (Evaluation)", ""), exp["ofv_iter"][max(
            k for k in exp["ofv_iter"] if k[0] == no)]) for no, method, goal, rows in tables], cov_ok=has_se)
    # ---- phi
    exp["phi"] = None
    if run["phi"]:
        pd_ = dict(run["phi"])
        pd_["neta"] = cfg.netas
        pd_["stress"] = False
        txt = ""
        for t in range(ntab):
            pd_["obj"] = t + rot
            pd_["cells"] = [(c + t + rot) % len(ALPHA) for c in (1, 2, 5, 3, 4)]
            inds = phi_case(pd_)
            txt += render_phi(pd_, inds, number=t + 1, method=tables[t][1])
        files["run.phi"] = txt
        iofv, etas, etcs = phi_expect(pd_, inds, cfg.eta_names)
        if pd_["prefix"] == "PHI" and run["mu"]:
            # PHI(1) = MU_1 + ETA(1), MU_1 = THETA(1): final estimate, or the fixed initial value
            th1 = P[0]
            mu1 = exp["pe"][th1["name"]] if th1["kind"] == "est" else th1["init"]
            for idv in etas:
                etas[idv] = dict(etas[idv])
                etas[idv]["ETA_1"] = etas[idv]["ETA_1"] - mu1
            exp["mu1"] = mu1
        exp["phi"] = {"iofv": iofv, "etas": etas, "etcs": etcs}
    # ---- $TABLE
    exp["table"] = None
    if tv:
        cols = list(tv["cols"])
        if "NOAPPEND" not in tv["options"]:
            cols = [c for c in cols if c not in ("PRED", "RES", "WRES")] + ["DV", "PRED", "RES", "WRES"]
        rows = dollar_rows(cols, tv["nrows"], [(c + rot) % len(ALPHA) for c in (1, 4, 2, 5, 3, 0, 1)])
        files["sdtab"] = R.render_dollar_table(1, cols, rows, title=not tv.get("notitle"),
                                               label=not tv.get("nolabel"), repeat_every=tv["repeat"])
        pred = {}
        resid = {}
        for r, row in enumerate(rows):
            d = dict(zip(cols, row))
            pred[r] = {c: p5(d[c]) for c in ("PRED", "CIPREDI", "CPRED", "IPRED") if c in d}
            rr = {c: p5(d[c]) for c in ("RES", "WRES", "CWRES") if c in d}
            if any(v != 0 for v in rr.values()):
                resid[r] = rr
        exp["table"] = {"pred": pred, "resid": resid, "nolabel": bool(tv.get("nolabel"))}
    return files, exp, cfg


def write_dir(path, files):
    os.makedirs(path, exist_ok=True)
    for n, t in files.items():
        with open(os.path.join(path, n), "w") as fh:
            fh.write(t)


# ---------------------------------------------------------------------------- comparing a results object
def allmissing(s):
    if s is None:
        return True
    try:
        return all(isnan(v) for v in s.values)
    except Exception:
        return False


def matrix_relations(res, fails):
    """defining relations among the matrices/SEs that are reported together"""
    n = 0
    cov, cor, coi, se = res.covariance_matrix, res.correlation_matrix, res.precision_matrix, res.standard_errors
    mats = {k: frame_dict(v) for k, v in (("cov", cov), ("cor", cor), ("coi", coi)) if v is not None}
    if not mats:
        return 0
    labs = None
    for k, m in mats.items():
        rl = list(m.keys())
        cl = list(next(iter(m.values())).keys()) if m else []
        if rl != cl:
            fails.append(("rel:labels", f"{k}: row labels {rl} differ from column labels {cl}"))
            return n
        if labs is None:
            labs = rl
        elif rl != labs:
            fails.append(("rel:labels", f"{k}: labels {rl} differ from {labs} of another matrix reported with it"))
            return n
    eps = 1e-4
    sed = ser_dict(se) if se is not None else None
    if "cov" in mats:
        C = mats["cov"]
        if sed is not None and not allmissing(se):
            for a in labs:
                n += 1
                if a not in sed or not feq(sed[a], math.sqrt(C[a][a]) if C[a][a] >= 0 else float("nan"), eps):
                    fails.append(("rel:se", f"standard_errors[{a}] = {sed.get(a)!r} but sqrt(cov[{a},{a}]) = "
                                            f"{math.sqrt(C[a][a]) if C[a][a] >= 0 else C[a][a]!r}"))
                    return n
        if "cor" in mats:
            Rm = mats["cor"]
            for a in labs:
                for b in labs:
                    n += 1
                    want = 1.0 if a == b else C[a][b] / math.sqrt(C[a][a] * C[b][b])
                    if abs(Rm[a][b] - want) > eps:
                        fails.append(("rel:cor", f"correlation_matrix[{a},{b}] = {Rm[a][b]!r} but cov/(sd*sd) = {want!r}"))
                        return n
        if "coi" in mats:
            Pm = mats["coi"]
            for a in labs:
                for b in labs:
                    n += 1
                    s = sum(C[a][k] * Pm[k][b] for k in labs)
                    bound = eps * sum(abs(C[a][k] * Pm[k][b]) for k in labs) + 1e-12
                    if abs(s - (1.0 if a == b else 0.0)) > bound:
                        fails.append(("rel:coi", f"(cov * precision)[{a},{b}] = {s!r}, not the identity (bound {bound:.3g})"))
                        return n
    elif "cor" in mats and "coi" in mats and sed is not None:
        Rm, Pm = mats["cor"], mats["coi"]
        for a in labs:
            for b in labs:
                n += 1
                s = sum(sed[a] * Rm[a][k] * sed[k] * Pm[k][b] for k in labs)
                bound = eps * sum(abs(sed[a] * Rm[a][k] * sed[k] * Pm[k][b]) for k in labs) + 1e-12
                if abs(s - (1.0 if a == b else 0.0)) > bound:
                    fails.append(("rel:coi", f"(D cor D * precision)[{a},{b}] = {s!r}, not the identity"))
                    return n
    return n


def compare_results(res, exp, fails):
    """-> number of compared values"""
    n = 0
    if res is None:
        fails.append(("res:none", "read_modelfit_results returned None although run.ext exists"))
        return 0
    n += 1
    if not feq(res.ofv, exp["ofv"]):
        fails.append(("ofv", f"ofv = {res.ofv!r} but row -1000000000 of the last table says {exp['ofv']!r}"))
    if res.ofv_iterations is None:
        fails.append(("ofv_iterations:none", "ofv_iterations missing"))
    else:
        n += cmp_dict("ofv_iterations", ser_dict(res.ofv_iterations), exp["ofv_iter"], fails)
    for attr, key in (("parameter_estimates", "pe"), ("parameter_estimates_sdcorr", "pe_sdcorr")):
        v = getattr(res, attr)
        if v is None:
            fails.append((attr + ":none", attr + " missing"))
        else:
            n += cmp_dict(attr, ser_dict(v), exp[key], fails)
    v = res.parameter_estimates_iterations
    if v is None:
        fails.append(("parameter_estimates_iterations:none", "parameter_estimates_iterations missing"))
    else:
        n += cmp_frame("parameter_estimates_iterations", frame_dict(v), exp["pe_iter"], fails)
    for attr, key in (("standard_errors", "se"), ("standard_errors_sdcorr", "se_sdcorr")):
        v = getattr(res, attr)
        if exp[key] is None:
            n += 1
            if not allmissing(v):
                fails.append((attr + ":invented", f"{attr} = {ser_dict(v)} although the ext file has no row for it"))
        elif v is None:
            fails.append((attr + ":none", attr + " missing although row -1000000001 exists"))
        else:
            n += cmp_dict(attr, ser_dict(v), exp[key], fails)
    if exp["se"] is not None and res.relative_standard_errors is not None and res.standard_errors is not None:
        rse = ser_dict(res.relative_standard_errors)
        for k, pe in exp["pe"].items():
            if pe != 0 and k in rse:
                n += 1
                if not feq(rse[k], exp["se"][k] / pe, 1e-9):
                    fails.append(("rse", f"relative_standard_errors[{k}] = {rse[k]!r} but se/estimate = {exp['se'][k] / pe!r}"))
                    break
    # matrices
    for kind, attr in (("cov", "covariance_matrix"), ("cor", "correlation_matrix"), ("coi", "precision_matrix")):
        m = getattr(res, attr)
        if kind in exp["mat"] and exp["cov_reported"]:
            if m is None:
                fails.append((attr + ":none", f"{attr} missing although run.{kind} exists and the covariance step succeeded"))
            else:
                n += cmp_frame(attr, frame_dict(m), exp["mat"][kind], fails)
                if list(m.index) != list(m.columns):
                    fails.append((attr + ":labels", f"{attr}: index {list(m.index)} != columns {list(m.columns)}"))
    n += matrix_relations(res, fails)
    # phi
    if exp["phi"] is not None:
        ph = exp["phi"]
        if res.individual_ofv is None or res.individual_estimates is None or res.individual_estimates_covariance is None:
            fails.append(("phi:none", "individual_ofv/estimates/covariance missing although run.phi exists"))
        else:
            n += cmp_dict("individual_ofv", ser_dict(res.individual_ofv), ph["iofv"], fails)
            n += cmp_frame("individual_estimates", frame_dict(res.individual_estimates), ph["etas"], fails, 1e-9)
            got = res.individual_estimates_covariance
            gk = [key_of(k) for k in got.index]
            if gk != list(ph["etcs"].keys()):
                fails.append(("individual_estimates_covariance:index", f"individuals {gk} want {list(ph['etcs'].keys())}"))
            else:
                for k, m in zip(gk, got.values):
                    n += cmp_frame(f"individual_estimates_covariance[{k}]", frame_dict(m), ph["etcs"][k], fails)
    # $TABLE
    if exp["table"] is not None:
        tb = exp["table"]
        lost = False
        if tb["nolabel"] and res.predictions is not None:
            got = frame_dict(res.predictions)
            want = {k - 1: v for k, v in tb["pred"].items() if k > 0}
            probe = []
            if list(got.keys()) == list(want.keys()):
                cmp_frame("predictions", got, want, probe)
                lost = not probe
        if lost:
            n += 1
            fails.append(("table:nolabel_first_record_lost",
                          f"$TABLE without label line (NOLABEL/NOHEADER): predictions has {len(got)} rows for "
                          f"{len(tb['pred'])} written records; row 0 holds the second record - the first record "
                          f"{tb['pred'][0]} was consumed as column header"))
        elif res.predictions is None:
            fails.append(("predictions:none", "predictions missing although the table file exists"))
        else:
            n += cmp_frame("predictions", frame_dict(res.predictions), tb["pred"], fails)
        if any(tb["resid"].values()) and not lost:
            if res.residuals is None:
                fails.append(("residuals:none", "residuals missing although the table file exists"))
            else:
                n += cmp_frame("residuals", frame_dict(res.residuals), tb["resid"], fails)
    return n


# ---------------------------------------------------------------------------- JSON round trip
def same_value(a, b, path, out, rtol=1e-9):
    import pandas as pd

    if len(out) > 40:
        return
    if isinstance(a, pd.DataFrame) or isinstance(b, pd.DataFrame):
        if not (isinstance(a, pd.DataFrame) and isinstance(b, pd.DataFrame)):
            out.append((path, "type", f"{type(a).__name__} became {type(b).__name__}"))
            return
        da, db = frame_dict(a), frame_dict(b)
        if [repr(k) for k in da] != [repr(k) for k in db]:
            out.append((path, "index", f"row labels {list(da)[:6]} became {list(db)[:6]}"))
            return
        if [repr(key_of(c)) for c in a.columns] != [repr(key_of(c)) for c in b.columns]:
            out.append((path, "columns", f"columns {list(a.columns)} became {list(b.columns)}"))
            return
        for k in da:
            for c in da[k]:
                same_value(da[k][c], db[k][c], f"{path}[{k},{c}]", out, rtol)
        return
    if isinstance(a, pd.Series) or isinstance(b, pd.Series):
        if not (isinstance(a, pd.Series) and isinstance(b, pd.Series)):
            out.append((path, "type", f"{type(a).__name__} became {type(b).__name__}"))
            return
        da, db = ser_dict(a), ser_dict(b)
        if [repr(k) for k in da] != [repr(k) for k in db]:
            out.append((path, "index", f"labels {list(da)[:6]} became {list(db)[:6]}"))
            return
        if a.name != b.name and len(da):
            out.append((path, "name", f"name {a.name!r} became {b.name!r}"))
        for k in da:
            same_value(da[k], db[k], f"{path}[{k}]", out, rtol)
        return
    if isnan(a) and isnan(b):
        return
    if isinstance(a, (list, tuple)) and isinstance(b, (list, tuple)):
        if len(a) != len(b):
            out.append((path, "len", f"{a!r} became {b!r}"))
            return
        for i, (x, y) in enumerate(zip(a, b)):
            same_value(x, y, f"{path}[{i}]", out, rtol)
        return
    if isinstance(a, bool) or isinstance(b, bool) or isinstance(a, str) or isinstance(b, str):
        if type(a) is not type(b) and not (isinstance(a, bool) and isinstance(b, bool)):
            try:
                import numpy as np

                if isinstance(a, (bool, np.bool_)) and isinstance(b, (bool, np.bool_)) and bool(a) == bool(b):
                    return
            except Exception:
                pass
            out.append((path, "type", f"{a!r} became {b!r}"))
        elif a != b:
            out.append((path, "value", f"{a!r} became {b!r}"))
        return
    try:
        fa, fb = float(a), float(b)
    except (TypeError, ValueError):
        from pharmpy.workflows.log import Log

        if isinstance(a, Log) and isinstance(b, Log):
            la = [(e.category, e.message) for e in a]
            lb = [(e.category, e.message) for e in b]
            if la != lb:
                out.append((path, "value", f"log {la} became {lb}"))
            return
        if a != b:
            out.append((path, "value", f"{a!r} became {b!r}"))
        return
    if math.isinf(fa) and (fb != fb or fa == fb):
        return  # JSON has no infinity (only arises from pharmpy's own se/estimate division by a zero estimate)
    if not feq(fa, fb, rtol):
        out.append((path, "float", f"{fa!r} became {fb!r} (abs diff {abs(fa - fb):.3g})", fa, fb))


def json_roundtrip(res, fails):
    from pharmpy.workflows.results import read_results

    try:
        s = res.to_json()
        back = read_results(s)
    except Exception as e:
        cls, txt = crash_info(e)
        fails.append(("json:" + cls, "to_json/read_results: " + txt))
        return 0
    if type(back) is not type(res):
        fails.append(("json:type", f"read_results returned {type(back).__name__}"))
        return 0
    n = 0
    diffs = []
    for k, v in vars(res).items():
        n += 1
        same_value(v, getattr(back, k, None), k, diffs)
    if diffs:
        kinds = sorted({d[1] for d in diffs})
        fields = sorted({d[0].split("[")[0] for d in diffs})
        if kinds == ["float"]:
            # every changed number moved by at most half a unit of the 15th decimal place?
            if all(abs(d[3] - d[4]) <= 5.0000001e-16 and 1e-15 <= abs(d[3]) < 1e-3 for d in diffs):
                cls = "json:float:15th_decimal_place"
            else:
                cls = "json:float"
        else:
            cls = "json:" + "+".join(kinds) + ":" + ",".join(fields)
        fails.append((cls, "JSON round trip changed " + "; ".join(f"{d[0]}: {d[2]}" for d in diffs[:3])))
    return n


# ---------------------------------------------------------------------------- one directory case
def run_dir_case(cd, run, tmp, model=None, do_json=True):
    """-> (fails [(class, text)], ncompared, accepted)"""
    from pharmpy.tools import read_modelfit_results
    from pharmpy.tools.external.results import parse_modelfit_results

    files, exp, cfg = build_dir(cd, run)
    d = os.path.join(tmp, "case")
    if os.path.exists(d):
        shutil.rmtree(d)
    write_dir(d, files)
    path = os.path.join(d, "run.mod")
    fails = []
    try:
        if model is None:
            res = read_modelfit_results(path)
        else:
            res = parse_modelfit_results(model, path)
    except Exception as e:
        cls, txt = crash_info(e)
        fails.append((cls, "read_modelfit_results: " + txt))
        return fails, 0, False
    n = compare_results(res, exp, fails)
    if res is not None and do_json:
        n += json_roundtrip(res, fails)
    return fails, n, True


# ============================================================================= runner API
def shards(tier):
    out = []
    cds = config_descs(tier)
    # heavy first: directory shards, a few configurations each
    per = 4 if tier == "thorough" else 3
    for i in range(0, len(cds), per):
        out.append(("dir", i, cds[i:i + per]))
    out.reverse()  # configurations with more thetas are heavier
    for kind, (gen, _) in TABLE_CHECKS.items():
        n = len(gen(tier))
        step = 400
        for a in range(0, n, step):
            out.append(("tab", kind, a, min(n, a + step)))
    out.append(("selftest",))
    return out


def post(tot, tier):
    """deterministic order of the merged lists (workers finish in arbitrary order)"""
    from vlib.core import jdump

    tot["samples"].sort(key=jdump)
    tot["violations"].sort(key=jdump)


def _new_res():
    return {"states": 0, "transitions": 0, "evaluations": 0, "distinct_nontrivial": 0, "violations": [],
            "samples": [], "outcomes": {}, "traces_validated_against_impl": 0, "capped": False}


def _count(res, fails, ncmp, accepted=True):
    res["states"] += 1
    res["evaluations"] += ncmp
    if accepted and ncmp:
        res["distinct_nontrivial"] += 1
    if not fails:
        res["outcomes"]["ok"] = res["outcomes"].get("ok", 0) + 1
    for cls, _ in fails:
        res["outcomes"]["fail:" + cls] = res["outcomes"].get("fail:" + cls, 0) + 1


def run_shard(shard, tier):
    res = _new_res()
    tmp = tempfile.mkdtemp(prefix="verif-c20-")
    try:
        if shard[0] == "selftest":
            nfile, nval, bad = R.selftest(os.path.join(os.environ.get("VERIF_REPO", "/repo"), "tests/testdata/nonmem"))
            res["traces_validated_against_impl"] += nfile - len(bad)
            res["states"] += nfile
            res["evaluations"] += nval
            res["outcomes"]["writer reproduces real file"] = nfile - len(bad)
            for b in bad:
                raise RuntimeError("reference writer does not reproduce real NONMEM file " + b)
            return res
        if shard[0] == "tab":
            _, kind, a, b = shard
            gen, chk = TABLE_CHECKS[kind]
            descs = gen(tier)[a:b]
            for k, desc in enumerate(descs):
                fails, ncmp = chk(desc, tmp)
                res["transitions"] += 1
                _count(res, fails, ncmp)
                for cls, txt in fails:
                    if len(res["violations"]) < 50:
                        res["violations"].append({"kind": "tab", "tkind": kind, "desc": desc, "class": cls,
                                                  "what": f"[{kind} table {short(desc)}] {txt}"})
                if k == 0 and len(res["samples"]) < 1:
                    res["samples"].append({"table": kind, "case": short(desc)})
            return res
        _, first, cds = shard
        from pharmpy.modeling import read_model

        for ci, cd in enumerate(cds):
            models = {}  # control stream text -> parsed model (shared by the output variants of one stream)
            for ri, run in enumerate(runs_for(cd, first + ci, tier)):
                files, _, _ = build_dir(cd, run)
                text = files["run.mod"]
                # one case per configuration goes through read_modelfit_results itself (as every replay does);
                # the others reuse the parsed model: read_modelfit_results == read_model + parse_modelfit_results
                model = None
                if ri > 0:
                    if text not in models:
                        mdir = os.path.join(tmp, "model%d" % len(models))
                        write_dir(mdir, {"run.mod": text, "data.csv": files["data.csv"]})
                        try:
                            models[text] = read_model(os.path.join(mdir, "run.mod"))
                        except Exception:
                            models[text] = None
                    model = models[text]
                # quick: the JSON round trip on every second output variant of the basic-named configurations
                do_json = tier == "thorough" or ri == 0 or (not cd["named"] and ri % 2 == 0)
                fails, ncmp, accepted = run_dir_case(cd, run, tmp, model, do_json)
                res["transitions"] += 1
                _count(res, fails, ncmp, accepted)
                for cls, txt in fails:
                    if len(res["violations"]) < 60:
                        res["violations"].append({"kind": "dir", "cfg": cd, "run": run, "class": cls,
                                                  "what": f"[{short_cfg(cd)} | {short_run(run)}] {txt}"})
                if ri == 0 and ci == 0 and len(res["samples"]) < 1:
                    res["samples"].append({"config": short_cfg(cd), "run": short_run(run)})
        return res
    finally:
        shutil.rmtree(tmp, ignore_errors=True)


def short(desc):
    d = dict(desc)
    if "head" in d:
        h = d.pop("head")
        d["head"] = f"{h['number']}:{h['method']}|{h['design']}|{h['goal']}"
    return ", ".join(f"{k}={v}" for k, v in d.items())


def short_cfg(cd):
    return (f"thetas={cd['nth']} omega={cd['om']} sigma={cd['sg']} fixed={cd['fixed']} "
            f"names={'comments' if cd['named'] else 'basic'}")


def short_run(run):
    keys = ("iters", "rows", "mat", "lst", "nest", "rot", "fam", "scale", "mu", "table", "goal")
    s = " ".join(f"{k}={run[k]}" for k in keys)
    if run["phi"]:
        s += f" phi={run['phi']['prefix']}/{run['phi']['nind']}/{run['phi']['zero']}"
    return s


def replay(w):
    tmp = tempfile.mkdtemp(prefix="verif-c20-")
    try:
        if w["kind"] == "tab":
            fails, _ = TABLE_CHECKS[w["tkind"]][1](w["desc"], tmp)
        else:
            fails, _, _ = run_dir_case(w["cfg"], w["run"], tmp, None)
        return [f"{cls}: {txt}" for cls, txt in fails if cls == w.get("class", cls)]
    finally:
        shutil.rmtree(tmp, ignore_errors=True)


def classify(w):
    """narrow patterns of reproduced pharmpy defects (see proposed_fixes/C20-*.md)"""
    cls = w.get("class", "")
    what = w.get("what", "")
    if (w.get("kind") == "dir" and cls == "crash:ValueError@results.py:_parse_modelfit_results"
            and "np.fill_diagonal(cor.values, 1)" in what and "read-only" in what and "cor" in w["run"]["mat"]):
        # pandas >= 3 (copy-on-write): DataFrame.values is read-only, so every run directory with a .cor
        # file and a successful covariance step makes read_modelfit_results raise
        return "cor_fill_diagonal_on_readonly_values"
    if w.get("kind") == "dir" and cls == "table:nolabel_first_record_lost" and "NO" in TABLE_VARIANTS[
            w["run"]["table"]]["options"] and TABLE_VARIANTS[w["run"]["table"]].get("nolabel"):
        # $TABLE ... NOHEADER / NOLABEL: NONMEMTableFile ignores its nolabel argument and pandas takes the first
        # record as the header line, so every table column starts at the second record
        return "dollar_table_nolabel_first_record_as_header"
    if w.get("kind") == "tab" and cls == "tab:nolabel_first_record_lost" and w["desc"].get("label") is False:
        return "dollar_table_nolabel_first_record_as_header"
    if w.get("kind") == "dir" and cls == "json:float:15th_decimal_place":
        # to_json(double_precision=15) keeps 15 decimal places, not 15 significant digits: numbers between
        # 1e-15 and 1e-3 lose digits (the only changes in this witness are of that size)
        return "json_double_precision_15_decimal_places"
    return None
