"""Narrow classifiers for the known findings of C12."""


def classify(w):
    what = w.get("what", "")
    tail = what.split("] ", 1)[-1]
    if w.get("kind") == "order" and "serialise differently" in what:
        return "compartmental_system_to_dict_depends_on_construction_order"
    if w.get("kind") == "state":
        for comp in ("execution_steps", "datainfo", "random_variables", "generic model"):
            if tail.startswith(comp + " via JSON: from_dict(json.loads"):
                return "from_dict_after_json_keeps_lists_where_tuples_are_compared"
        if tail.startswith("generic model: to_dict() is not JSON compatible") and "iie" in (w.get("history") or [None, []])[1]:
            return "model_to_dict_individual_estimates_integer_keys"
        if tail.startswith("generic code: read_model_from_string(generic.code) != generic model (differs in ") and \
                set(__import__("re").findall(r"'(\w+)'", tail.split("differs in", 1)[1])) <= {"execution_steps", "datainfo", "random_variables"}:
            return "generic_code_roundtrip_loses_execution_step_details"
    return None
