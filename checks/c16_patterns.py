"""Narrow classifiers for the known findings of C16 (see known_findings.json)."""


def _name(op):
    return {"store": lambda: op[2], "final": lambda: "final", "input": lambda: "input"}.get(op[0], lambda: None)()


def classify(w):
    wl = w.get("workload") or []
    what = w.get("what", "")
    if w.get("kind") in ("crash", "exc"):
        st = w.get("state") or {}
        i = st.get("inflight")
        if i is not None and i >= 0 and "PendingTransactionError" in what and "committed entry" in what:
            op = wl[i]
            if op[0] in ("store", "final", "input") and any(o[0] in ("store", "final", "input") and o[1] == op[1] for o in wl[:i]):
                return "same_key_transaction_crash_blocks_committed_entry"
        return None
    # fidelity
    if any(o[0] == "store" and any(c.isspace() for c in o[2]) for o in wl) and "No annotation for" in what:
        return "annotation_name_with_space"
    if any((o[0] == "store" and "\n" in o[3]) or (o[0] == "annot" and "\n" in o[2]) for o in wl):
        return "description_with_newline"
    seen = {}
    for o in wl:
        nm = _name(o)
        if nm is None:
            continue
        if nm in seen and seen[nm] != o[1] and ("not equivalent" in what):
            return "store_key_existing_name_not_repointed"
        seen.setdefault(nm, o[1])
    return None
