"""C18 - search spaces are parsed, combined and enumerated exactly.

Bounded-exhaustive enumeration of model-feature-language descriptions built from a structured
description (so that their explicit meaning is known by construction, vlib/c18_ref.py):

  desc   every sequence of <= L statements over a statement menu, two renderings each
         (separator ';' / newline, upper / lower case, bare / bracketed singles):
         parse -> feature keys == explicit expansion; repr -> parse -> same keys, `==` holds
  pair   every ordered pair of an operand pool: a+b, a-b, a==b, a.contain_subset(b),
         a.least_number_of_transformations(b) against set operations on the expansions
  sets   partitions / subsets of n elements against an independent enumeration (Bell numbers)
  iiv    the brute-force iivsearch workflow builders on models with 1..6 etas
  algo   modelsearch exhaustive / exhaustive_stepwise / reduced_stepwise task lists for every
         search space of a product menu (<= 200 combinations) against the documented rules
"""
from __future__ import annotations

import itertools

from vlib import c18_ref as R

PROPERTY = "C18"
LEVEL = "model_checking"
ENGINE = "enumx"
TECHNIQUE = ("bounded exhaustive enumeration of MFL descriptions, pairs of search spaces and search spaces x algorithms; "
             "every result compared with an explicit set-expansion reference model")
LEVEL_TEXT = (
    "Every description up to the stated number of statements over the stated statement menu, every ordered pair of the "
    "operand pool and every search space of the product menu is generated (no sampling) and each observable (feature keys, "
    "printed form, +, -, ==, contain_subset, least_number_of_transformations, candidate task lists) is compared with a "
    "reference that works on explicitly expanded feature sets; this is the right level because the property quantifies "
    "over all operand shapes and its failure modes (wildcards, DEPOT/NODEPOT, optional covariates, ordering of "
    "peripherals) have witnesses of 1-2 statements."
)
LEVEL_NOTE = (
    "trusted: vlib/c18_ref.py (explicit expansion, documented defaults and exclusion table, set-partition enumerator); the "
    "Lark parser object built from pharmpy's own grammar string is constructed once per process instead of once per "
    "parse() call (validated against the unpatched parse() on the first descriptions of every shard); nothing is claimed "
    "for symbols that need a model (@IIV, wildcard parameters/covariates) nor for spaces outside the menus"
)
PREIMPORT = ("pharmpy.modeling", "pharmpy.tools.mfl.parse", "pharmpy.tools.modelsearch.algorithms",
             "pharmpy.tools.iivsearch.algorithms")
RULE = (
    "desc: all sequences of <= L statement descriptors over the menu (all feature kinds; single/list/range/wildcard options; "
    "COVARIATE with ?, lists, @refs + LET, effect wildcard, operators; ALLOMETRY), each rendered twice; a case is "
    "non-trivial when pharmpy accepted the text and >= 1 category was compared.  pair: all ordered pairs of the operand "
    "pool (all 1-statement descriptions + a strided selection of 2-statement descriptions).  algo: all products of "
    "per-category PK options with <= 200 combinations x <= 3 base combinations (two of the space + the documented default model); stepwise trees only when the reference "
    "has <= cap paths (larger ones are counted as skipped).  states = cases, transitions = pharmpy operations executed"
)
ASSUMPTIONS = [
    "union/difference/subset/equality are read per feature category on the expanded feature keys (a product of categories "
    "is not closed under union of products)",
    "where a difference leaves a category empty the documentation does not say what the result contains: not compared",
    "covariate difference is compared on effects (parameter, covariate, effect, operator); an effect present in both operands "
    "with different optionality is not compared",
    "contain_subset is only compared on pure PK spaces (the default call ignores covariates/PD/metabolite by design)",
    "least_number_of_transformations is only compared when both spaces describe the same categories and no covariates",
    "TRANSITS(0,NODEPOT) and ABSORPTION(FO)+TRANSITS(1,NODEPOT) on a stepwise path are optional (may be absent, not duplicated)",
    "descriptions with two LET of one name, empty arrays and reversed ranges are not generated (documentation silent)",
    "a description that forces one covariate effect twice is documented to be refused; when it is accepted through a LET "
    "reference and only its printed form is refused the case is counted ('forced-twice'), not failed",
    "a description with LET statements only (empty space) is not round-tripped; a grammatical description may only be "
    "refused with ValueError - any other exception of parse() is a failure",
    "mfl_funcs handed to the algorithms are sorted by feature key, as modelsearch.tool.filter_mfl_statements does",
]
BOUNDS = {
    "quick": "desc: full menu (137 statements) L<=2 and small menu (42) L<=3, 2 renderings each; pair: pool of 400 spaces "
             "(160000 ordered pairs x 5 operations); sets n<=7; iiv: 18 models with 1..6 etas; algo: 828 spaces x <= 3 bases, "
             "stepwise trees when the reference has <= 200 paths",
    "thorough": "desc: full menu L<=3 and small menu L<=4; pair: pool of 1500 spaces (2.25e6 ordered pairs); sets n<=9; "
                "iiv: 18 models with 1..6 etas; algo: 3228 spaces x <= 3 bases, stepwise trees when the reference has <= 400 paths",
}

PLAN = {
    "quick": {"desc": [("full", 2), ("small", 3)], "pool": 400, "sets": 7, "algo": "small", "cap": 200},
    "thorough": {"desc": [("full", 3), ("small", 4)], "pool": 1500, "sets": 9, "algo": "large", "cap": 400},
}

_MAXV = 60  # violations kept per shard


# ----------------------------------------------------------------------------- pharmpy access
_lark_cache = {}
_orig_lark = [None]


def _pp():
    import pharmpy.tools.mfl.parse as pp

    return pp


def patch_lark():
    """pharmpy builds a new Lark parser (from its cached grammar) for every parse() call (11 ms);
    build it once per distinct (grammar, options) instead (0.4 ms per parse)."""
    pp = _pp()
    if _orig_lark[0] is None:
        _orig_lark[0] = pp.Lark
    orig = _orig_lark[0]

    def memo(grammar, **kw):
        key = (grammar, tuple(sorted(kw.items())))
        if key not in _lark_cache:
            _lark_cache[key] = orig(grammar, **kw)
        return _lark_cache[key]

    pp.Lark = memo


def unpatch_lark():
    if _orig_lark[0] is not None:
        _pp().Lark = _orig_lark[0]


def P(text):
    return _pp().parse(text, mfl_class=True)


def keys_of(mf):
    return set(mf.convert_to_funcs().keys())


def by_cat(keys):
    out = {c: set() for c in R.ALL_CATS}
    for k in keys:
        out.setdefault(R.cat_of(k), set()).add(k)
    return out


def exc(e):
    return f"{type(e).__name__}: {str(e)[:120]}"


def ecls(e):
    """failure-class suffix for an exception: type and the start of the message (digits and quoted names removed)"""
    import re

    if isinstance(e, KeyError):  # the message is the key itself
        return "KeyError"
    msg = re.sub(r"[0-9]+", "N", str(e).split("\n")[0])[:40]
    return f"{type(e).__name__}:{msg}"


def j(x):
    """JSON-able, deterministic rendering of keys / sets"""
    if isinstance(x, (set, frozenset)):
        return sorted((j(y) for y in x), key=repr)
    if isinstance(x, (tuple, list)):
        return [j(y) for y in x]
    return x


# ----------------------------------------------------------------------------- desc oracle
def check_text(desc, text, m):
    """Oracles for one rendering.  Returns (outcome label, fails, ncompared)."""
    fails = []

    def fail(cls, what):
        fails.append({"class": cls, "what": f"[{text!r}] {what}"})

    try:
        mf = P(text)
    except ValueError as e:  # documented refusal
        return "refused:" + str(e)[:25], fails, 0
    except Exception as e:
        fail("parse-internal:" + ecls(e), f"parse raised {exc(e)} on a grammatical description")
        return "parse-internal", fails, 0
    ncmp = 0
    # allometry attribute
    if len(m.allometry) == 1:
        a = mf.allometry
        want = m.allometry[0]
        got = None if a is None else (a.covariate, a.reference)
        ncmp += 1
        if got != want:
            fail("allometry-attr", f"allometry parsed as {got}, description says {want}")
    try:
        r = repr(mf)
    except Exception as e:
        fail("repr-exception:" + type(e).__name__, f"repr raised {exc(e)}")
        return "repr-exception", fails, ncmp
    if m.unresolved:
        # symbols that only a model defines: the printed form must still parse back to the same printed form
        try:
            r2 = repr(P(r))
        except Exception as e:
            if isinstance(e, ValueError) and m.forced_twice:
                return "forced-twice", fails, ncmp  # see ASSUMPTIONS: an effect forced twice through a LET reference
            fail("roundtrip-parse:" + type(e).__name__, f"printed form {r!r} does not parse: {exc(e)}")
            return "unresolved-ref", fails, ncmp
        ncmp += 1
        if r2 != r:
            fail("roundtrip-text", f"printed form {r!r} parses and prints as {r2!r}")
        return "unresolved-ref", fails, ncmp
    try:
        got = by_cat(keys_of(mf))
    except Exception as e:
        fail("funcs-exception:" + type(e).__name__, f"convert_to_funcs raised {exc(e)}")
        return "funcs-exception", fails, ncmp
    for c in R.ALL_CATS:
        if c in m.unspecified:
            continue
        ncmp += 1
        if got[c] != m.cats[c]:
            fail("keys:" + c, f"category {c}: parsed space has {j(got[c])}, description means {j(m.cats[c])}")
    # printed form parses back to the same space
    if not m.keys() and not m.allometry:
        return "empty-space", fails, ncmp  # only LET statements: nothing to print
    if not r and not m.keys() and m.allometry:
        fail("roundtrip-allometry", f"printed form is empty: the ALLOMETRY statement {m.allometry} is lost")
        return "ok" if not fails else "fail", fails, ncmp
    try:
        mf2 = P(r)
    except ValueError as e:
        if m.forced_twice:
            # an effect forced by two statements is documented to be refused; through a LET reference it is accepted
            # but its printed form is refused - the documentation does not say which of the two is meant
            return "forced-twice", fails, ncmp
        fail("roundtrip-parse:ValueError", f"printed form {r!r} does not parse: {exc(e)}")
        return "fail", fails, ncmp
    except Exception as e:
        fail("roundtrip-parse:" + type(e).__name__, f"printed form {r!r} does not parse: {exc(e)}")
        return "fail", fails, ncmp
    try:
        got2 = by_cat(keys_of(mf2))
    except Exception as e:
        fail("roundtrip-funcs:" + type(e).__name__, f"printed form {r!r}: convert_to_funcs raised {exc(e)}")
        got2 = None
    if got2 is not None:
        for c in R.ALL_CATS:
            ncmp += 1
            if got2[c] != got[c]:
                fail("roundtrip-keys:" + c, f"printed form {r!r} parses to {j(got2[c])} in {c}, the space has {j(got[c])}")
    if m.allometry:
        ncmp += 1
        if mf2.allometry != mf.allometry:
            fail("roundtrip-allometry", f"printed form {r!r} lost the allometry statement {mf.allometry}")
    try:
        same = mf2 == mf
        ncmp += 1
        if same is not True:
            fail("roundtrip-eq-false", f"parse(repr(x)) == x is {same!r}; repr = {r!r}")
    except Exception as e:
        fail("roundtrip-eq-exception:" + ecls(e), f"parse(repr(x)) == x raised {exc(e)}; repr = {r!r}")
    return ("ok" if not fails else "fail"), fails, ncmp


def legal_desc(desc):
    lets = [st[1] for st in desc if st[0] == "LET"]
    return len(lets) == len(set(lets))


def iter_desc(menu, maxlen, first, mod=1, rem=0):
    """all descriptions of length 1..maxlen starting with menu[first]; with mod > 1 only those whose second statement
    has index % mod == rem (the 1-statement description belongs to rem 0)"""
    idx = range(len(menu))
    for n in range(1, maxlen + 1):
        if n == 1:
            if rem == 0:
                yield [menu[first]]
            continue
        for rest in itertools.product(idx, repeat=n - 1):
            if rest[0] % mod != rem:
                continue
            yield [menu[first]] + [menu[i] for i in rest]


# descriptions behind recorded known findings that lie outside the quick tier's enumeration: examined in every run
KNOWN_DESCS = [
    [["COVARIATE", False, ["vals", ["V"]], ["ref", "C"], ["names", ["CAT"]], "*"],
     ["COVARIATE", False, ["vals", ["V"]], ["ref", "C"], ["names", ["CAT"]], "*"],
     ["COVARIATE", True, ["ref", "X"], ["vals", ["WGT"]], ["names", ["EXP", "POW"]], "+"], ["LET", "C", ["WGT", "SEX"]]],
]


def run_desc(shard, res):
    if shard[1] == "known":
        descs = iter(KNOWN_DESCS)
    else:
        _, size, maxlen, first, mod, rem = shard
        menu = R.statement_menu(size)
        descs = iter_desc(menu, maxlen, first, mod, rem)
    nval = 0
    for desc in descs:
        if shard[1] != "known" and not legal_desc(desc):
            continue
        m = R.meaning(desc)
        for si, style in enumerate(R.STYLES):
            text = R.render(desc, style)
            res["states"] += 1
            if nval < 12:  # the memoised parser against the unpatched parse()
                nval += 1
                _validate_patch(text, res)
            label, fails, ncmp = check_text(desc, text, m)
            res["transitions"] += 4
            res["evaluations"] += ncmp
            if ncmp and not label.startswith("refused"):
                res["distinct_nontrivial"] += 1
            res["outcomes"][label] = res["outcomes"].get(label, 0) + 1
            for f in fails:
                key = "fail:" + f["class"]
                res["outcomes"][key] = res["outcomes"].get(key, 0) + 1
                _addv(res, {"kind": "desc", "desc": desc, "style": si, "text": text, "class": f["class"],
                            "what": f["what"]})
            if res["states"] % 1499 == 1 and len(res["samples"]) < 2:
                res["samples"].append(text)


def _validate_patch(text, res):
    def run():
        try:
            return repr(P(text))
        except Exception as e:
            return "EXC " + type(e).__name__

    a = run()
    unpatch_lark()
    try:
        b = run()
    finally:
        patch_lark()
    res["traces_validated_against_impl"] += 1
    if a != b:
        raise RuntimeError(f"memoised Lark parser differs from pharmpy's parse on {text!r}: {a} vs {b}")


def _addv(res, w):
    """keep a few witnesses (first in enumeration order) per (failure class, known-finding pattern): a witness that does not
    match a known pattern is never crowded out by ones that do"""
    seen = res.setdefault("_seen", {})
    try:
        pat = classify(w)
    except Exception:
        pat = None
    key = (w["class"], pat)
    n = seen.get(key, 0)
    seen[key] = n + 1
    if n < 3 and len(res["violations"]) < _MAXV:
        res["violations"].append(w)


# ----------------------------------------------------------------------------- operand pool
def operand_pool(tier):
    """deterministic operand pool: all 1-statement descriptions of the full menu, then a strided selection of the
    2-statement descriptions (i < j) of the medium menu, ordered by (number of combinations, text)"""
    n = PLAN[tier]["pool"]
    full = [s for s in R.statement_menu("full") if s[0] not in ("LET", "ALLOMETRY")]
    singles = [[s] for s in full]
    med = [s for s in R.statement_menu("medium") if s[0] != "ALLOMETRY"]
    doubles = []
    for i in range(len(med)):
        for k in range(i + 1, len(med)):
            d = [med[i], med[k]]
            if not legal_desc(d) or all(s[0] == "LET" for s in d):
                continue
            if any(s[0] == "LET" for s in d) and not any(s[0] == "COVARIATE" and (s[2][0] == "ref" or s[3][0] == "ref")
                                                         for s in d):
                continue
            doubles.append(d)
    pool = [d for d in singles if not R.meaning(d).unresolved]
    doubles = [d for d in doubles if not R.meaning(d).unresolved]
    doubles.sort(key=lambda d: (R.meaning(d).ncombos(), R.render(d, R.STYLES[0])))
    room = max(0, n - len(pool))
    if room and doubles:
        step = max(1, len(doubles) // room)
        pool += doubles[::step][:room]
    return pool


def build_pool(tier):
    """[(desc, text, meaning, ModelFeatures or None)]"""
    out = []
    for d in operand_pool(tier):
        text = R.render(d, R.STYLES[0])
        try:
            mf = P(text)
            keys_of(mf)
        except Exception:
            mf = None  # refusals and defects of single descriptions are reported by the desc shards
        out.append((d, text, R.meaning(d), mf))
    return out


def _pure_pk(m):
    return m.has_pk and not any(m.cats[c] for c in ("PERIPHERALS_MET", "COVARIATE", "DIRECT", "EFFECTCOMP", "INDIRECT",
                                                    "METABOLITE")) and not m.unspecified


def check_pair(ta, ma, a, tb, mb, b, ops=("add", "sub", "eq", "subset", "lnt")):
    """Returns (fails, ncompared, labels)"""
    fails, labels = [], []
    ncmp = 0
    unspec = ma.unspecified | mb.unspecified

    def fail(op, cls, what):
        fails.append({"op": op, "class": f"{op}:{cls}", "what": f"[a={ta!r} b={tb!r}] {what}"})

    def result_keys(op, res):
        try:
            return by_cat(keys_of(res))
        except Exception as e:
            fail(op, "result-unusable:" + ecls(e),
                 f"a {'+' if op == 'add' else '-'} b = {_safe_repr(res)} but convert_to_funcs raises {exc(e)}")
            return None

    # ---- union
    if "add" in ops:
        try:
            res = a + b
        except ValueError:
            res = None
            labels.append("add:refused")
        except Exception as e:
            res = None
            fail("add", "exception:" + ecls(e), f"a + b raised {exc(e)}")
        got = result_keys("add", res) if res is not None else None
        if got is not None:
            want = R.ref_union(ma, mb)
            for c in R.ALL_CATS:
                if c in unspec:
                    continue
                ncmp += 1
                if got[c] != want[c]:
                    fail("add", "keys:" + c, f"a + b = {_safe_repr(res)}: category {c} has {j(got[c])}, "
                                             f"union of the expansions is {j(want[c])}")
    # ---- difference
    if "sub" in ops:
        try:
            res = a - b
        except ValueError:
            res = None
            labels.append("sub:refused")
        except Exception as e:
            res = None
            fail("sub", "exception:" + ecls(e), f"a - b raised {exc(e)}")
        got = result_keys("sub", res) if res is not None else None
        if got is not None:
            for c in R.ALL_CATS:
                if c in unspec:
                    continue
                if c == "COVARIATE":
                    ea, eb, eg = R.cov_effects(ma.cats[c]), R.cov_effects(mb.cats[c]), R.cov_effects(got[c])
                    must = {e: o for e, o in ea.items() if e not in eb}
                    free = {e for e in ea if e in eb and ea[e] != eb[e]}
                    if not must:
                        labels.append("sub:empty-category")
                        continue
                    ncmp += 1
                    bad = [e for e in must if e not in eg or eg[e] != must[e]]
                    extra = [e for e in eg if e not in must and e not in free]
                    if bad or extra:
                        fail("sub", "keys:" + c, f"a - b = {_safe_repr(res)}: covariate effects {j(sorted(eg.items()))}, "
                                                 f"difference of the expansions is {j(sorted(must.items()))}")
                    continue
                want = ma.cats[c] - mb.cats[c]
                if not want:
                    labels.append("sub:empty-category")
                    continue
                ncmp += 1
                if got[c] != want:
                    fail("sub", "keys:" + c, f"a - b = {_safe_repr(res)}: category {c} has {j(got[c])}, "
                                             f"difference of the expansions is {j(want)}")
    # ---- equality
    if "eq" in ops:
        cats = [c for c in R.ALL_CATS if c not in unspec]
        want = all(ma.cats[c] == mb.cats[c] for c in cats)
        if unspec and want:
            labels.append("eq:undetermined")
        else:
            try:
                got = a == b
                ncmp += 1
                if bool(got) != want:
                    diff = [c for c in cats if ma.cats[c] != mb.cats[c]]
                    fail("eq", ("true-for-different:" + ",".join(diff)) if got else "false-for-equal",
                         f"a == b is {got!r} but the expansions are {'equal' if want else 'different in ' + ','.join(diff)}")
            except Exception as e:
                fail("eq", "exception:" + ecls(e), f"a == b raised {exc(e)}")
    # ---- subset (pure PK spaces only)
    if "subset" in ops:
        if _pure_pk(ma) and _pure_pk(mb):
            want = all(mb.cats[c] <= ma.cats[c] for c in R.PK_CATS)
            try:
                got = a.contain_subset(b)
                ncmp += 1
                if got is not want:
                    bad = [c for c in R.PK_CATS if not mb.cats[c] <= ma.cats[c]]
                    fail("subset", ("true-for-nonsubset:" + ",".join(bad)) if got else f"{got!r}-for-subset",
                         f"a.contain_subset(b) is {got!r} but expansion(b) <= expansion(a) is {want}"
                         + (f" (not contained: {j(set().union(*[mb.cats[c] - ma.cats[c] for c in bad]))})" if bad else ""))
            except Exception as e:
                fail("subset", "exception:" + ecls(e), f"a.contain_subset(b) raised {exc(e)}")
        else:
            labels.append("subset:not-pure-pk")
    # ---- least number of transformations
    if "lnt" in ops:
        cats = [c for c in R.ALL_CATS if c != "COVARIATE"]
        if ma.cats["COVARIATE"] or mb.cats["COVARIATE"] or unspec:
            labels.append("lnt:covariates-need-model")
        elif [c for c in cats if ma.cats[c]] != [c for c in cats if mb.cats[c]]:
            labels.append("lnt:different-categories")
        else:
            present = [c for c in cats if ma.cats[c]]
            try:
                got = a.least_number_of_transformations(b)
            except ValueError:
                got = None
                labels.append("lnt:refused")
            except Exception as e:
                got = None
                fail("lnt", "exception:" + ecls(e), f"a.least_number_of_transformations(b) raised {exc(e)}")
            if got is not None:
                disjoint = R.ref_lnt_distance(ma, mb, present)
                na = 1
                for c in present:
                    na *= len(ma.cats[c]) * len(mb.cats[c])
                dist = R.brute_hamming(ma, mb, present) if na <= 4000 else len(disjoint)
                gk = list(got.keys())
                ncmp += 1
                if len(gk) != dist:
                    fail("lnt", "count", f"least_number_of_transformations gives {j(gk)} ({len(gk)}) but the closest pair of "
                                         f"combinations differs in {dist} categories ({','.join(disjoint)})")
                else:
                    gc = sorted(R.cat_of(k) for k in gk)
                    ncmp += 1
                    if gc != sorted(disjoint):
                        fail("lnt", "categories", f"transformations {j(gk)} are not one per disjoint category {disjoint}")
                    elif any(k not in mb.cats[R.cat_of(k)] for k in gk):
                        fail("lnt", "target", f"transformations {j(gk)} do not all lead into b")
    return fails, ncmp, labels


def _safe_repr(x):
    try:
        return repr(x)
    except Exception as e:
        return f"<repr raised {type(e).__name__}>"


def run_pair(shard, tier, res):
    _, lo, hi = shard
    pool = build_pool(tier)
    for ia in range(lo, min(hi, len(pool))):
        da, ta, ma, a = pool[ia]
        if a is None:
            res["outcomes"]["pair:operand-unusable"] = res["outcomes"].get("pair:operand-unusable", 0) + 1
            continue
        for ib, (db, tb, mb, b) in enumerate(pool):
            if b is None:
                continue
            res["states"] += 1
            fails, ncmp, labels = check_pair(ta, ma, a, tb, mb, b)
            res["transitions"] += 5
            res["evaluations"] += ncmp
            if ncmp:
                res["distinct_nontrivial"] += 1
            for lab in labels:
                res["outcomes"][lab] = res["outcomes"].get(lab, 0) + 1
            if not fails:
                res["outcomes"]["pair:ok"] = res["outcomes"].get("pair:ok", 0) + 1
            for f in fails:
                key = "fail:" + f["class"]
                res["outcomes"][key] = res["outcomes"].get(key, 0) + 1
                _addv(res, {"kind": "pair", "a": da, "b": db, "a_text": ta, "b_text": tb, "op": f["op"],
                            "class": f["class"], "what": f["what"]})
            if res["states"] % 4999 == 1 and len(res["samples"]) < 2:
                res["samples"].append(f"{ta}  |  {tb}")


# ----------------------------------------------------------------------------- sets
def check_sets(n):
    from pharmpy.internals.set.partitions import partitions
    from pharmpy.internals.set.subsets import non_empty_proper_subsets, non_empty_subsets, subsets

    fails = []
    ncmp = 0
    for flavour in ("eta", "int"):
        elems = [f"ETA_{i + 1}" for i in range(n)] if flavour == "eta" else list(range(n, 0, -1))
        try:
            got = list(partitions(elems))
        except Exception as e:
            fails.append(("partitions-exception", f"partitions({elems}) raised {exc(e)}"))
            got = None
        if got is not None:
            want = R.set_partitions(elems)
            canon = [frozenset(frozenset(p) for p in part) for part in got]
            ncmp += 3
            if len(got) != R.bell(n):
                fails.append(("partitions-count", f"partitions of {n} elements: {len(got)} results, Bell({n}) = {R.bell(n)}"))
            elif len(set(canon)) != len(canon):
                fails.append(("partitions-duplicate", f"partitions of {n} elements contain a duplicate"))
            elif set(canon) != set(want):
                fails.append(("partitions-set", f"partitions of {n} elements is not the set of set partitions"))
            bad = [part for part in got if sorted(x for p in part for x in p) != sorted(elems)]
            if bad:
                fails.append(("partitions-invalid", f"{bad[0]} is not a partition of {elems}"))
        for name, fn, lo, hi in (("non_empty_subsets", non_empty_subsets, 1, n),
                                 ("non_empty_proper_subsets", non_empty_proper_subsets, 1, n - 1)):
            try:
                g = list(fn(elems))
            except Exception as e:
                fails.append((name + "-exception", f"{name}({elems}) raised {exc(e)}"))
                continue
            w = R.powerset(elems, lo, hi)
            ncmp += 1
            if sorted(map(tuple, g), key=repr) != sorted(w, key=repr):
                fails.append((name, f"{name} of {n} elements: {len(g)} results ({len(set(g))} distinct), expected {len(w)}"))
        for lo in range(0, n + 1):
            for hi in range(lo, n + 1):
                try:
                    g = list(subsets(elems, min_size=lo, max_size=hi))
                except Exception as e:
                    fails.append(("subsets-exception", f"subsets({elems},{lo},{hi}) raised {exc(e)}"))
                    continue
                ncmp += 1
                if sorted(map(tuple, g), key=repr) != sorted(R.powerset(elems, lo, hi), key=repr):
                    fails.append(("subsets", f"subsets of {n} elements with sizes {lo}..{hi} is not the set of all such subsets"))
    return fails, ncmp


def run_sets(shard, res):
    n = shard[1]
    fails, ncmp = check_sets(n)
    res["states"] += 2
    res["transitions"] += 2 * (3 + (n + 1) * (n + 2) // 2)
    res["evaluations"] += ncmp
    res["distinct_nontrivial"] += 2
    res["traces_validated_against_impl"] += 2
    res["outcomes"]["sets:ok" if not fails else "sets:fail"] = 1
    for cls, what in fails:
        _addv(res, {"kind": "sets", "n": n, "class": "sets:" + cls, "what": what})
    res["samples"].append(f"partitions/subsets of {n} elements: Bell = {R.bell(n)}")


# ----------------------------------------------------------------------------- iivsearch builders
def iiv_models():
    """(label, model) with 1..6 etas, diagonal or with blocks"""
    from pharmpy.modeling import (
        add_lag_time,
        add_peripheral_compartment,
        add_pk_iiv,
        create_basic_pk_model,
        create_joint_distribution,
        remove_iiv,
    )

    m = create_basic_pk_model("oral")
    m = add_pk_iiv(add_lag_time(add_peripheral_compartment(m)))
    names = list(m.random_variables.iiv.names)
    out = []
    for n in range(len(names), 0, -1):
        mm = remove_iiv(m, names[n:]) if n < len(names) else m
        out.append((f"{n} etas diagonal", mm))
        if n >= 2:
            out.append((f"{n} etas, block({names[0]},{names[1]})", create_joint_distribution(mm, names[:2])))
        if n >= 4:
            mb = create_joint_distribution(mm, names[1:3])
            mb = create_joint_distribution(mb, [names[0], names[3]])
            out.append((f"{n} etas, block({names[1]},{names[2]}) block({names[0]},{names[3]})", mb))
        if n >= 3:
            out.append((f"{n} etas full block", create_joint_distribution(mm, names[:n])))
    return out


def check_iiv(label, model):
    from pharmpy.tools.iivsearch import algorithms as I

    fails = []
    ncmp = 0
    iivs = model.random_variables.iiv
    names = list(iivs.names)
    structure = frozenset(frozenset(d.names) for d in iivs)
    # number of etas
    for off in (0, 7):
        try:
            wf = I.td_exhaustive_no_of_etas(model, index_offset=off)
        except Exception as e:
            fails.append(("no_of_etas-exception", f"td_exhaustive_no_of_etas raised {exc(e)}"))
            continue
        cands = [t for t in wf.tasks if t.function is I.create_no_of_etas_candidate_entry]
        got = [tuple(t.task_input[1]) for t in cands]
        want = R.powerset(names, 1, len(names))
        ncmp += 2
        if sorted(map(frozenset, got), key=sorted) != sorted(map(frozenset, want), key=sorted):
            fails.append(("no_of_etas-subsets", f"td_exhaustive_no_of_etas removes {len(got)} eta subsets "
                                                f"({len(set(map(frozenset, got)))} distinct), the {len(names)} etas have {len(want)} non-empty subsets"))
        cn = [t.task_input[0] for t in cands]
        if len(set(cn)) != len(cn):
            fails.append(("no_of_etas-names", f"candidate names not unique: {sorted(cn)[:6]}..."))
    # keep=['CL']: every non-empty subset of the other etas
    if "ETA_CL" in names:
        try:
            wf = I.td_exhaustive_no_of_etas(model, keep=["CL"])
            got = [tuple(t.task_input[1]) for t in wf.tasks if t.function is I.create_no_of_etas_candidate_entry]
            rest = [n for n in names if n != "ETA_CL"]
            want = R.powerset(rest, 1, len(rest))
            ncmp += 1
            if sorted(map(frozenset, got), key=sorted) != sorted(map(frozenset, want), key=sorted):
                fails.append(("no_of_etas-keep", f"td_exhaustive_no_of_etas(keep=['CL']) removes {len(got)} eta subsets "
                                                 f"({len(set(map(frozenset, got)))} distinct), the {len(rest)} other etas have "
                                                 f"{len(want)} non-empty subsets"))
        except Exception as e:
            fails.append(("no_of_etas-keep-exception", f"td_exhaustive_no_of_etas(keep=['CL']) raised {exc(e)}"))
    # block structures
    try:
        wf = I.td_exhaustive_block_structure(model)
        cands = [t for t in wf.tasks if t.function is I.create_block_structure_candidate_entry]
        got = [frozenset(frozenset(p) for p in t.task_input[1]) for t in cands]
        allp = R.set_partitions(names)
        want = set(allp) - {structure}
        ncmp += 3
        if len(set(got)) != len(got):
            fails.append(("block-duplicate", f"td_exhaustive_block_structure creates a block structure twice ({len(got)} candidates, "
                                             f"{len(set(got))} distinct)"))
        elif set(got) != want:
            miss = want - set(got)
            extra = set(got) - want
            fails.append(("block-set", f"td_exhaustive_block_structure: {len(got)} candidates, expected the Bell({len(names)})-1 = "
                                       f"{len(want)} partitions other than the base structure; missing {j(list(miss)[:1])} "
                                       f"extra {j(list(extra)[:1])}"))
        bad = [t.task_input[1] for t in cands if sorted(x for p in t.task_input[1] for x in p) != sorted(names)]
        if bad:
            fails.append(("block-invalid", f"{bad[0]} is not a partition of {names}"))
        cn = [t.task_input[0] for t in cands]
        if len(set(cn)) != len(cn):
            fails.append(("block-names", f"candidate names not unique: {sorted(cn)[:6]}..."))
    except Exception as e:
        fails.append(("block-exception", f"td_exhaustive_block_structure raised {exc(e)}"))
    return fails, ncmp


def run_iiv(shard, res):
    models = iiv_models()
    models = [mm for i, mm in enumerate(models) if i % shard[2] == shard[1]]
    for label, model in models:
        fails, ncmp = check_iiv(label, model)
        res["states"] += 1
        res["transitions"] += 3
        res["evaluations"] += ncmp
        res["distinct_nontrivial"] += 1
        res["traces_validated_against_impl"] += 1
        res["outcomes"]["iiv:ok" if not fails else "iiv:fail"] = res["outcomes"].get("iiv:ok" if not fails else "iiv:fail", 0) + 1
        for cls, what in fails:
            _addv(res, {"kind": "iiv", "label": label, "class": "iiv:" + cls, "what": f"[{label}] {what}"})
    res["samples"].append(models[0][0])


# ----------------------------------------------------------------------------- modelsearch algorithms
def algo_menu(size):
    N, W = R.N, R.W
    if size == "small":
        return {
            "ABSORPTION": [None, N("FO"), N("ZO", "FO"), W],
            "ELIMINATION": [None, N("MM"), N("FO", "MM", "ZO")],
            "TRANSITS": [None, [["n", 1], None], [["list", [0, 1, 3]], None], [["list", [0, 1]], W]],
            # [1,3] / [0,2]: a gap in the counts (the next larger count follows on a stepwise path, not count + 1)
            "PERIPHERALS": [None, [["n", 1], None], [["range", 0, 2], None], [["range", 0, 3], None], [["list", [1, 3]], None],
                            [["list", [0, 2]], None]],
            "LAGTIME": [None, N("ON"), W],
        }
    return {
        "ABSORPTION": [None, N("FO"), N("ZO", "FO"), N("SEQ-ZO-FO", "INST"), W],
        "ELIMINATION": [None, N("MM"), N("FO", "MM", "ZO"), W],
        "TRANSITS": [None, [["n", 1], None], [["list", [0, 1, 3]], None], [["list", [0, 1]], W], [["range", 1, 2], N("NODEPOT")],
                     [["list", [1, 3]], N("DEPOT", "NODEPOT")]],
        "PERIPHERALS": [None, [["n", 1], None], [["range", 0, 2], None], [["range", 0, 3], None], [["list", [1, 2]], None],
                        [["list", [0, 2, 3]], None], [["range", 0, 4], None]],
        "LAGTIME": [None, N("ON"), W, N("OFF", "ON")],
    }


def algo_spaces(size):
    menu = algo_menu(size)
    out = []
    for ab, el, tr, pe, lg in itertools.product(*(menu[c] for c in R.PK_CATS)):
        desc = []
        if ab is not None:
            desc.append(["ABSORPTION", ab])
        if el is not None:
            desc.append(["ELIMINATION", el])
        if tr is not None:
            desc.append(["TRANSITS", tr[0], tr[1]])
        if pe is not None:
            desc.append(["PERIPHERALS", pe[0], pe[1]])
        if lg is not None:
            desc.append(["LAGTIME", lg])
        if not desc:
            continue
        m = R.meaning(desc)
        if 1 < m.ncombos() <= 200:
            out.append(desc)
    return out


def bases_of(m):
    """<= 3 base combinations: the one of the space closest to the documented defaults, the last one of the space, and the
    documented default model itself"""
    first, last = [], []
    for c in R.PK_CATS:
        ks = sorted(m.cats[c])
        first.append(R.DEFAULTS[c] if R.DEFAULTS[c] in ks else ks[0])
        last.append(ks[-1])
    out = [tuple(first)]
    if tuple(last) != tuple(first):
        out.append(tuple(last))
    # the documented default model even when it is outside the space (the usual start model: no feature of the space
    # is taken by the base, so e.g. PERIPHERALS([1,3]) keeps both counts)
    dflt = tuple(R.DEFAULTS[c] for c in R.PK_CATS)
    if dflt not in out:
        out.append(dflt)
    return out


def _candidate_chain(wf, A):
    """for every stepwise candidate task: (name, feature, list of features of all upstream candidates in path order when
    the upstream is a chain, set of upstream features)"""
    memo = {}

    def upstream(t):
        # returns (ordered tuple or None if not a chain, frozenset)
        if t in memo:
            return memo[t]
        preds = wf.get_predecessors(t)
        order, feats = (), frozenset()
        chain = True
        parts = []
        for p in preds:
            o, f = upstream(p)
            if p.function is A.create_candidate_stepwise:
                f = f | {tuple(p.task_input[1])}
                o = None if o is None else o + (tuple(p.task_input[1]),)
            parts.append((o, f))
        if len(parts) == 1:
            order, feats = parts[0]
        elif len(parts) > 1:
            chain = False
            feats = frozenset().union(*[f for _, f in parts])
        memo[t] = (order if chain else None, feats)
        return memo[t]

    out = []
    for t in wf.tasks:
        if t.function is A.create_candidate_stepwise:
            o, f = upstream(t)
            out.append((t.task_input[0], tuple(t.task_input[1]), o, f))
    return out


def check_algo(desc, base, cap, algos=("exhaustive", "exhaustive_stepwise", "reduced_stepwise")):
    """Returns (fails, ncompared, labels, ntasks)"""
    from pharmpy.tools.modelsearch import algorithms as A

    text = R.render(desc, R.STYLES[0])
    m = R.meaning(desc)
    fails, labels = [], []
    ncmp = ntasks = 0

    def fail(algo, cls, what, **extra):
        d = {"algo": algo, "class": f"{algo}:{cls}", "what": f"[space {text!r} base {j(base)}] {algo}: {what}"}
        d.update(extra)
        fails.append(d)

    try:
        real = P(text).convert_to_funcs()
    except Exception as e:
        labels.append("algo:space-unusable")
        return fails, 0, labels, 0
    want_keys = m.keys()
    if set(real) != want_keys:
        labels.append("algo:space-keys-differ")  # reported by the desc shards
        return fails, 0, labels, 0
    keys = sorted(want_keys - set(base))
    funcs = {k: real[k] for k in keys}
    if not funcs:
        return fails, 0, ["algo:nothing-to-do"], 0
    # ---------------- exhaustive
    if "exhaustive" in algos:
        try:
            wf, model_tasks = A.exhaustive(funcs, "no_add")
            cands = [t for t in wf.tasks if t.function is A.create_candidate_exhaustive]
            ntasks += len(cands)
            got = [frozenset(map(tuple, t.task_input[1])) for t in cands]
            want = R.exhaustive_combos(keys)
            ncmp += 3
            if len(set(got)) != len(got):
                fail("exhaustive", "duplicate", f"{len(got)} candidates, {len(set(got))} distinct combinations")
            elif set(got) != want:
                miss, extra = want - set(got), set(got) - want
                fail("exhaustive", "missing" if miss else "extra",
                     f"{len(got)} candidates but the space has {len(want)} combinations besides the base; "
                     f"missing e.g. {j(sorted(miss, key=sorted)[:1])} extra e.g. {j(sorted(extra, key=sorted)[:1])}")
            names = [t.task_input[0] for t in cands]
            if len(set(names)) != len(names):
                fail("exhaustive", "names", f"candidate names are not unique: {sorted(names)[:5]}")
            if len(model_tasks) != len(cands):
                fail("exhaustive", "model-tasks", f"{len(model_tasks)} fit tasks for {len(cands)} candidates")
            for t in cands:
                if set(t.task_input[2]) != {funcs[tuple(k)] for k in t.task_input[1]}:
                    fail("exhaustive", "funcs", f"candidate {t.task_input[0]} {j(t.task_input[1])} does not carry the functions of "
                                                "its features")
                    break
        except Exception as e:
            fail("exhaustive", "exception:" + type(e).__name__, f"raised {exc(e)}")
    # ---------------- exhaustive stepwise
    if "exhaustive_stepwise" in algos:
        ref = R.stepwise_paths(keys, cap)
        if ref is None:
            labels.append("stepwise:skipped-over-cap")
        else:
            req, opt = ref
            try:
                wf, model_tasks = A.exhaustive_stepwise(funcs, "no_add")
                cands = _candidate_chain(wf, A)
                ntasks += len(cands)
                paths = []
                for name, feat, order, feats in cands:
                    if order is None:
                        fail("exhaustive_stepwise", "not-a-tree", f"candidate {name} has several parents")
                        break
                    paths.append(order + (feat,))
                else:
                    ncmp += 3
                    _compare_paths("exhaustive_stepwise", paths, req, opt, keys, fail)
                    names = [c[0] for c in cands]
                    if len(set(names)) != len(names):
                        fail("exhaustive_stepwise", "names", f"candidate names are not unique: {sorted(names)[:5]}")
                    if len(model_tasks) != len(cands):
                        fail("exhaustive_stepwise", "model-tasks", f"{len(model_tasks)} fit tasks for {len(cands)} candidates")
            except Exception as e:
                fail("exhaustive_stepwise", "exception:" + type(e).__name__, f"raised {exc(e)}")
    # ---------------- reduced stepwise
    if "reduced_stepwise" in algos:
        ref = R.reduced_pairs(keys, cap)
        if ref is None:
            labels.append("reduced:skipped-over-cap")
        else:
            req, opt = ref
            try:
                wf, model_tasks = A.reduced_stepwise(funcs, "no_add")
                cands = _candidate_chain(wf, A)
                ntasks += len(cands)
                got = [(feats, feat) for _, feat, _, feats in cands]
                ncmp += 3
                cnt = {}
                for g in got:
                    cnt[g] = cnt.get(g, 0) + 1
                dup = sorted((g for g, c in cnt.items() if c > 1), key=lambda g: (len(g[0]), sorted(g[0]), g[1]))
                if dup:
                    S, f = dup[0]
                    # same-feature groups among the parents' layer (models with len(S) features)
                    sets_prev = {}
                    for g in got:
                        if len(g[0]) == len(S) - 1:
                            sets_prev[g[0] | {g[1]}] = sets_prev.get(g[0] | {g[1]}, 0) + 1
                    ngroups = sum(1 for v in sets_prev.values() if v > 1)
                    fail("reduced_stepwise", f"duplicate:groups={ngroups}",
                         f"feature {j(f)} is added {cnt[(S, f)]} times to models with the features {j(S)} "
                         f"(models with the same features are documented to be merged; {ngroups} group(s) of same-feature "
                         f"models in the previous layer)")
                bad = sorted({g for g in got if g not in req and g not in opt}, key=lambda g: (len(g[0]), sorted(g[0]), g[1]))
                miss = sorted(req - set(got), key=lambda g: (len(g[0]), sorted(g[0]), g[1]))
                if bad:
                    S, f = bad[0]
                    fail("reduced_stepwise", "forbidden:" + _why_forbidden(tuple(sorted(S)), f, keys),
                         f"adds {j(f)} to a model with {j(S)}, which the documented rules do not allow",
                         bad_prev=j(sorted(S)), bad_feat=j(f))
                elif miss:
                    S, f = miss[0]
                    fail("reduced_stepwise", "missing", f"never adds {j(f)} to the model with {j(S)} ({len(miss)} steps missing)")
                names = [c[0] for c in cands]
                if len(set(names)) != len(names):
                    fail("reduced_stepwise", "names", f"candidate names are not unique: {sorted(names)[:5]}")
            except Exception as e:
                fail("reduced_stepwise", "exception:" + type(e).__name__, f"raised {exc(e)}")
    return fails, ncmp, labels, ntasks


def _why_forbidden(prev, f, keys):
    if f in prev:
        return "repeated-feature"
    if f[0] == "PERIPHERALS":
        return "peripheral-order"
    if any(g[0] == f[0] for g in prev):
        return "same-category"
    if any(R.excluded_pair(f, g) for g in prev):
        return "excluded-pair"
    return "other"


def _compare_paths(algo, paths, req, opt, keys, fail):
    if len(set(paths)) != len(paths):
        cnt = {}
        for p in paths:
            cnt[p] = cnt.get(p, 0) + 1
        d = sorted(p for p, c in cnt.items() if c > 1)[0]
        fail(algo, "duplicate", f"path {j(d)} is generated {cnt[d]} times")
    bad = sorted((p for p in set(paths) if p not in req and p not in opt), key=lambda p: (len(p), p))
    if bad:
        p = bad[0]
        # first offending step
        why = "other"
        i = 0
        for i in range(len(p)):
            if not R.step_allowed(p[:i], p[i], keys):
                why = _why_forbidden(p[:i], p[i], keys)
                break
        fail(algo, "forbidden:" + why, f"generates the path {j(p)} which the documented rules do not allow ({why}); "
                                      f"{len(bad)} such paths", bad_prev=j(p[:i]), bad_feat=j(p[i]))
        return
    miss = sorted(req - set(paths), key=lambda p: (len(p), p))
    if miss:
        fail(algo, "missing", f"path {j(miss[0])} is allowed by the documented rules but not generated ({len(miss)} missing of "
                              f"{len(req)})")


def run_algo(shard, tier, res):
    _, size, lo, hi = shard
    cap = PLAN[tier]["cap"]
    spaces = algo_spaces(size)
    for desc in spaces[lo:hi]:
        m = R.meaning(desc)
        for base in bases_of(m):
            res["states"] += 1
            fails, ncmp, labels, ntasks = check_algo(desc, base, cap)
            res["transitions"] += ntasks
            res["evaluations"] += ncmp
            res["traces_validated_against_impl"] += 1
            if ncmp:
                res["distinct_nontrivial"] += 1
            for lab in labels:
                res["outcomes"][lab] = res["outcomes"].get(lab, 0) + 1
            if not fails:
                res["outcomes"]["algo:ok"] = res["outcomes"].get("algo:ok", 0) + 1
            for f in fails:
                key = "fail:" + f["class"]
                res["outcomes"][key] = res["outcomes"].get(key, 0) + 1
                w = {"kind": "algo", "desc": desc, "base": j(base), "cap": cap}
                w.update(f)
                _addv(res, w)
            if len(res["samples"]) < 2:
                res["samples"].append(R.render(desc, R.STYLES[0]) + " base " + repr(base))


# ----------------------------------------------------------------------------- runner API
def shards(tier):
    plan = PLAN[tier]
    out = []
    # algorithm shards first (heaviest)
    nsp = len(algo_spaces(plan["algo"]))
    step = 6 if tier == "quick" else 20
    for lo in range(0, nsp, step):
        out.append(("algo", plan["algo"], lo, lo + step))
    for size, maxlen in plan["desc"]:
        n = len(R.statement_menu(size))
        mod = 3 if n ** (maxlen - 1) > 50000 else 1
        for first in range(n):
            for rem in range(mod):
                out.append(("desc", size, maxlen, first, mod, rem))
    out.append(("desc", "known"))
    npool = len(operand_pool(tier))
    pstep = 8 if tier == "quick" else 25
    for lo in range(0, npool, pstep):
        out.append(("pair", lo, lo + pstep))
    for i in range(6):
        out.append(("iiv", i, 6))
    for n in range(plan["sets"], 0, -1):
        out.append(("sets", n))
    return out


def run_shard(shard, tier):
    res = {"states": 0, "transitions": 0, "evaluations": 0, "distinct_nontrivial": 0, "violations": [], "samples": [],
           "outcomes": {}, "traces_validated_against_impl": 0, "capped": False}
    patch_lark()
    kind = shard[0]
    if kind == "desc":
        run_desc(shard, res)
    elif kind == "pair":
        run_pair(shard, tier, res)
    elif kind == "sets":
        run_sets(shard, res)
    elif kind == "iiv":
        run_iiv(shard, res)
    elif kind == "algo":
        run_algo(shard, tier, res)
    res.pop("_seen", None)
    return res


def _tup(x):
    if isinstance(x, list):
        return tuple(_tup(y) for y in x)
    return x


def replay(w):
    """Re-run one witness with pharmpy's own (unpatched) parse()."""
    unpatch_lark()
    kind = w["kind"]
    if kind == "desc":
        desc = w["desc"]
        text = R.render(desc, R.STYLES[w["style"]])
        _, fails, _ = check_text(desc, text, R.meaning(desc))
        return [f["what"] for f in fails if f["class"] == w["class"]]
    if kind == "pair":
        ta, tb = R.render(w["a"], R.STYLES[0]), R.render(w["b"], R.STYLES[0])
        try:
            a, b = P(ta), P(tb)
        except Exception as e:
            return [f"operand does not parse: {exc(e)}"]
        fails, _, _ = check_pair(ta, R.meaning(w["a"]), a, tb, R.meaning(w["b"]), b, ops=(w["op"],))
        return [f["what"] for f in fails if f["class"] == w["class"]]
    if kind == "sets":
        fails, _ = check_sets(w["n"])
        return [what for cls, what in fails if "sets:" + cls == w["class"]]
    if kind == "iiv":
        for label, model in iiv_models():
            if label == w["label"]:
                fails, _ = check_iiv(label, model)
                return [what for cls, what in fails if "iiv:" + cls == w["class"]]
        return []
    if kind == "algo":
        fails, _, _, _ = check_algo(w["desc"], _tup(w["base"]), w.get("cap", 300), algos=(w["algo"],))
        return [f["what"] for f in fails if f["class"] == w["class"]]
    return []


def _mode_wildcard(desc):
    """a '*' in the modes of ABSORPTION / ELIMINATION / LAGTIME / METABOLITE or in the compartment of PERIPHERALS"""
    for st in desc:
        if st[0] in ("ABSORPTION", "ELIMINATION", "LAGTIME", "METABOLITE") and st[1][0] == "wild":
            return True
        if st[0] == "PERIPHERALS" and st[2] is not None and st[2][0] == "wild":
            return True
    return False


def classify(w):
    """Narrow patterns of the genuine defects found on the unchanged tree (proposed_fixes/C18-*.md)."""
    cls, what, kind = w.get("class", ""), w.get("what", ""), w.get("kind")
    wild_te = "'Wildcard' object is not iterable" in what
    if kind == "desc":
        desc = w["desc"]
        if cls.startswith("roundtrip-eq-exception:TypeError") and wild_te and _mode_wildcard(desc):
            return "wildcard-modes-not-expanded"
        if cls.startswith("parse-internal:IndexError") and any(st[0] == "ALLOMETRY" and st[2] is None for st in desc):
            return "allometry-without-reference-indexerror"
        if cls == "roundtrip-allometry" and any(st[0] == "ALLOMETRY" for st in desc):
            return "repr-drops-allometry"
        return None
    if kind == "pair":
        a, b = w["a"], w["b"]
        ma, mb = R.meaning(a), R.meaning(b)
        if cls.split(":")[0] in ("add", "sub", "eq", "lnt") and cls.split(":")[1:3] == ["exception", "TypeError"] \
                and wild_te and (_mode_wildcard(a) or _mode_wildcard(b)):
            return "wildcard-modes-not-expanded"
        if cls == "eq:true-for-different:METABOLITE":
            return "eq-ignores-metabolite"
        if cls in ("eq:true-for-different:COVARIATE", "eq:true-for-different:COVARIATE,METABOLITE") \
                and ma.cats["COVARIATE"] < mb.cats["COVARIATE"]:
            return "eq-covariate-one-directional"
        if cls == "eq:false-for-equal":
            # PERIPHERALS / INDIRECTEFFECT are compared as tuples of statements: same features, written differently
            for kind_ in ("PERIPHERALS", "INDIRECTEFFECT"):
                sa = [st for st in a if st[0] == kind_]
                sb = [st for st in b if st[0] == kind_]
                if sa and sb and sa != sb:
                    return "eq-statementwise-peripherals-indirect"
        if cls.startswith("sub:result-unusable:TypeError") or (cls.startswith("sub:exception:TypeError")
                                                                and "has no len()" in what):
            if any(ma.cats[c] and ma.cats[c] < mb.cats[c] for c in ("DIRECT", "EFFECTCOMP", "METABOLITE")):
                return "sub-emptied-category-object"
        if cls.startswith("lnt:exception:KeyError") and "('INDIRECT', Name(" in what:
            return "lnt-indirect-name-key"
        if cls == "subset:true-for-nonsubset:TRANSITS":
            ca, cb = {k[1] for k in ma.cats["TRANSITS"]}, {k[1] for k in mb.cats["TRANSITS"]}
            da, db = {k[2] for k in ma.cats["TRANSITS"]}, {k[2] for k in mb.cats["TRANSITS"]}
            if cb <= ca and db <= da:
                return "contain-subset-transits-cross-product"
        return None
    if kind == "algo":
        if cls in ("exhaustive_stepwise:forbidden:peripheral-order", "reduced_stepwise:forbidden:peripheral-order"):
            keys = R.meaning(w["desc"]).keys() - {tuple(k) for k in w["base"]}
            levels = sorted(k[1] for k in keys if k[0] == "PERIPHERALS" and len(k) == 2)
            prev = [k[1] for k in w.get("bad_prev", []) if k[0] == "PERIPHERALS"]
            n = w.get("bad_feat", [None, None])[1]
            if len(levels) >= 3 and prev and n in levels and n != min(levels):
                return "stepwise-peripherals-skip-level"
        if cls == "reduced_stepwise:duplicate:groups=1":
            return "reduced-stepwise-single-group-not-merged"
    return None
