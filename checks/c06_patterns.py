"""Narrow classifiers for the known findings of C06."""


def classify(w):
    return None
