"""Narrow classifiers for the known findings of C06."""


def classify(w):
    tail = w.get("what", "").split("] ", 1)[-1]
    if "equality: returns a model that is == its argument but has a different hash" in tail:
        return "model_eq_ignores_fields_that_hash_includes"
    return None
