"""Narrow classifiers for the known findings of C06."""


def classify(w):
    tail = w.get("what", "").split("] ", 1)[-1]
    if "equality: returns a model that is == its argument but has a different hash" in tail:
        return "model_eq_ignores_fields_that_hash_includes"
    labels = w.get("history", [None, []])[1]
    if tail.startswith("create_joint_distribution: returns a model that is not well formed: update_source() raises ValueError: "
                       "Cannot only fix some parameters in block") and "fix_first" in labels:
        return "joint_distribution_of_fixed_and_estimated_variance"
    return None
