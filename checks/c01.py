"""C01 - reading a NONMEM model preserves its meaning (NM-TRAN -> model IR).

Three bounded-exhaustive input spaces (abbreviated code, kinetic library, parameter records);
on each input the meaning of what pharmpy read (vlib.ireval / vlib.xeval on the real objects)
is compared with an independent NM-TRAN interpreter (vlib.nmref) on a finite numeric grid.
"""
from __future__ import annotations

import math
import os
import shutil
import tempfile

PROPERTY = "C01"
LEVEL = "model_checking"
ENGINE = "enumx"
PREIMPORT = ("pharmpy.modeling", "pharmpy.model.external.nonmem.records.factory")
TECHNIQUE = ("bounded exhaustive enumeration of NM-TRAN inputs (expression/statement/record grammars, ADVAN x TRANS x option cross "
             "product) with a reference NM-TRAN interpreter as oracle on a finite numeric grid")
LEVEL_TEXT = (
    "Every input of the three generated spaces is read by the real parser and its meaning evaluated numerically and compared "
    "with an independent interpreter of the same text; exhaustive up to the stated sizes, which is where precedence, "
    "control-flow and parameterisation mistakes live."
)
LEVEL_NOTE = (
    "trusted: vlib/nmcode.py + vlib/nmref.py (reference semantics written from the NONMEM guide rules in DESIGN.md B), "
    "vlib/pkeng.py (event engine shared by both evaluators; validated on real NONMEM output tables pheno.tab PRED/CIPREDI and "
    "against closed-form solutions in the self-test shard), vlib/xeval.py; numeric grid only; SS records not covered"
)
RULE = (
    "expr: all operator combinations of <= 2 binary operators over 4 atoms with signs/parentheses + every intrinsic/protected "
    "function; flow: all programs of <= 3 simple/logical-IF statements + every block-IF template instance (ELSEIF/ELSE/nesting/"
    "two assignments) with prefix/suffix statements; kin: ADVAN{1,2,3,4,10,11,12} x legal TRANS x scaling x lag x F x dose form, "
    "ADVAN5/7 $MODEL graphs, ADVAN6/13 $DES; par: $THETA/$OMEGA record layouts.  Non-trivial = pharmpy accepted the input and "
    ">= 1 defined value was compared."
)
ASSUMPTIONS = [
    "numeric grid: X in {-1.5,0,0.5,2}, THETA scalings {1,0.7,1.3}, eta/eps in {0,+0.3,-0.2,+-0.1}; relative tolerance 1e-7 (ODE 1e-6)",
    "points where NM-TRAN would read an uninitialised variable or leave the real domain are skipped, not failed",
    "pharmpy refusing an input (exception while reading) is counted, not failed",
]
BOUNDS = {"quick": "expr depth 2 (atoms 4), flow length 3, kin quick cross product, par <= 2 records",
          "thorough": "adds parenthesised ternaries, all conditions, two block IFs, all dose forms x options, ADVAN6, 3-item theta records"}

GRID_CODE = [{"X": x, "THETA(1)": th, "ETA(1)": et} for x in (-1.5, 0.0, 0.5, 2.0) for th in (1.3, 0.4) for et in (0.0, 0.3)]


def _chunks(lst, n):
    k = max(1, (len(lst) + n - 1) // n)
    return [lst[i:i + k] for i in range(0, len(lst), k)]


def shards(tier):
    from vlib import nmgen

    out = [("selftest", None)]
    kin = nmgen.kinetic_models(tier)
    for ch in _chunks(kin, 64 if tier == "quick" else 160):
        out.append(("kin", ch))
    ex = nmgen.expressions(tier)
    for ch in _chunks(ex, 24):
        out.append(("expr", ch))
    fl = nmgen.flow_programs(tier)
    for ch in _chunks(fl, 64):
        out.append(("flow", ch))
    th = nmgen.theta_records(tier)
    om = nmgen.omega_records(tier)
    for ch in _chunks(th, 8):
        out.append(("theta", ch))
    for ch in _chunks(om, 8):
        out.append(("omega", ch))
    return out


# ------------------------------------------------------------------------------- code records
def impl_statements(body):
    from pharmpy.model.external.nonmem.records.factory import create_record

    rec = create_record("$PRED\n" + body + "\n")
    return rec.statements


def run_impl_statements(stats, env0):
    """sequential execution of pharmpy statements; returns (env, undefined: dict name -> reason)"""
    from vlib.xeval import Undefined, ev

    env = dict(env0)
    undef = {}
    for s in stats:
        name = str(s.symbol)
        try:
            env[name] = ev(s.expression, env)
            undef.pop(name, None)
        except Undefined as e:
            env.pop(name, None)
            undef[name] = str(e)
    return env, undef


def compare_code(body, family):
    """-> (status, failures).  status in ok / refused:<type> / skipped"""
    from vlib import nmcode
    from vlib.xeval import close

    try:
        prog = nmcode.parse_code(body)
    except (nmcode.ParseError, nmcode.Unsupported) as e:
        return "ref-refused", [], 0
    try:
        stats = impl_statements(body)
    except Exception as e:  # pharmpy refuses the input
        return f"refused:{type(e).__name__}", [], 0
    fails = []
    compared = 0
    for g in GRID_CODE:
        env = nmcode.Env(vec={"THETA": {1: g["THETA(1)"]}, "ETA": {1: g["ETA(1)"]}, "EPS": {1: 0.0}}, data={"X": g["X"]})
        try:
            nmcode.execute(prog, env)
        except nmcode.Undefined:
            continue
        except nmcode.Unsupported:
            return "ref-refused", [], 0
        ienv, undef = run_impl_statements(stats, {"X": g["X"], "THETA(1)": g["THETA(1)"], "ETA(1)": g["ETA(1)"], "EPS(1)": 0.0})
        for name, val in env.vals.items():
            if name in env.tainted:
                continue
            compared += 1
            if name not in ienv:
                fails.append(f"{name}: NM-TRAN value {val!r} but the model value is undefined ({undef.get(name, 'never assigned')}) at {g}")
            elif not close(ienv[name], val, 1e-9):
                fails.append(f"{name} = {ienv[name]!r} in the model, {val!r} by NM-TRAN rules, at {g}")
            if fails:
                break
        if fails:
            break
    return "ok", fails, compared


# ------------------------------------------------------------------------------- kinetic library
def model_from_files(code, data, tmpdir):
    from pharmpy.modeling import read_model

    with open(os.path.join(tmpdir, "data.csv"), "w") as fh:
        fh.write(data)
    path = os.path.join(tmpdir, "m.mod")
    with open(path, "w") as fh:
        fh.write(code)
    return read_model(path)


KIN_POINTS = [
    (1.0, [0.0, 0.0], [0.0, 0.0]),
    (1.0, [0.3, -0.2], [0.1, -0.1]),
    (0.7, [0.0, 0.0], [0.0, 0.0]),
    (1.3, [-0.2, 0.3], [-0.1, 0.1]),
]


def records_from_text(data, cols):
    inds = {}
    order = []
    for line in data.strip().splitlines():
        vals = [float(x) for x in line.split(",")]
        r = dict(zip(cols, vals))
        if r["ID"] not in inds:
            inds[r["ID"]] = []
            order.append(r["ID"])
        inds[r["ID"]].append(r)
    return [inds[i] for i in order]


def compare_kinetic(spec, tmpdir, model=None):
    """-> (status, failures, compared)"""
    from vlib import ireval, nmref
    from vlib.xeval import Undefined as XUndef
    from vlib.xeval import close

    try:
        cs = nmref.ControlStream(spec["code"])
        cs.structure()
    except (nmref.Unsupported, nmref.ParseError) as e:
        return "ref-refused", [f"harness: reference refused: {e}"], 0
    if model is None:
        try:
            model = model_from_files(spec["code"], spec["data"], tmpdir)
        except Exception as e:
            return f"refused:{type(e).__name__}", [], 0
    try:
        me = ireval.ModelEval(model)
    except Exception as e:
        return "failed", [f"the model cannot be evaluated: {type(e).__name__}: {e}"], 0
    nth = spec["ntheta"]
    pnames = model.parameters.names[:nth]
    etas = model.random_variables.etas.names
    epss = model.random_variables.epsilons.names
    inits = [model.parameters[n].init for n in pnames]
    ref_inits = [t["init"] for t in cs.thetas]
    if len(ref_inits) != nth or any(not close(float(a), b) for a, b in zip(inits, ref_inits)):
        return "ok", [f"theta initial values differ: {inits} vs {ref_inits}"], 1
    ref_inds = records_from_text(spec["data"], spec["cols"])
    try:
        ir_inds = ireval.individuals(model, max_ids=len(ref_inds))
    except ireval.Unsupported:
        return "skipped", [], 0
    fails = []
    compared = 0
    for scale, eta, eps in KIN_POINTS:
        theta = [v * scale for v in ref_inits]
        env = {}
        for p in model.parameters:
            env[p.name] = float(p.init)
        for n, v in zip(pnames, theta):
            env[n] = v
        for n, v in zip(etas, eta):
            env[n] = v
        for n, v in zip(epss, eps):
            env[n] = v
        for ri, ii in zip(ref_inds, ir_inds):
            try:
                ref = cs.evaluate(theta, eta, eps, ri)
            except (nmref.Undefined, ArithmeticError):
                continue
            except nmref.Unsupported:
                return "ref-refused", [], compared
            try:
                got = me.run(env, ii)
            except ireval.Unsupported:
                return "skipped", [], compared
            except XUndef as e:
                fails.append(f"the model cannot be evaluated where NM-TRAN can: {e} (scale={scale}, eta={eta})")
                break
            except ArithmeticError as e:
                fails.append(f"model evaluation failed numerically: {e}")
                break
            for k, (r, g) in enumerate(zip(ref, got)):
                if ri[k]["AMT"] != 0:
                    continue
                tainted = r["tainted"]
                for name in ("F", "IPRED", "Y"):
                    if name in tainted or name not in r["vars"]:
                        continue
                    compared += 1
                    if name not in g:
                        if name == "F":
                            continue  # F may be inlined by the reader; IPRED/Y carry it
                        fails.append(f"{name} missing in the model at record {k}")
                    elif not close(g[name], r["vars"][name], 1e-6):
                        fails.append(f"{name} at ID {int(ri[k]['ID'])} TIME {ri[k]['TIME']}: model {g[name]:.10g} vs NM-TRAN {r['vars'][name]:.10g} "
                                     f"(theta x{scale}, eta={eta}, eps={eps})")
                ga = sorted(g[a] for a in me.amount_names) if me.cs is not None else []
                ra = sorted(r["A"])
                compared += 1
                if len(ga) != len(ra) or any(not close(x, y, 1e-6) for x, y in zip(ga, ra)):
                    fails.append(f"compartment amounts at ID {int(ri[k]['ID'])} TIME {ri[k]['TIME']}: model {ga} vs NM-TRAN {ra} (theta x{scale}, eta={eta})")
                if fails:
                    break
            if fails:
                break
        if fails:
            break
    return "ok", fails[:10], compared


# ------------------------------------------------------------------------------- parameter records
def impl_parameters(text):
    from pharmpy.model import DataInfo, Statements
    from pharmpy.model.external.nonmem.nmtran_parser import NMTranParser
    from pharmpy.model.external.nonmem.parsing import parse_parameters

    cs = NMTranParser().parse(text)
    return parse_parameters(cs, Statements(), DataInfo.create([]))


def _inf(x, sign):
    if x is None:
        return sign * math.inf
    x = float(x)
    return x


def compare_theta(recs):
    from vlib import nmref
    from vlib.xeval import close

    text = "$PROBLEM p\n$INPUT ID DV\n$DATA d.csv\n$PRED\nY = THETA(1)\n" + "\n".join(recs) + "\n$OMEGA 1\n$SIGMA 1\n"
    try:
        ref = nmref.ControlStream(text).thetas
    except (nmref.Unsupported, nmref.ParseError) as e:
        return "ref-refused", [], 0
    if any(t["init"] is None for t in ref):
        # (low,,up): NM-TRAN picks an initial value itself - the property does not define it
        check_init = False
    else:
        check_init = True
    try:
        params, rvs, _ = impl_parameters(text)
    except Exception as e:
        return f"refused:{type(e).__name__}", [], 0
    th = [p for p in params if p.name.startswith("THETA") or not (p.name.startswith("OMEGA") or p.name.startswith("SIGMA"))]
    th = list(params)[:len(params) - 2]
    fails = []
    if len(th) != len(ref):
        return "ok", [f"{len(th)} thetas read, NM-TRAN defines {len(ref)}"], 1
    for i, (p, r) in enumerate(zip(th, ref), 1):
        lo, up = _inf(p.lower, -1), _inf(p.upper, 1)
        if r["init"] is not None and check_init and not close(float(p.init), r["init"], 1e-12):
            fails.append(f"THETA({i}) init {p.init} vs {r['init']}")
        if not ((math.isinf(lo) and math.isinf(r["lower"]) and lo == r["lower"]) or close(lo, r["lower"], 1e-12)):
            fails.append(f"THETA({i}) lower bound {p.lower} vs {r['lower']}")
        if not ((math.isinf(up) and math.isinf(r["upper"]) and up == r["upper"]) or close(up, r["upper"], 1e-12)):
            fails.append(f"THETA({i}) upper bound {p.upper} vs {r['upper']}")
        if r["init"] is not None and bool(p.fix) != bool(r["fix"]):
            fails.append(f"THETA({i}) fix {p.fix} vs {r['fix']}")
    return "ok", fails[:10], len(ref)


def compare_omega(recs):
    import numpy as np

    from vlib import nmref
    from vlib.xeval import ev

    text = "$PROBLEM p\n$INPUT ID DV\n$DATA d.csv\n$PRED\nY = THETA(1)\n$THETA 1\n" + "\n".join(recs) + "\n$SIGMA 1\n"
    try:
        blocks = nmref.ControlStream(text).omega_blocks
    except (nmref.Unsupported, nmref.ParseError) as e:
        return "ref-refused", [], 0
    ref = nmref.full_matrix(blocks)
    try:
        params, rvs, _ = impl_parameters(text)
    except Exception as e:
        return f"refused:{type(e).__name__}", [], 0
    fails = []
    etas = rvs.etas
    n = len(etas.names)
    if n != ref.shape[0]:
        return "ok", [f"{n} etas read, NM-TRAN defines {ref.shape[0]} ({[b['size'] for b in blocks]} blocks)"], 1
    env = {p.name: float(p.init) for p in params}
    cm = etas.covariance_matrix
    got = np.zeros((n, n))
    for i in range(n):
        for j in range(n):
            got[i, j] = ev(cm[i, j], env)
    if not np.allclose(got, ref, rtol=1e-9, atol=1e-12):
        fails.append(f"initial covariance matrix of the etas {got.tolist()} vs NM-TRAN {ref.tolist()}")
    # fixedness per eta (diagonal element)
    pos = 0
    for b in blocks:
        for k in range(b["size"]):
            i = pos + k
            sym = cm[i, i]
            fx = all(params[str(s)].fix for s in sym.free_symbols)
            if bool(fx) != bool(b["fix"]):
                fails.append(f"OMEGA({i+1},{i+1}) fix {fx} vs NM-TRAN {b['fix']}")
        pos += b["size"]
    # block structure: etas of different NM-TRAN blocks must be independent, same block -> one joint distribution
    return "ok", fails[:10], n * n


# ------------------------------------------------------------------------------- self test of the oracle
def selftest():
    """closed-form checks of pkeng/nmref (not a verdict about pharmpy: failures are harness errors)"""
    import numpy as np

    from vlib import nmref, pkeng

    n = 0
    # oral one-compartment: Bateman
    ka, k, dose = 0.9, 0.14, 100.0
    M = np.array([[-ka, 0.0], [ka, -k]])
    recs = [{"TIME": 0.0, "AMT": dose}, {"TIME": 1.0, "AMT": 0.0}, {"TIME": 5.0, "AMT": 0.0}]
    am = pkeng.run_individual(recs, 2, lambda kk, r: pkeng.SysVals(2, M=M),
                              lambda kk, r: [pkeng.Dose(0, r["AMT"])] if r["AMT"] else [])
    for r, a in zip(recs, am):
        t = r["TIME"]
        want = dose * ka / (ka - k) * (math.exp(-k * t) - math.exp(-ka * t))
        assert abs(a[1] - want) < 1e-9 * max(1, want), (a, want)
        n += 1
    # infusion into one compartment
    recs = [{"TIME": 0.0, "AMT": dose}, {"TIME": 1.0, "AMT": 0.0}, {"TIME": 6.0, "AMT": 0.0}]
    M1 = np.array([[-k]])
    am = pkeng.run_individual(recs, 1, lambda kk, r: pkeng.SysVals(1, M=M1),
                              lambda kk, r: [pkeng.Dose(0, r["AMT"], rate=25.0)] if r["AMT"] else [])
    T = dose / 25.0
    for r, a in zip(recs, am):
        t = r["TIME"]
        want = 25.0 / k * (1 - math.exp(-k * min(t, T))) * math.exp(-k * max(0.0, t - T))
        assert abs(a[0] - want) < 1e-9 * max(1, want), (a, want)
        n += 1
    # TRANS5/6 and ADVAN11/12 TRANS6 micro constants reproduce the macro constants as eigenvalues
    for advan, trans, vals, eig in [
        (3, 5, {"AOB": 0.7, "ALPHA": 0.5, "BETA": 0.05}, [0.5, 0.05]),
        (3, 6, {"ALPHA": 0.5, "BETA": 0.05, "K21": 0.2}, [0.5, 0.05]),
        (4, 6, {"ALPHA": 0.5, "BETA": 0.05, "K32": 0.2, "KA": 0.9}, [0.5, 0.05, 0.9]),
        (11, 6, {"ALPHA": 1.0, "BETA": 0.2, "GAMMA": 0.03, "K21": 0.5, "K31": 0.05}, [1.0, 0.2, 0.03]),
        (12, 6, {"ALPHA": 1.0, "BETA": 0.2, "GAMMA": 0.03, "K32": 0.5, "K42": 0.05, "KA": 0.9}, [1.0, 0.2, 0.03, 0.9]),
    ]:
        nn, d, o, micro = nmref.advan_structure(advan, trans)
        sysv = nmref._linear(nn, micro(vals))
        ev = sorted(-np.linalg.eigvals(sysv.M).real)
        assert np.allclose(ev, sorted(eig), rtol=1e-9), (advan, trans, ev)
        n += 1
    # TRANS5: A/B ratio of the bolus response in the central compartment equals AOB
    nn, d, o, micro = nmref.advan_structure(3, 5)
    r = micro({"AOB": 0.7, "ALPHA": 0.5, "BETA": 0.05})
    k21 = r[(2, 1)]
    aob = (0.5 - k21) / (k21 - 0.05)
    assert abs(aob - 0.7) < 1e-12
    n += 1
    return n


# ------------------------------------------------------------------------------- runner API
def run_shard(shard, tier):
    res = {"states": 0, "transitions": 0, "evaluations": 0, "distinct_nontrivial": 0, "violations": [], "samples": [],
           "outcomes": {}, "traces_validated_against_impl": 0, "values_compared": 0}
    kind, items = shard

    def note(status):
        res["outcomes"][f"{kind}:{status}"] = res["outcomes"].get(f"{kind}:{status}", 0) + 1

    def record(status, fails, compared, witness, text):
        res["states"] += 1
        res["transitions"] += 1
        res["evaluations"] += 1
        res["traces_validated_against_impl"] += 1
        res["values_compared"] += compared
        if status == "ok" and compared and not fails:
            res["distinct_nontrivial"] += 1
        note(status if not fails else "mismatch")
        for f in fails[:10]:
            w = dict(witness)
            w["what"] = f"[{text}] {f}"
            w["class"] = kind + ":" + f.split(" ")[0][:20]
            res["violations"].append(w)

    if kind == "selftest":
        n = selftest()
        res["oracle_selftest_points"] = n
        res["states"] = 1
        res["transitions"] = 1
        return res
    if kind == "expr":
        for e in items:
            body = f"A = 1.5\nY = {e}"
            status, fails, compared = compare_code(body, "expr")
            record(status, fails, compared, {"kind": "code", "body": body}, f"Y = {e}")
        res["samples"].append(f"Y = {items[0]}")
    elif kind == "flow":
        for fam, body in items:
            status, fails, compared = compare_code(body, fam)
            record(status, fails, compared, {"kind": "code", "body": body, "family": fam}, body.replace("\n", " | "))
        res["samples"].append(items[0][1].replace("\n", " | "))
    elif kind == "theta":
        for recs in items:
            status, fails, compared = compare_theta(recs)
            record(status, fails, compared, {"kind": "theta", "records": recs}, " / ".join(recs))
        res["samples"].append(" / ".join(items[0]))
    elif kind == "omega":
        for recs in items:
            status, fails, compared = compare_omega(recs)
            record(status, fails, compared, {"kind": "omega", "records": recs}, " / ".join(recs).replace("\n", " "))
        res["samples"].append(" / ".join(items[0]))
    elif kind == "kin":
        tmp = tempfile.mkdtemp(prefix="verif-c01-")
        try:
            for spec in items:
                status, fails, compared = compare_kinetic(spec, tmp)
                record(status, fails, compared, {"kind": "kin", "spec": spec}, spec["name"])
        finally:
            shutil.rmtree(tmp, ignore_errors=True)
        res["samples"].append(items[0]["name"])
    return res


def replay(w):
    k = w["kind"]
    if k == "code":
        return compare_code(w["body"], w.get("family"))[1]
    if k == "theta":
        return compare_theta(w["records"])[1]
    if k == "omega":
        return compare_omega(w["records"])[1]
    if k == "kin":
        tmp = tempfile.mkdtemp(prefix="verif-c01-")
        try:
            return compare_kinetic(w["spec"], tmp)[1]
        finally:
            shutil.rmtree(tmp, ignore_errors=True)
    return []


def classify(w):
    from checks import c01_patterns

    return c01_patterns.classify(w)
