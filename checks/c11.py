"""C11 - random-effect algebra keeps names, variances and a valid covariance.

Four bounded-exhaustive enumerations, each compared with a reference written for this purpose
(vlib/c11_ref.py, no pharmpy inside):

A. operation sequences on real ``RandomVariables`` objects (explicit-state search, canonical state
   = ordered blocks + entries): every set partition of <= 5/6 variables into blocks x level
   assignments x entry styles, then every join / unjoin / selection / slice / + / subs up to a depth;
   after every operation names, block structure, order, means, levels, every covariance entry,
   ``variance_parameters`` and ``get_covariance`` are compared with the reference.
B. every symmetric matrix over a small rational grid: exact (Fraction) PSD classification, then
   ``nearest_positive_semidefinite`` / ``RandomVariables.nearest_valid_parameters`` /
   ``Model.create`` / ``Model.replace``: valid values unchanged, invalid ones replaced by Higham's
   nearest PSD matrix.
C. on every positive definite member of the grid: cov<->corr, cov<->precision, se, sd/corr forms.
D. unconstrained-parameter scale: ``calculate_parameters_from_ucp(scale, 0.1) == inits`` for models
   built from every PD member of the grid, for the corpus models and their join/split successors.
"""
from __future__ import annotations

import itertools
import os
from fractions import Fraction

PROPERTY = "C11"
LEVEL = "model_checking"
ENGINE = "seqx"
TECHNIQUE = ("explicit-state bounded exhaustive search over operation sequences on real RandomVariables objects "
             "plus exhaustive enumeration of a rational matrix grid, every observation compared with a reference "
             "model (plain-data block model, exact Fraction linear algebra, Higham projection)")
LEVEL_TEXT = (
    "Every collection of normal/joint-normal distributions up to the stated size (all set partitions, level "
    "assignments, entry styles) and every join/unjoin/select/slice/+/subs sequence up to the stated depth is "
    "executed on the real objects and compared entry by entry with a plain-data reference; every symmetric "
    "matrix over the stated grid is classified PSD/not with exact rational principal minors and pushed through "
    "the repair and conversion functions. Right level: the property is universal over collections, histories "
    "and matrices, its failure modes (index bookkeeping when a middle variable leaves a block, joins across "
    "blocks, boundary PSD matrices, negative covariances) have witnesses with <= 4 variables."
)
LEVEL_NOTE = (
    "trusted: vlib/c11_ref.py (block model, Fraction determinants/inverse), numpy.linalg.eigh/eigvalsh for the "
    "Higham reference and the PSD-within-tolerance test of repaired matrices; floats compared at 1e-7 relative, "
    "'unaltered' compared exactly; nothing is claimed beyond the bounds or for cross-level joins (counted only)"
)
PREIMPORT = ("pharmpy.model", "pharmpy.modeling")
RULE = (
    "A: initial states = all set partitions of n variables into blocks x level assignments {IIV,IOV,RUV} per "
    "block (all for small n, 4 patterns otherwise) x entry styles {all symbols, numeric with non-zero means, "
    "symbols with structural zeros and symbolic means} plus parameter-sharing (IOV-like) states; transitions = "
    "join(S) for every same-level subset S (default, fill symbol, fill number, name_template), unjoin(S) for "
    "every subset, selection by every subset (list/tuple/set/symbols), every slice, + (distribution, joint, "
    "RandomVariables, list, radd), subs (parameter rename, variable rename, parameter->number); states merged by "
    "canonical key; a case is non-trivial when the operation was accepted and >= 1 value was compared. "
    "B: all symmetric n x n matrices over the value grid. C: all exactly positive definite members. "
    "D: one model per PD member x layout {block only, free single eta first, fixed single eta first, shared-variance "
    "IOV etas after} with 4 bounded/unbounded thetas and a fixed theta; corpus models (read from their text) and "
    "their create_joint_distribution / split_joint_distribution / remove_iiv successors; the corpus models' own "
    "random variables are also used as initial states of A"
)
ASSUMPTIONS = [
    "joins across variability levels are executed and counted but not judged (the property is silent)",
    "the position of a block that has to move is not prescribed; only: members keep their relative order, "
    "untouched variables keep their relative order, and nothing moves when nothing has to",
    "documented refusals (ValueError/NotImplementedError/KeyError for unknown names, LinAlgError from Cholesky of "
    "a singular matrix) are counted, never alarms; other exceptions are counted as internal_error outcomes",
    "joint distributions are built with the class constructor (create() spends 0.25 s on a symbolic 5x5 PSD test)",
    "a repaired (previously invalid) matrix is PSD when its smallest eigenvalue (eigvalsh) is >= -1e-12*max(1,|A|)",
]
BOUNDS = {
    "quick": "A: all partitions of n<=5 variables; level assignments: all 3^k for n<=3, 4 patterns for n=4,5; 3 entry "
             "styles; depth 2 for n<=3 and for n=4 (symbolic styles, all-IIV / alternating levels), depth 1 otherwise; "
             "3 parameter-sharing states depth 2; corpus random variables depth 1. B: all 2x2 and 3x3 symmetric "
             "matrices over {0,+-1/2,1,2} (15750) through internals.math, RandomVariables and Model.create/replace. "
             "C/D: all 791 positive definite members (x4 model layouts for D); 30 corpus files x <=8 successors",
    "thorough": "A: n<=6; all 3^k level assignments for n<=4; depth 3 for n<=3 and n=4 (main styles), depth 2 for n=4 "
                "(rest) and n=5 (main styles), depth 1 otherwise. B: additionally all 4x4 matrices over {0,+-1/2,1} "
                "(1048576) through internals.math; C/D on every positive definite member incl. 4x4; corpus as quick",
}

VARS = ("r1", "r2", "r3", "r4", "r5", "r6")  # single letters collide with sympy constants (e -> E)
NEWV = ("r8", "r9")  # variables added by +
RENV = "r0"  # target of the variable rename
LEVELS = ("IIV", "IOV", "RUV")
REFUSALS = (ValueError, NotImplementedError)


# ============================================================================ part A: generation
def level_patterns(k, n, tier):
    full = (n <= 3) if tier == "quick" else (n <= 4)
    if full:
        return [list(p) for p in itertools.product(LEVELS, repeat=k)]
    pats = [["IIV"] * k, [LEVELS[i % 3] for i in range(k)], ["RUV"] + ["IIV"] * (k - 1),
            ["IIV"] * (k - 1) + ["RUV"]]
    out = []
    for p in pats:
        if p not in out:
            out.append(p)
    return out


STYLES = ("sym", "num", "symz")


def init_ref(n, blocks_idx, levels, style):
    """Reference state for an initial descriptor."""
    from vlib.c11_ref import Ref

    names = [VARS[i] for i in range(n)]
    mean = {}
    cov = {}
    for i, a in enumerate(names):
        if style == "num":
            mean[a] = ("n", i + 1)
        elif style == "symz":
            mean[a] = ("s", "M" + a[1:])
        else:
            mean[a] = ("n", 0)
    blocks = []
    for blk, lev in zip(blocks_idx, levels):
        ns = tuple(names[i] for i in blk)
        blocks.append((lev, ns))
        for i in blk:
            for j in blk:
                a, b = names[i], names[j]
                lo, hi = min(i, j), max(i, j)
                if i == j:
                    e = ("n", 40 + i) if style == "num" else ("s", "V" + a[1:])
                elif style == "num":
                    e = ("n", (lo * 6 + hi + 1) / 8.0)
                elif style == "symz" and (lo + hi) % 2 == 1:
                    e = ("n", 0)
                else:
                    e = ("s", "C" + names[lo][1:] + names[hi][1:])
                cov[(a, b)] = e
    return Ref(blocks, mean, cov)


def special_inits():
    """parameter-sharing (IOV-like) states, given directly as Ref"""
    from vlib.c11_ref import Ref

    a, b, c, d, e = VARS[:5]
    out = []
    # two single etas sharing one variance + a third one
    out.append(Ref([("IOV", (a,)), ("IOV", (b,)), ("IIV", (c,))],
                   {a: ("n", 0), b: ("n", 0), c: ("n", 0)},
                   {(a, a): ("s", "VS"), (b, b): ("s", "VS"), (c, c): ("s", "V3")}))
    # two 2-blocks sharing all parameters
    cov = {}
    for x, y in ((a, b), (c, d)):
        cov[(x, x)] = ("s", "VA")
        cov[(y, y)] = ("s", "VB")
        cov[(x, y)] = ("s", "CAB")
        cov[(y, x)] = ("s", "CAB")
    out.append(Ref([("IOV", (a, b)), ("IOV", (c, d))], {k: ("n", 0) for k in (a, b, c, d)}, cov))
    cov2 = dict(cov)
    cov2[(e, e)] = ("s", "V5")
    out.append(Ref([("IIV", (e,)), ("IOV", (a, b)), ("IOV", (c, d))],
                   {k: ("n", 0) for k in (a, b, c, d, e)}, cov2))
    return out


def entry_expr(e):
    from pharmpy.basic import Expr

    if e[0] == "s":
        return Expr.symbol(e[1])
    v = e[1]
    if isinstance(v, int):
        return Expr.integer(v)
    return Expr.float(v)


def build(ref):
    """The real object for a reference state."""
    from pharmpy.basic import Matrix
    from pharmpy.model import JointNormalDistribution, NormalDistribution, RandomVariables

    dists = []
    for lev, ns in ref.blocks:
        if len(ns) == 1:
            # constructor, like pharmpy's own unjoin (create() spends 5 ms in sympy's ask())
            dists.append(NormalDistribution(ns[0], lev, entry_expr(ref.mean[ns[0]]),
                                            entry_expr(ref.cov[(ns[0], ns[0])])))
        else:
            mean = Matrix([entry_expr(ref.mean[n]) for n in ns])
            var = Matrix([[entry_expr(ref.cov[(a, b)]) for b in ns] for a in ns])
            dists.append(JointNormalDistribution(tuple(ns), lev, mean, var))
    return RandomVariables.create(dists)


_DISTS_CACHE = {}


def build_dists(ref):
    k = ref.key()
    if k not in _DISTS_CACHE:
        _DISTS_CACHE[k] = list(build(ref))
    return list(_DISTS_CACHE[k])


def ref_to_json(ref):
    ns = ref.names()
    return {"blocks": [[lev, list(b)] for lev, b in ref.blocks],
            "mean": [[n, list(ref.mean[n])] for n in ns],
            "cov": [[a, b, list(e)] for (a, b), e in sorted(ref.cov.items())]}


def ref_from_json(d):
    from vlib.c11_ref import Ref

    return Ref([(lev, tuple(b)) for lev, b in d["blocks"]],
               {n: tuple(e) for n, e in d["mean"]},
               {(a, b): tuple(e) for a, b, e in d["cov"]})


# ----------------------------------------------------------------------------- op menu
def subsets(items, lo=1):
    for r in range(lo, len(items) + 1):
        yield from itertools.combinations(items, r)


def op_menu(ref, depth, maxvars):
    """All operations applied at a state.  depth 0 states get the argument-form variants too."""
    names = ref.names()
    lev = ref.level_of()
    ops = []
    # join over every same-level subset
    for L in LEVELS:
        grp = [n for n in names if lev[n] == L]
        for S in subsets(grp, 2):
            ops.append(("join", list(S), None))
            if depth == 0:
                ops.append(("join", list(S), ["s", "FILL"]))
                ops.append(("join", list(S), ["t"]))
                ops.append(("join", list(S), ["n", 0.25]))
            elif len(S) == 2:
                ops.append(("join", list(S), ["s", "FILL"]))
        if depth == 0:
            for n in grp:
                ops.append(("join", [n], None))
    if depth == 0:
        # joins across levels: executed and counted only
        for S in subsets(names, 2):
            if len({lev[n] for n in S}) > 1 and len(S) <= 3:
                ops.append(("xjoin", list(S), None))
        # reversed argument order
        if len(names) >= 2 and lev[names[0]] == lev[names[1]]:
            ops.append(("join", [names[1], names[0]], None))
    for S in subsets(names, 1):
        ops.append(("unjoin", list(S), "list"))
    if depth == 0:
        for n in names:
            ops.append(("unjoin", [n], "str"))
            ops.append(("unjoin", [n], "sym"))
        if len(names) >= 2:
            ops.append(("unjoin", [names[-1], names[0]], "syms"))
    for S in subsets(names, 1):
        ops.append(("get", list(S), "list"))
        if depth == 0:
            ops.append(("get", list(S), "set"))
            if len(S) <= 2:
                ops.append(("get", list(S), "tuple"))
                ops.append(("get", list(S), "syms"))
    nb = len(ref.blocks)
    for i in range(nb):
        for j in range(i + 1, nb + 1):
            if (i, j) != (0, nb):
                ops.append(("slice", i, j))
    if NEWV[0] not in names and NEWV[1] not in names and len(names) < maxvars:
        for which in ("norm", "joint", "rvs", "list", "radd"):
            ops.append(("add", which))
    pn = ref.parameter_names()
    if "NEWP" not in pn and ref.variance_parameters():
        ops.append(("subs", "param"))
        ops.append(("subs", "num"))
    if RENV not in names:
        ops.append(("subs", "var"))
        if "NEWP" not in pn and ref.variance_parameters():
            ops.append(("subs", "both"))
    for L in ("etas", "epsilons", "iiv", "iov"):
        ops.append(("level", L))
    return ops


def added_ref(which):
    from vlib.c11_ref import Ref

    y, z = NEWV
    if which in ("norm", "rvs", "radd"):
        return Ref([("IIV", (z,))], {z: ("n", 0)}, {(z, z): ("s", "V9")})
    if which == "joint":
        return Ref([("IIV", (y, z))], {y: ("n", 0), z: ("n", 0)},
                   {(y, y): ("s", "V8"), (z, z): ("s", "V9"), (y, z): ("s", "C89"), (z, y): ("s", "C89")})
    return Ref([("IOV", (y,)), ("RUV", (z,))], {y: ("n", 0), z: ("n", 0)},
               {(y, y): ("s", "V8"), (z, z): ("s", "V9")})


# ----------------------------------------------------------------------------- executing one op
def fmt_ref(ref):
    parts = []
    for lev, ns in ref.blocks:
        if len(ns) == 1:
            parts.append(f"{ns[0]}~{lev}({_fe(ref.cov[(ns[0], ns[0])])})")
        else:
            rows = ";".join(",".join(_fe(ref.cov[(a, b)]) for b in ns) for a in ns)
            parts.append(f"({','.join(ns)})~{lev}[{rows}]")
    return " ".join(parts)


def _fe(e):
    return str(e[1])


def fmt_op(op):
    k = op[0]
    if k in ("join", "xjoin"):
        f = op[2]
        extra = "" if f is None else (", name_template" if f[0] == "t" else f", fill={f[1]}")
        return f"join({op[1]}{extra})"
    if k == "unjoin":
        return f"unjoin({op[1]} as {op[2]})"
    if k == "get":
        return f"rvs[{op[2]} {op[1]}]"
    if k == "slice":
        return f"rvs[{op[1]}:{op[2]}]"
    if k == "add":
        return f"+{op[1]}"
    if k == "subs":
        return f"subs({op[1]})"
    if k == "level":
        return f".{op[1]}"
    return str(op)


def entry_matches(x, e):
    """x: pharmpy Expr; e: reference entry"""
    try:
        if e[0] == "s":
            from pharmpy.basic import Expr

            return bool(x == Expr.symbol(e[1]))
        if bool(x == e[1]):
            return True
        return abs(float(x) - float(e[1])) <= 1e-12 * max(1.0, abs(float(e[1])))
    except Exception:
        return False


def check_state(rvs, ref):
    """Compare every observable of the real object with the reference.  -> (fails, ncompared)"""
    fails = []
    n = 0
    names = ref.names()
    got_names = list(rvs.names)
    n += 1
    if got_names != names:
        return [("names", f"names {got_names} != {names}")], n
    # per distribution
    dists = list(rvs)
    for d, (lev, ns) in zip(dists, ref.blocks):
        n += 2
        if str(d.level) != lev:
            fails.append(("level", f"level of {list(ns)} is {d.level}, reference {lev}"))
        if len(d) != len(ns):
            fails.append(("len", f"len of distribution {list(ns)} is {len(d)}"))
        for k, nm in enumerate(ns):
            m = d.mean if len(ns) == 1 and not hasattr(d.mean, "rows") else d.mean[k]
            n += 1
            if not entry_matches(m, ref.mean[nm]):
                fails.append(("mean", f"mean of {nm} is {m}, reference {ref.mean[nm][1]}"))
    # the overall covariance matrix is the block-diagonal composition
    M = rvs.covariance_matrix
    N = len(names)
    n += 1
    if (M.rows, M.cols) != (N, N):
        fails.append(("cov-shape", f"covariance_matrix is {M.rows}x{M.cols} for {N} variables"))
    else:
        for i, a in enumerate(names):
            for j, b in enumerate(names):
                n += 1
                e = ref.entry(a, b)
                if not entry_matches(M[i, j], e):
                    what = "variance" if i == j else "covariance"
                    fails.append(("cov-entry", f"{what} ({a},{b}) is {M[i, j]}, reference {e[1]}"))
                    if len(fails) > 6:
                        return fails, n
    # get_covariance
    for ia, a in enumerate(names):
        for ib, b in enumerate(names):
            if ib < ia if (ia + ib) % 2 else ib > ia:
                continue  # every unordered pair once, argument order alternating
            n += 1
            try:
                g = rvs.get_covariance(a, b)
            except Exception as ex:
                fails.append(("get_covariance", f"get_covariance({a},{b}): {type(ex).__name__}: {ex}"))
                break
            if not entry_matches(g, ref.entry(a, b)):
                fails.append(("get_covariance", f"get_covariance({a},{b}) is {g}, reference {ref.entry(a, b)[1]}"))
                break
    vp = ref.variance_parameters()
    if vp is not None:
        n += 1
        try:
            g = list(rvs.variance_parameters)
            if g != vp:
                fails.append(("variance_parameters", f"variance_parameters {g} != {vp}"))
        except Exception as ex:
            fails.append(("variance_parameters", f"variance_parameters: {type(ex).__name__}: {ex}"))
    n += 2
    if rvs.nrvs != N:
        fails.append(("nrvs", f"nrvs {rvs.nrvs} != {N}"))
    pn = list(rvs.parameter_names)
    if pn != ref.parameter_names():
        fails.append(("parameter_names", f"parameter_names {pn} != {ref.parameter_names()}"))
    return fails, n


def check_dist(d, ref, ns, what, lev=None):
    """a Distribution returned by rvs[int] / rvs[str] / dist[...] against the reference restricted to ns"""
    fails = []
    if tuple(d.names) != tuple(ns):
        return [("getitem-dist", f"{what} has names {list(d.names)}, reference {list(ns)}")]
    if lev is not None and str(d.level) != lev:
        return [("getitem-dist", f"{what} has level {d.level}, reference {lev}")]
    joint = hasattr(d.variance, "rows")
    for i, a in enumerate(ns):
        m = d.mean[i] if joint else d.mean
        if not entry_matches(m, ref.mean[a]):
            return [("getitem-dist", f"{what}: mean of {a} is {m}, reference {ref.mean[a][1]}")]
        for j, b in enumerate(ns):
            v = d.variance[i, j] if joint else d.variance
            if not entry_matches(v, ref.entry(a, b)):
                fails.append(("getitem-dist", f"{what}: entry ({a},{b}) is {v}, reference {ref.entry(a, b)[1]}"))
                return fails
    return fails


def observe_dist_items(d, ref, lev, ns):
    """indexing a distribution: int, name, every subset, slices"""
    fails = []
    n = 0
    L = len(ns)
    for k in range(L):
        n += 2
        fails.extend(check_dist(d[k], ref, (ns[k],), f"dist{list(ns)}[{k}]", lev))
        fails.extend(check_dist(d[ns[k]], ref, (ns[k],), f"dist{list(ns)}['{ns[k]}']", lev))
    n += 1
    fails.extend(check_dist(d[list(ns)], ref, ns, f"dist{list(ns)}[all names]", lev))
    if L >= 2:
        n += 1
        fails.extend(check_dist(d[-1], ref, (ns[-1],), f"dist{list(ns)}[-1]", lev))
        for S in subsets(list(ns), 1):
            if len(S) == L:
                continue
            n += 1
            fails.extend(check_dist(d[list(S)], ref, S, f"dist{list(ns)}[{list(S)}]", lev))
            if len(S) == 2:
                n += 1
                fails.extend(check_dist(d[(S[1], S[0])], ref, S, f"dist{list(ns)}[{(S[1], S[0])}]", lev))
        for a in range(L):
            for b in range(a + 1, L + 1):
                n += 1
                fails.extend(check_dist(d[a:b], ref, ns[a:b], f"dist{list(ns)}[{a}:{b}]", lev))
    return fails, n


def step(rvs, ref, op, cache=None):
    """Apply one operation to the real object and to the reference.

    -> dict(status, fails, rvs, ref, compared).  status: ok | refused | internal_error | unjudged
    """
    from pharmpy.basic import Expr
    from pharmpy.model import RandomVariables

    from vlib.c11_ref import order_failures

    kind = op[0]
    orig = ref.names()
    touched = None
    exact_order = False
    created_ref = None
    created = None
    try:
        if kind in ("join", "xjoin"):
            S = list(op[1])
            f = op[2]
            kw = {}
            fill = None
            tn = None
            if f is not None:
                if f[0] == "s":
                    kw["fill"] = Expr.symbol(f[1])
                    fill = ("s", f[1])
                elif f[0] == "n":
                    kw["fill"] = f[1]
                    fill = ("n", f[1])
                else:
                    order = [x for x in orig if x in S]
                    kw["name_template"] = "IIV_{}_IIV_{}"
                    kw["param_names"] = ["P" + x.upper() for x in order]
                    tn = {x: "P" + x.upper() for x in order}
            res, created = rvs.join(S, **kw)
            if kind == "xjoin":
                return {"status": "unjudged", "fails": [], "rvs": None, "ref": None, "compared": 0}
            ref2, created_ref = ref.join(S, fill=fill, template_names=tn)
            touched = set(S)
        elif kind == "unjoin":
            S = list(op[1])
            form = op[2]
            if form == "list":
                arg = S
            elif form == "str":
                arg = S[0]
            elif form == "sym":
                arg = Expr.symbol(S[0])
            else:
                arg = [Expr.symbol(x) for x in S]
            res = rvs.unjoin(arg)
            ref2 = ref.unjoin(S)
            touched = set(S)
        elif kind == "get":
            S = list(op[1])
            form = op[2]
            arg = {"list": S, "set": set(S), "tuple": tuple(S)}.get(form)
            if arg is None:
                arg = [Expr.symbol(x) for x in S]
            res = rvs[arg]
            ref2 = ref.select(S)
        elif kind == "slice":
            res = rvs[op[1]:op[2]]
            ref2 = ref.slice(op[1], op[2])
            exact_order = True
        elif kind == "add":
            which = op[1]
            ar = added_ref(which)
            ds = build_dists(ar)
            if which in ("norm", "joint"):
                res = rvs + ds[0]
                ref2 = ref.concat(ar)
            elif which == "rvs":
                res = rvs + RandomVariables.create(ds)
                ref2 = ref.concat(ar)
            elif which == "list":
                res = rvs + ds
                ref2 = ref.concat(ar)
            else:
                res = ds[0] + rvs
                ref2 = ref.concat(ar, front=True)
            exact_order = True
        elif kind == "subs":
            which = op[1]
            vp = ref.variance_parameters()
            d = {}
            pm = {}
            nm = {}
            if which in ("param", "both"):
                d[Expr.symbol(vp[0])] = Expr.symbol("NEWP")
                pm[vp[0]] = ("s", "NEWP")
            if which == "num":
                d[Expr.symbol(vp[-1])] = Expr.integer(7)
                pm[vp[-1]] = ("n", 7)
            if which in ("var", "both"):
                d[Expr.symbol(orig[0])] = Expr.symbol(RENV)
                nm[orig[0]] = RENV
            res = rvs.subs(d)
            ref2 = ref.subs(params=pm, names=nm)
            exact_order = True
        elif kind == "level":
            res = getattr(rvs, op[1])
            want = {"etas": ("IIV", "IOV"), "epsilons": ("RUV",), "iiv": ("IIV",), "iov": ("IOV",)}[op[1]]
            ref2 = ref.by_levels(want)
            exact_order = True
        else:
            raise RuntimeError(f"unknown op {op}")
    except REFUSALS as ex:
        return {"status": "refused", "fails": [], "rvs": None, "ref": None, "compared": 0,
                "note": f"{type(ex).__name__}: {ex}"}
    except RuntimeError:
        raise
    except Exception as ex:
        return {"status": "internal_error", "fails": [], "rvs": None, "ref": None, "compared": 0,
                "note": f"{type(ex).__name__}: {ex}"}

    fails = []
    compared = 1
    got = list(res.names)
    want_names = ref2.names()
    if sorted(got) != sorted(want_names) or len(set(got)) != len(got):
        fails.append(("names-set", f"names after the operation {got}, reference {sorted(want_names)}"))
        return {"status": "ok", "fails": fails, "rvs": None, "ref": None, "compared": compared}
    blocks = [tuple(d.names) for d in res]
    compared += 1
    if {frozenset(b) for b in blocks} != ref2.partition():
        fails.append(("partition", f"blocks after the operation {[list(b) for b in blocks]}, reference "
                                   f"{sorted(sorted(b) for b in ref2.partition())}"))
        return {"status": "ok", "fails": fails, "rvs": None, "ref": None, "compared": compared}
    compared += 1
    if exact_order:
        if got != want_names:
            fails.append(("order-exact", f"names {got}, reference {want_names}"))
    else:
        fails.extend(order_failures(orig, got, blocks, touched))
    ref2 = ref2.reordered(blocks)
    if created_ref is not None:
        compared += 1
        if sorted(created or {}) != sorted(created_ref):
            fails.append(("join-created", f"join reports new covariance parameters {sorted(created or {})}, "
                                          f"reference {sorted(created_ref)}"))
    # observables are functions of the object's value: an equal object already compared with an
    # identical reference state need not be compared again
    k = ref2.key()
    prev = cache.get(k) if cache is not None else None
    if prev is not None and prev == res:
        compared += 1
    else:
        f2, n2 = check_state(res, ref2)
        fails.extend(f2)
        compared += n2
        if not f2 and cache is not None:
            cache[k] = res
    return {"status": "ok", "fails": fails, "rvs": res, "ref": ref2, "compared": compared,
            "blocks": [list(x) for x in blocks]}


def observe_items(rvs, ref):
    """rvs[int], rvs[str], rvs[Expr] return the distribution"""
    from pharmpy.basic import Expr

    fails = []
    n = 0
    for i, (lev, ns) in enumerate(ref.blocks):
        try:
            n += 1
            fails.extend(check_dist(rvs[i], ref, ns, f"rvs[{i}]", lev))
            for nm in ns:
                n += 2
                fails.extend(check_dist(rvs[nm], ref, ns, f"rvs['{nm}']", lev))
                fails.extend(check_dist(rvs[Expr.symbol(nm)], ref, ns, f"rvs[symbol {nm}]", lev))
            f2, n2 = observe_dist_items(rvs[i], ref, lev, ns)
            fails.extend(f2)
            n += n2
        except REFUSALS as ex:
            fails.append(("getitem-dist", f"indexing block {list(ns)} with one of its own names/positions refused: "
                                          f"{type(ex).__name__}: {ex}"))
        except Exception as ex:
            fails.append(("getitem-dist", f"indexing block {list(ns)}: {type(ex).__name__}: {ex}"))
    return fails, n


# ----------------------------------------------------------------------------- search
def new_result():
    return {"states": 0, "transitions": 0, "evaluations": 0, "distinct_nontrivial": 0,
            "violations": [], "samples": [], "outcomes": {}, "traces_validated_against_impl": 0,
            "capped": False}


def bump(res, label, k=1):
    res["outcomes"][label] = res["outcomes"].get(label, 0) + k


def add_violation(res, w):
    """keep at most 40 witnesses per (failure class, triage pattern) and shard, so that a flood of one
    finding can never crowd out a different one"""
    try:
        pat = classify(w)
    except Exception:
        pat = None
    k = f"{w.get('class')}|{pat}"
    cnt = res.setdefault("_vcount", {})
    cnt[k] = cnt.get(k, 0) + 1
    if cnt[k] <= 40:
        res["violations"].append(w)


def search(res, init_desc, ref0, maxdepth, maxvars, rvs0=None):
    """BFS from one initial state; visited set (and the cache of already compared equal objects)
    local to this initial state, so that all counts are independent of shard scheduling."""
    cache = {}
    if rvs0 is None:
        rvs0 = build(ref0)
    f0, n0 = check_state(rvs0, ref0)
    res["states"] += 1
    res["evaluations"] += n0
    for cls, text in f0:
        add_violation(res, {"part": "A", "init": init_desc, "ops": [], "class": "A:" + cls,
                            "what": f"[{fmt_ref(ref0)}] initial state: {text}"})
    seen = {ref0.key()}
    frontier = [(rvs0, ref0, [])]
    for depth in range(maxdepth):
        nxt = []
        for rvs, ref, path in frontier:
            fi, ni = observe_items(rvs, ref)
            res["evaluations"] += ni
            for cls, text in fi:
                add_violation(res, {"part": "A", "init": init_desc, "ops": path, "class": "A:" + cls, "observe": True,
                                    "what": f"[{fmt_ref(ref0)}] {' ; '.join(fmt_op(o) for o in path)}: {text}"})
            for op in op_menu(ref, depth, maxvars):
                out = step(rvs, ref, op, cache)
                res["transitions"] += 1
                res["evaluations"] += out["compared"]
                st = out["status"]
                if st != "ok":
                    bump(res, f"A:{op[0]}:{st}")
                    continue
                res["traces_validated_against_impl"] += 1
                if out["compared"] > 0:
                    res["distinct_nontrivial"] += 1
                if out["fails"]:
                    bump(res, f"A:{op[0]}:fail")
                    seen_cls = set()
                    for cls, text in out["fails"]:
                        if cls in seen_cls:
                            continue
                        seen_cls.add(cls)
                        add_violation(res, {
                            "part": "A", "init": init_desc, "ops": path + [list(op)], "class": "A:" + cls,
                            "opkind": op[0], "before": [list(ns) for _, ns in ref.blocks],
                            "after": out.get("blocks"),
                            "what": f"[{fmt_ref(ref0)}] " + " ; ".join(fmt_op(o) for o in path + [op]) + f": {text}"})
                else:
                    bump(res, f"A:{op[0]}:ok")
                if out["ref"] is None or op[0] == "level":
                    continue
                k = out["ref"].key()
                if k in seen:
                    continue
                seen.add(k)
                res["states"] += 1
                if depth + 1 < maxdepth:
                    nxt.append((out["rvs"], out["ref"], path + [list(op)]))
        frontier = nxt


def init_descs(tier):
    """-> list of (n, blocks_idx, levels, style, maxdepth)"""
    from vlib.c11_ref import set_partitions

    nmax = 5 if tier == "quick" else 6
    out = []
    for n in range(1, nmax + 1):
        for blocks in set_partitions(n):
            pats = level_patterns(len(blocks), n, tier)
            for pi, levels in enumerate(pats):
                for style in STYLES:
                    if n >= 5 and style == "num" and levels != ["IIV"] * len(blocks):
                        continue
                    alliiv = levels == ["IIV"] * len(blocks)
                    main = (style == "sym" and (alliiv or pi == 1)) or (style == "symz" and alliiv)
                    if tier == "quick":
                        depth = 2 if n <= 3 or (n == 4 and main) else 1
                    else:
                        depth = 3 if n <= 3 or (n == 4 and main) else (2 if n == 4 or (n == 5 and main) else 1)
                    out.append((n, blocks, levels, style, depth))
    return out


# ============================================================================ part B/C: matrices
GRID5 = (0.0, 0.5, -0.5, 1.0, 2.0)
GRID4 = (0.0, 0.5, -0.5, 1.0)


def mat_names(n):
    nm = [[None] * n for _ in range(n)]
    for i in range(n):
        for j in range(i + 1):
            s = ("V%d" % i) if i == j else ("C%d%d" % (j, i))
            nm[i][j] = s
            nm[j][i] = s
    return nm


_MAT_CACHE = {}


def mat_fixture(n):
    """symbolic full block of size n + a second (valid) block + theta + sigma"""
    if n in _MAT_CACHE:
        return _MAT_CACHE[n]
    from pharmpy.basic import Expr, Matrix
    from pharmpy.model import JointNormalDistribution, NormalDistribution, Parameter, Parameters, RandomVariables

    nm = mat_names(n)
    names = tuple("ETA%d" % i for i in range(n))
    d1 = JointNormalDistribution(names, "IIV", Matrix([0] * n), Matrix(nm))
    d2 = JointNormalDistribution(("ETAX", "ETAY"), "IIV", Matrix([0, 0]), Matrix([["WX", "WXY"], ["WXY", "WY"]]))
    d3 = NormalDistribution("EPS", "RUV", Expr.integer(0), Expr.symbol("SIG"))
    rvs1 = RandomVariables.create([d1])
    rvs = RandomVariables.create([d1, d2, d3])
    others = {"TH": 1.5, "WX": 1.0, "WXY": -0.5, "WY": 1.0, "SIG": 0.3}
    base = [Parameter.create("TH", 1.5, lower=0.0)]
    for i in range(n):
        for j in range(i + 1):
            base.append(Parameter.create(nm[i][j], 1.0 if i == j else 0.0))
    for k in ("WX", "WXY", "WY", "SIG"):
        base.append(Parameter.create(k, others[k]))
    base = Parameters.create(base)
    # the same covariance parameters in two blocks (the layout of inter-occasion variability: one block of etas per occasion)
    d1a = JointNormalDistribution(tuple("OCA%d" % i for i in range(n)), "IOV", Matrix([0] * n), Matrix(nm))
    d1b = JointNormalDistribution(tuple("OCB%d" % i for i in range(n)), "IOV", Matrix([0] * n), Matrix(nm))
    fx = {"nm": nm, "rvs1": rvs1, "rvs": rvs, "base": base, "others": others, "rvs_without_block": RandomVariables.create([d2, d3]),
          "rvs_shared": RandomVariables.create([d1a, d1b, d2, d3]),
          "rvs_block_second": RandomVariables.create([d2, d1, d3])}  # a valid block in front of the swept one
    _MAT_CACHE[n] = fx
    return fx


def check_matrix(n, vals, level):
    """vals: lower triangle row-major floats.  level: 'full' (math + rvs + model) or 'math'.
    -> (fails, ncompared, labels)"""
    import numpy as np

    from pharmpy.internals.math import is_positive_semidefinite, nearest_positive_semidefinite

    from vlib.c11_ref import higham_nearest_psd, is_psd_exact, lower_positions, min_eig, sym_from_lower

    fails = []
    labels = []
    ncmp = 0
    Aq = sym_from_lower(n, [Fraction(v) for v in vals])
    psd = is_psd_exact(Aq)
    A = np.array([[float(x) for x in row] for row in Aq])
    A0 = A.copy()
    scale = max(1.0, float(np.abs(A).max()))
    labels.append("B:psd" if psd else "B:not-psd")
    # ---- internals.math
    try:
        flag = bool(is_positive_semidefinite(A))
        if flag != psd:
            labels.append("B:is_positive_semidefinite-differs-from-exact")
    except Exception as ex:
        labels.append(f"B:is_positive_semidefinite:{type(ex).__name__}")
    try:
        B = nearest_positive_semidefinite(A)
    except Exception as ex:
        fails.append(("nearest-error", f"nearest_positive_semidefinite: {type(ex).__name__}: {ex}"))
        B = None
    ref = None if psd else higham_nearest_psd(A0)
    if B is not None:
        ncmp += 1
        if not np.array_equal(A, A0):
            fails.append(("input-mutated", "nearest_positive_semidefinite modified its argument"))
        if psd:
            if not (B is A or np.array_equal(B, A0)):
                fails.append(("valid-altered", f"valid (exactly PSD) matrix altered by nearest_positive_semidefinite: "
                                               f"{B.tolist()}", {"dev": float(np.abs(B - A0).max())}))
        else:
            me = min_eig(B)
            ncmp += 2
            if not me >= -1e-12 * scale:
                fails.append(("repair-not-psd", f"nearest_positive_semidefinite result has eigenvalue {me}: {B.tolist()}"))
            if not np.allclose(B, B.T, rtol=0, atol=1e-12 * scale):
                fails.append(("repair-not-symmetric", f"result not symmetric: {B.tolist()}"))
            dev = float(np.abs(B - ref).max())
            if not dev <= 1e-7 * scale:
                fails.append(("repair-not-nearest", f"result {B.tolist()} differs from the nearest PSD matrix "
                                                    f"{ref.tolist()} by {dev:.3g}"))
    if level == "math":
        return fails, ncmp, labels, psd
    # ---- RandomVariables.validate_parameters / nearest_valid_parameters
    fx = mat_fixture(n)
    nm = fx["nm"]
    pos = lower_positions(n)
    values = {nm[i][j]: float(A0[i, j]) for i, j in pos}
    try:
        ok = bool(fx["rvs1"].validate_parameters(dict(values)))
        if ok != psd:
            labels.append("B:validate_parameters-differs-from-exact")
        nv = fx["rvs1"].nearest_valid_parameters(dict(values))
        ncmp += 1
        fails.extend(compare_repaired(nv, values, nm, pos, psd, ref, scale, "nearest_valid_parameters", {}))
    except REFUSALS as ex:
        labels.append(f"B:rvs-refused:{type(ex).__name__}")
    except Exception as ex:
        labels.append(f"B:rvs-internal_error:{type(ex).__name__}")
    # ---- Model.create / Model.replace
    from pharmpy.model import Model

    allv = dict(values)
    allv.update(fx["others"])
    try:
        params = fx["base"].set_initial_estimates(allv)
        m = Model.create(name="m", parameters=params, random_variables=fx["rvs"])
        ncmp += 1
        fails.extend(compare_repaired(m.parameters.inits, values, nm, pos, psd, ref, scale, "Model.create", fx["others"]))
        m0 = Model.create(name="m", parameters=fx["base"], random_variables=fx["rvs"])
        m2 = m0.replace(parameters=params)
        ncmp += 1
        fails.extend(compare_repaired(m2.parameters.inits, values, nm, pos, psd, ref, scale, "Model.replace", fx["others"]))
        m4 = Model.create(name="m", parameters=params, random_variables=fx["rvs_block_second"])
        ncmp += 1
        fails.extend(compare_repaired(m4.parameters.inits, values, nm, pos, psd, ref, scale, "Model.create (block behind a valid block)", fx["others"]))
        # only the random variables are replaced: the parameters (whose block entries no distribution used so far) stay
        m00 = Model.create(name="m", parameters=params, random_variables=fx["rvs_without_block"])
        m3 = m00.replace(random_variables=fx["rvs"])
        ncmp += 1
        fails.extend(compare_repaired(m3.parameters.inits, values, nm, pos, psd, ref, scale, "Model.replace(random_variables=...)", fx["others"]))
    except REFUSALS as ex:
        labels.append(f"B:model-refused:{type(ex).__name__}")
    except Exception as ex:
        labels.append(f"B:model-internal_error:{type(ex).__name__}")
    return fails, ncmp, labels, psd


def compare_repaired(got, values, nm, pos, psd, ref, scale, where, others):
    import numpy as np

    from vlib.c11_ref import min_eig

    fails = []
    for k, v in others.items():
        if k not in got or got[k] != v:
            fails.append(("other-altered", f"{where}: valid parameter {k}={v} outside the block became {got.get(k)}"))
            return fails
    missing = [nm[i][j] for i, j in pos if nm[i][j] not in got]
    if missing:
        return [("missing", f"{where}: parameters {missing} missing")]
    if psd:
        bad = [(nm[i][j], values[nm[i][j]], float(got[nm[i][j]])) for i, j in pos
               if float(got[nm[i][j]]) != values[nm[i][j]]]
        if bad:
            fails.append(("valid-altered", f"{where}: valid (exactly PSD) initial estimates altered: "
                                           + ", ".join(f"{a}: {b!r} -> {c!r}" for a, b, c in bad),
                          {"dev": max(abs(b - c) for _, b, c in bad)}))
        return fails
    n = len(nm)
    B = np.zeros((n, n))
    for i, j in pos:
        B[i, j] = B[j, i] = float(got[nm[i][j]])
    me = min_eig(B)
    if not me >= -1e-12 * scale:
        fails.append(("repair-not-psd", f"{where}: block still has eigenvalue {me} after repair: {B.tolist()}"))
    dev = float(np.abs(B - ref).max())
    if not dev <= 1e-7 * scale:
        fails.append(("repair-not-nearest", f"{where}: block {B.tolist()} differs from the nearest PSD matrix "
                                            f"{ref.tolist()} by {dev:.3g}"))
    return fails


def check_conversions(n, vals):
    """C: on an exactly PD matrix.  -> (fails, ncompared)"""
    import numpy as np
    import pandas as pd

    from pharmpy.internals.math import corr2cov, cov2corr
    from pharmpy.modeling import (
        calculate_corr_from_cov,
        calculate_corr_from_prec,
        calculate_cov_from_corrse,
        calculate_cov_from_prec,
        calculate_prec_from_corrse,
        calculate_prec_from_cov,
        calculate_se_from_cov,
        calculate_se_from_prec,
    )

    from vlib.c11_ref import inverse, lower_positions, sdcorr, sdcorr_inv, sym_from_lower

    fails = []
    ncmp = 0
    Aq = sym_from_lower(n, [Fraction(v) for v in vals])
    A = np.array([[float(x) for x in row] for row in Aq])
    R = np.array(sdcorr(Aq))  # sd on the diagonal, corr off the diagonal
    corr_ref = R.copy()
    np.fill_diagonal(corr_ref, 1.0)
    sd_ref = np.diag(R).copy()
    prec_ref = np.array([[float(x) for x in row] for row in inverse(Aq)])

    def cmpm(got, want, what):
        nonlocal ncmp
        ncmp += 1
        g = np.asarray(got, dtype=float)
        w = np.asarray(want, dtype=float)
        if g.shape != w.shape or not np.all(np.isfinite(g)) or not np.all(np.abs(g - w) <= 1e-7 * np.maximum(1.0, np.maximum(np.abs(g), np.abs(w)))):
            fails.append(("conversion", f"{what}: got {g.tolist()}, definition gives {w.tolist()}"))

    try:
        c = cov2corr(A.copy())
        cmpm(c, corr_ref, "cov2corr")
        cmpm(corr2cov(c, np.sqrt(np.diag(A))), A, "corr2cov(cov2corr(A), sd)")
        cmpm(sdcorr_inv(R.tolist()), A, "reference self-test sdcorr_inv(sdcorr(A))")
        idx = ["P%d" % i for i in range(n)]
        cov = pd.DataFrame(A.copy(), index=idx, columns=idx)
        se = calculate_se_from_cov(cov)
        cmpm(se.values, sd_ref, "calculate_se_from_cov")
        corr = calculate_corr_from_cov(cov)
        cmpm(corr.values, corr_ref, "calculate_corr_from_cov")
        cmpm(calculate_cov_from_corrse(corr, se).values, A, "calculate_cov_from_corrse(corr_from_cov, se_from_cov)")
        prec = calculate_prec_from_cov(cov)
        cmpm(prec.values, prec_ref, "calculate_prec_from_cov")
        cmpm(calculate_cov_from_prec(prec).values, A, "calculate_cov_from_prec(prec_from_cov)")
        cmpm(calculate_prec_from_corrse(corr, se).values, prec_ref, "calculate_prec_from_corrse")
        cmpm(calculate_corr_from_prec(prec).values, corr_ref, "calculate_corr_from_prec(prec_from_cov)")
        cmpm(calculate_se_from_prec(prec).values, sd_ref, "calculate_se_from_prec(prec_from_cov)")
        if list(corr.index) != idx or list(prec.columns) != idx or list(se.index) != idx:
            fails.append(("conversion", "labels of a converted matrix differ from the input labels"))
        # sd/corr form of parameter values
        fx = mat_fixture(n)
        nm = fx["nm"]
        pos = lower_positions(n)
        values = {nm[i][j]: float(A[i, j]) for i, j in pos}
        values.update(fx["others"])
        sc = fx["rvs"].parameters_sdcorr(dict(values))
        for i, j in pos:
            ncmp += 1
            want = R[i, j]
            g = sc.get(nm[i][j])
            if g is None or not abs(float(g) - want) <= 1e-7 * max(1.0, abs(want)):
                fails.append(("sdcorr", f"parameters_sdcorr: {nm[i][j]} -> {g}, definition gives {want}"))
                break
        ncmp += 3
        if not abs(float(sc["SIG"]) - fx["others"]["SIG"] ** 0.5) <= 1e-9:
            fails.append(("sdcorr", f"parameters_sdcorr: SIG -> {sc['SIG']}"))
        if float(sc["TH"]) != fx["others"]["TH"]:
            fails.append(("sdcorr", f"parameters_sdcorr altered non-variance parameter TH -> {sc['TH']}"))
        want_xy = -0.5
        if not abs(float(sc["WXY"]) - want_xy) <= 1e-9:
            fails.append(("sdcorr", f"parameters_sdcorr: WXY -> {sc['WXY']}, definition gives {want_xy}"))
        # inverse of the sd/corr form gives the values back
        Rg = [[float(sc[nm[i][j]]) for j in range(n)] for i in range(n)]
        cmpm(sdcorr_inv(Rg), A, "sdcorr^-1(parameters_sdcorr(x))")
        # two blocks that share their parameters: every parameter is converted once
        sc2 = fx["rvs_shared"].parameters_sdcorr(dict(values))
        for i, j in pos:
            ncmp += 1
            want = R[i, j]
            g = sc2.get(nm[i][j])
            if g is None or not abs(float(g) - want) <= 1e-7 * max(1.0, abs(want)):
                fails.append(("sdcorr", f"parameters_sdcorr with two blocks sharing their parameters: {nm[i][j]} -> {g}, definition gives {want}"))
                break
    except REFUSALS as ex:
        fails.append(("conversion-refused", f"conversion of a positive definite matrix refused: {type(ex).__name__}: {ex}"))
    return fails, ncmp


# ============================================================================ part D: UCP
THETAS = [("TH1", 1.5, 0.0, None, False), ("TH2", 0.5, None, None, False), ("TH3", 2.0, 1.0, 3.0, False),
          ("TH4", -1.0, -5.0, 0.0, False), ("TH5", 3.0, None, None, True)]


_UCP_RVS = {}


def ucp_rvs(n, layout, sigma):
    key = (n, layout, sigma)
    if key in _UCP_RVS:
        return _UCP_RVS[key]
    from pharmpy.basic import Expr, Matrix
    from pharmpy.model import JointNormalDistribution, NormalDistribution, RandomVariables

    S = Expr.symbol
    Z = Expr.integer(0)
    nm = mat_names(n)
    dists = []
    if layout in ("single-first", "fixed-first"):
        dists.append(NormalDistribution("ETAS", "IIV", Z, S("OMS")))
    names = tuple("ETA%d" % i for i in range(n))
    dists.append(JointNormalDistribution(names, "IIV", Matrix([0] * n), Matrix(nm)))
    if layout == "iov-after":
        dists.append(NormalDistribution("ETAO1", "IOV", Z, S("OMO")))
        dists.append(NormalDistribution("ETAO2", "IOV", Z, S("OMO")))
    if sigma == "single":
        dists.append(NormalDistribution("EPS1", "RUV", Z, S("SIG1")))
    else:
        dists.append(JointNormalDistribution(("EPS1", "EPS2"), "RUV", Matrix([0, 0]),
                                             Matrix([["SIG1", "SIG12"], ["SIG12", "SIG2"]])))
    _UCP_RVS[key] = RandomVariables.create(dists)
    return _UCP_RVS[key]


def ucp_model(n, vals, layout, sigma):
    from pharmpy.model import Model, Parameter, Parameters

    nm = mat_names(n)
    params = []
    for name, init, lo, up, fix in THETAS:
        kw = {}
        if lo is not None:
            kw["lower"] = lo
        if up is not None:
            kw["upper"] = up
        params.append(Parameter.create(name, init, fix=fix, **kw))
    if layout in ("single-first", "fixed-first"):
        params.append(Parameter.create("OMS", 0.3, fix=(layout == "fixed-first")))
    it = iter(vals)
    for i in range(n):
        for j in range(i + 1):
            params.append(Parameter.create(nm[i][j], next(it)))
    if layout == "iov-after":
        params.append(Parameter.create("OMO", 0.09))
    if sigma == "single":
        params.append(Parameter.create("SIG1", 0.04))
    else:
        c = 0.5 if sigma == "block-pos" else -0.5
        params += [Parameter.create("SIG1", 1.0), Parameter.create("SIG12", c), Parameter.create("SIG2", 2.0)]
    return Model.create(name="u", parameters=Parameters.create(params), random_variables=ucp_rvs(n, layout, sigma))


def ucp_roundtrip(model):
    """-> (status, mismatches[(name, got, want)], ncompared)"""
    from pharmpy.modeling import calculate_parameters_from_ucp, calculate_ucp_scale

    from vlib.c11_ref import close

    import numpy as np

    try:
        scale = calculate_ucp_scale(model)
        names = list(model.parameters.nonfixed.names)
        back = calculate_parameters_from_ucp(model, scale, {p: 0.1 for p in names})
    except REFUSALS as ex:
        return f"refused:{type(ex).__name__}", [], 0
    except np.linalg.LinAlgError:
        return "refused:LinAlgError", [], 0
    except Exception as ex:
        return f"internal_error:{type(ex).__name__}", [], 0
    inits = model.parameters.inits
    mism = []
    n = 0
    for p in names:
        n += 1
        if p not in back.index:
            mism.append((p, None, inits[p]))
        elif not close(back[p], inits[p]):
            mism.append((p, float(back[p]), float(inits[p])))
    return "ok", mism, n


def blocks_of_model(model):
    """numeric covariance blocks (names matrix, values) of every joint distribution under the inits"""
    import numpy as np

    out = []
    inits = model.parameters.inits
    for d in model.random_variables:
        if len(d) > 1:
            try:
                A = np.array(d.variance.subs(inits).to_numpy(), dtype=float)
            except Exception:
                continue
            out.append((list(d.names), A))
    return out


def ucp_witness_blocks(model):
    """per random-effect group (etas, epsilons): the full numeric matrix and the symbol-name matrix"""
    import numpy as np

    out = []
    inits = model.parameters.inits
    for grp in (model.random_variables.etas, model.random_variables.epsilons):
        M = grp.covariance_matrix
        A = np.array(M.subs(inits).to_numpy(), dtype=float).tolist()
        nm = [[str(M[i, j]) for j in range(M.cols)] for i in range(M.rows)]
        out.append({"values": A, "names": nm})
    return out


def ucp_case(res, model, witness_base, text):
    status, mism, n = ucp_roundtrip(model)
    res["evaluations"] += n
    if status != "ok":
        bump(res, "D:" + status)
        return
    res["traces_validated_against_impl"] += 1
    if n:
        res["distinct_nontrivial"] += 1
    if mism:
        bump(res, "D:mismatch")
        w = dict(witness_base)
        w.update({"part": "D", "class": "D:ucp-roundtrip", "mismatch": [list(m) for m in mism],
                  "blocks": ucp_witness_blocks(model),
                  "what": f"{text}: calculate_parameters_from_ucp(scale, all 0.1) != initial estimates: "
                          + ", ".join(f"{p}: {g!r} (inits {w_!r})" for p, g, w_ in mism[:4])})
        add_violation(res, w)
    else:
        bump(res, "D:ok")


# ----------------------------------------------------------------------------- corpus
def corpus_files():
    from vlib import core

    root = core.REPO
    out = []
    for sub in ("tests/testdata/nonmem", "tests/testdata/nonmem/models", "src/pharmpy/internals/example_models"):
        d = os.path.join(root, sub)
        if os.path.isdir(d):
            for f in sorted(os.listdir(d)):
                if f.endswith(".mod"):
                    out.append(os.path.join(sub, f))
    return out


def ref_from_real(rvs):
    """Reference state read off a real RandomVariables object (corpus models); None when an entry is
    neither a symbol nor a number."""
    from vlib.c11_ref import Ref

    def tok(x):
        if x.is_symbol():
            return ("s", x.name)
        try:
            v = float(x)
        except Exception:
            return None
        return ("n", int(v) if v == int(v) else v)

    blocks, mean, cov = [], {}, {}
    for d in rvs:
        ns = tuple(d.names)
        blocks.append((str(d.level), ns))
        joint = hasattr(d.variance, "rows")
        for i, a in enumerate(ns):
            m = tok(d.mean[i] if joint else d.mean)
            if m is None:
                return None
            mean[a] = m
            for j, b in enumerate(ns):
                e = tok(d.variance[i, j] if joint else d.variance)
                if e is None:
                    return None
                cov[(a, b)] = e
    return Ref(blocks, mean, cov)


def corpus_model(relpath):
    from vlib import core

    from pharmpy.modeling import read_model_from_string

    # from the text: the data set is not needed here (and several do not load under pandas 3)
    with open(os.path.join(core.REPO, relpath), encoding="latin-1") as fh:
        return read_model_from_string(fh.read())


def corpus_algebra(res, model, relpath):
    """part A, depth 1, on the model's own random variables"""
    rvs = model.random_variables
    ref0 = ref_from_real(rvs)
    if ref0 is None:
        bump(res, "corpus:A-skipped-expression-entries")
        return
    if not 1 <= len(ref0.names()) <= 6 or set(ref0.names()) & {NEWV[0], NEWV[1], RENV}:
        bump(res, "corpus:A-skipped-size")
        return
    if any(lev not in LEVELS for lev, _ in ref0.blocks):
        bump(res, "corpus:A-skipped-levels")
        return
    search(res, {"file": relpath}, ref0, 1, 7, rvs0=rvs)


def check_model_blocks(res, model, base, text):
    """every covariance block is PSD under the initial estimates"""
    for names, A in blocks_of_model(model):
        from vlib.c11_ref import min_eig

        res["evaluations"] += 1
        me = min_eig(A)
        sc = max(1.0, float(abs(A).max()))
        if not me >= -1e-12 * sc:
            w = dict(base)
            w.update({"part": "corpus", "class": "corpus:block-not-psd",
                      "what": f"{text}: block {names} has eigenvalue {me} under the initial estimates {A.tolist()}"})
            add_violation(res, w)


def run_corpus(res, relpath):
    from pharmpy.modeling import create_joint_distribution, remove_iiv, split_joint_distribution

    try:
        model = corpus_model(relpath)
    except Exception as ex:
        bump(res, f"corpus:unreadable:{type(ex).__name__}")
        return
    res["states"] += 1
    corpus_algebra(res, model, relpath)
    base = {"file": relpath, "succ": None}
    check_model_blocks(res, model, base, relpath)
    ucp_case(res, model, base, relpath)
    # sd/corr form on the model's own values
    try:
        inits = model.parameters.inits
        sc = model.random_variables.parameters_sdcorr(dict(inits))
        for d in model.random_variables:
            V = d.variance
            if len(d) == 1:
                continue
            for i in range(V.rows):
                for j in range(i + 1):
                    e = V[i, j]
                    if not e.is_symbol():
                        continue
                    res["evaluations"] += 1
                    vi, vj = float(V[i, i].subs(inits)), float(V[j, j].subs(inits))
                    if vi <= 0 or vj <= 0:
                        continue
                    want = vi ** 0.5 if i == j else float(inits[e.name]) / (vi * vj) ** 0.5
                    if not abs(float(sc[e.name]) - want) <= 1e-7 * max(1.0, abs(want)):
                        add_violation(res, {"part": "corpus", "file": relpath, "succ": None, "class": "corpus:sdcorr",
                                            "what": f"{relpath}: parameters_sdcorr {e.name} -> {sc[e.name]}, "
                                                    f"definition gives {want}"})
    except REFUSALS:
        bump(res, "corpus:sdcorr-refused")
    except Exception as ex:
        bump(res, f"corpus:sdcorr-internal_error:{type(ex).__name__}")
    # depth-1 successors that change the covariance structure
    succ = []
    iiv = list(model.random_variables.iiv.names)
    succ.append(("create_joint_distribution(all)", lambda m: create_joint_distribution(m)))
    if len(iiv) >= 2:
        succ.append((f"create_joint_distribution({iiv[:2]})", lambda m: create_joint_distribution(m, iiv[:2])))
        succ.append((f"create_joint_distribution({[iiv[0], iiv[-1]]})",
                     lambda m: create_joint_distribution(m, [iiv[0], iiv[-1]])))
    succ.append(("split_joint_distribution(all)", lambda m: split_joint_distribution(m)))
    if iiv:
        succ.append((f"split_joint_distribution({iiv[-1]})", lambda m: split_joint_distribution(m, iiv[-1])))
        succ.append((f"remove_iiv({iiv[0]})", lambda m: remove_iiv(m, iiv[0])))
        if len(iiv) > 1:
            succ.append((f"remove_iiv({iiv[-1]})", lambda m: remove_iiv(m, iiv[-1])))
    for name, fn in succ:
        res["transitions"] += 1
        try:
            m2 = fn(model)
        except REFUSALS as ex:
            bump(res, f"corpus:succ-refused:{type(ex).__name__}")
            continue
        except Exception as ex:
            bump(res, f"corpus:succ-internal_error:{type(ex).__name__}")
            continue
        res["states"] += 1
        b2 = {"file": relpath, "succ": name}
        txt = f"{relpath} -> {name}"
        check_model_blocks(res, m2, b2, txt)
        ucp_case(res, m2, b2, txt)
        # the variance of every surviving random variable is the same symbol with the same value
        old = model.random_variables
        new = m2.random_variables
        for nme in new.names:
            if nme in old.names:
                res["evaluations"] += 1
                v1 = old[nme].get_variance(nme)
                v2 = new[nme].get_variance(nme)
                if v1 != v2:
                    add_violation(res, {"part": "corpus", "file": relpath, "succ": name, "class": "corpus:variance",
                                        "what": f"{txt}: variance of {nme} changed from {v1} to {v2}"})
                elif v1.is_symbol() and v1.name in m2.parameters.names and v1.name in model.parameters.names:
                    if m2.parameters[v1.name].init != model.parameters[v1.name].init:
                        add_violation(res, {"part": "corpus", "file": relpath, "succ": name, "class": "corpus:variance",
                                            "what": f"{txt}: initial estimate of {v1.name} changed from "
                                                    f"{model.parameters[v1.name].init} to {m2.parameters[v1.name].init}"})


# ============================================================================ runner API
def mat_plan(tier):
    """-> list of (n, grid, prefix_len, level)"""
    plan = [(2, GRID5, 0, "full"), (3, GRID5, 2, "full")]
    if tier == "thorough":
        plan.append((4, GRID4, 3, "math4"))
    return plan


def shards(tier):
    out = []
    # corpus first (slowest single items)
    for f in corpus_files():
        out.append(("corpus", f))
    # part A: group initial descriptors
    descs = init_descs(tier)
    def weight(d):  # rough number of transitions (measured: n=5 depth 1 ~210, n=4 depth 2 ~5400)
        n, depth = d[0], d[4]
        w = 7 * 2 ** n
        if depth == 2:
            w *= min(3 * 2 ** n, 45)
        if depth >= 3:
            w *= 40 * 2 ** n
        return w

    descs = sorted(descs, key=lambda d: -weight(d))
    target = sum(weight(d) for d in descs) / (90 if tier == "quick" else 170)
    cur, acc = [], 0
    for d in descs:
        cur.append(d)
        acc += weight(d)
        if acc >= target:
            out.append(("A", cur))
            cur, acc = [], 0
    if cur:
        out.append(("A", cur))
    out.append(("Aspecial", None))
    for n, grid, plen, level in mat_plan(tier):
        npos = n * (n + 1) // 2
        for prefix in itertools.product(grid, repeat=plen):
            out.append(("mat", n, list(grid), list(prefix), npos, level))
    return out


def run_shard(shard, tier):
    res = new_result()
    kind = shard[0]
    if kind == "corpus":
        run_corpus(res, shard[1])
        res["samples"].append(f"corpus model {shard[1]}")
        return res
    if kind == "A":
        maxvars = 5 if tier == "quick" else 6
        for n, blocks, levels, style, depth in shard[1]:
            desc = {"n": n, "blocks": blocks, "levels": levels, "style": style}
            ref0 = init_ref(n, blocks, levels, style)
            search(res, desc, ref0, depth, maxvars)
            if len(res["samples"]) < 2:
                res["samples"].append(f"A: {fmt_ref(ref0)} depth {depth}")
        return res
    if kind == "Aspecial":
        for ref0 in special_inits():
            desc = {"ref": ref_to_json(ref0)}
            search(res, desc, ref0, 2, 6)
        res["samples"].append("A: parameter-sharing states " + " | ".join(fmt_ref(r) for r in special_inits()))
        return res
    if kind == "mat":
        _, n, grid, prefix, npos, level = shard
        run_matrices(res, n, grid, prefix, npos, level)
        return res
    raise RuntimeError(f"unknown shard {shard!r}")


UCP_LAYOUTS = (("block-only", "single"), ("single-first", "block-pos"), ("fixed-first", "single"),
               ("iov-after", "single"))


def run_matrices(res, n, grid, prefix, npos, level):
    from vlib.c11_ref import is_pd_exact, sym_from_lower

    for rest in itertools.product(grid, repeat=npos - len(prefix)):
        vals = list(prefix) + list(rest)
        res["states"] += 1
        lvl = "math" if level == "math4" else level
        fails, ncmp, labels, psd = check_matrix(n, vals, lvl)
        res["evaluations"] += ncmp
        res["transitions"] += 1
        res["traces_validated_against_impl"] += 1
        if ncmp:
            res["distinct_nontrivial"] += 1
        for lb in labels:
            bump(res, lb)
        seen = set()
        for f in fails:
            cls, text = f[0], f[1]
            if cls in seen:
                continue
            seen.add(cls)
            w = {"part": "B", "n": n, "vals": vals, "level": lvl, "class": "B:" + cls,
                 "what": f"A={sym_from_lower(n, vals)}: {text}"}
            if len(f) > 2:
                w.update(f[2])
            add_violation(res, w)
        if fails:
            bump(res, "B:fail")
        if not psd:
            continue
        if not is_pd_exact(sym_from_lower(n, [Fraction(v) for v in vals])):
            bump(res, "C:psd-singular-skipped")
            continue
        bump(res, "C:pd")
        f2, n2 = check_conversions(n, vals)
        res["evaluations"] += n2
        res["transitions"] += 1
        seen = set()
        for cls, text in f2:
            if cls in seen:
                continue
            seen.add(cls)
            add_violation(res, {"part": "C", "n": n, "vals": vals, "class": "C:" + cls,
                                "what": f"A={sym_from_lower(n, vals)}: {text}"})
        layouts = UCP_LAYOUTS if n <= 3 else UCP_LAYOUTS[:1]
        for layout, sigma in layouts:
            res["transitions"] += 1
            try:
                m = ucp_model(n, vals, layout, sigma)
            except REFUSALS:
                bump(res, "D:model-refused")
                continue
            ucp_case(res, m, {"n": n, "vals": vals, "layout": layout, "sigma": sigma},
                     f"omega block {sym_from_lower(n, vals)} layout {layout}/{sigma}")
        if len(res["samples"]) < 1:
            res["samples"].append(f"matrix {sym_from_lower(n, vals)} (PD): repair, conversions, UCP")


def post(tot, tier):
    """make the merged lists independent of the order in which shards finished"""
    tot["samples"].sort(key=str)
    tot["violations"].sort(key=lambda w: (len(w.get("what", "")), w.get("what", "")))


# ----------------------------------------------------------------------------- replay / classify
def _tuplify_op(op):
    return tuple(op)


def replay(w):
    part = w.get("part")
    res = new_result()
    if part == "A":
        init = w["init"]
        if "file" in init:
            rvs = corpus_model(init["file"]).random_variables
            ref = ref_from_real(rvs)
        elif "ref" in init:
            ref = ref_from_json(init["ref"])
            rvs = build(ref)
        else:
            ref = init_ref(init["n"], init["blocks"], init["levels"], init["style"])
            rvs = build(ref)
        ops = [list(o) for o in w["ops"]]
        if not ops or w.get("observe"):
            for op in ops:
                out = step(rvs, ref, _tuplify_op(op))
                if out["status"] != "ok" or out["ref"] is None:
                    return [f"prefix operation {fmt_op(op)}: {out['status']} {[t for c, t in out['fails']]}"]
                rvs, ref = out["rvs"], out["ref"]
            f, _ = check_state(rvs, ref)
            f2, _ = observe_items(rvs, ref)
            return [t for c, t in f + f2]
        for op in ops[:-1]:
            out = step(rvs, ref, _tuplify_op(op))
            if out["status"] != "ok" or out["ref"] is None:
                return [f"prefix operation {fmt_op(op)}: {out['status']} {[t for c, t in out['fails']]}"]
            rvs, ref = out["rvs"], out["ref"]
        cls = w.get("class", "")[2:]
        out = step(rvs, ref, _tuplify_op(ops[-1]))
        if out["status"] != "ok":
            return []
        return [t for c, t in out["fails"] if not cls or c == cls]
    if part == "B":
        fails, _, _, _ = check_matrix(w["n"], w["vals"], w.get("level", "full"))
        cls = w.get("class", "")[2:]
        return [f[1] for f in fails if f[0] == cls]
    if part == "C":
        fails, _ = check_conversions(w["n"], w["vals"])
        return [t for c, t in fails]
    if part == "D":
        if w.get("file"):
            return _replay_corpus(w)
        m = ucp_model(w["n"], w["vals"], w["layout"], w["sigma"])
        status, mism, _ = ucp_roundtrip(m)
        return [f"{p}: {g!r} != {x!r}" for p, g, x in mism]
    if part == "corpus":
        return _replay_corpus(w)
    return ["unknown witness"]


def _replay_corpus(w):
    run_corpus(res := new_result(), w["file"])
    return [v["what"] for v in res["violations"] if v.get("class") == w.get("class") and v.get("succ") == w.get("succ")]


def classify(w):
    """Narrow patterns of the findings reproduced on the unchanged tree."""
    cls = w.get("class", "")
    if cls == "A:order-unneeded" and w.get("opkind") in ("unjoin", "join") and w.get("after") and w.get("ops"):
        # only when the observed order is exactly the one the hoisting in RandomVariables.unjoin predicts
        from vlib.c11_ref import hoisting_join_blocks, hoisting_unjoin_blocks

        S = set(w["ops"][-1][1])
        before = [tuple(b) for b in w["before"]]
        fn = hoisting_unjoin_blocks if w["opkind"] == "unjoin" else hoisting_join_blocks
        if [tuple(b) for b in w["after"]] == [tuple(b) for b in fn(before, S)]:
            return "unjoin_hoists_split_variables_before_kept_block"
        return None
    if cls == "B:valid-altered":
        return _classify_roundoff(w)
    if cls == "D:ucp-roundtrip":
        return _classify_ucp(w)
    return None


def _classify_roundoff(w):
    """exactly PSD, singular, dimension >= 3, alteration at rounding level only"""
    from vlib.c11_ref import det, is_psd_exact, sym_from_lower

    n = w.get("n", 0)
    if n < 3:
        return None
    A = sym_from_lower(n, [Fraction(v) for v in w["vals"]])
    if not is_psd_exact(A) or det(A) != 0:
        return None
    dev = w.get("dev")
    if dev is None or not dev <= 1e-12:
        return None
    # the cause named by the pattern: the general eigenvalue solver returns the zero eigenvalue of this
    # exactly singular matrix as a negative (or complex) number
    import numpy as np

    ev = np.linalg.eig(np.array([[float(x) for x in row] for row in A]))[0]
    if np.iscomplexobj(ev) and np.any(ev.imag != 0) or np.any(ev.real < 0):
        return "singular_psd_matrix_misjudged_by_eig_roundoff"
    return None


def _classify_ucp(w):
    """the values that came back are exactly what dropping the sign of the off-diagonal Cholesky
    elements predicts (np.abs in _scale_matrix), and some off-diagonal Cholesky element is negative"""
    from vlib.c11_ref import abs_cholesky_product, cholesky, close

    got = {m[0]: m[1] for m in w.get("mismatch", [])}
    any_neg = False
    explained = set()
    for blk in w.get("blocks", []):
        A = blk["values"]
        nm = blk["names"]
        if not A:
            continue
        try:
            L = cholesky(A)
            P = abs_cholesky_product(A)
        except (ValueError, ZeroDivisionError):
            return None
        n = len(A)
        if any(L[i][j] < 0 for i in range(n) for j in range(i)):
            any_neg = True
        for i in range(n):
            for j in range(i + 1):
                name = nm[i][j]
                if name in got:
                    if got[name] is None or not close(got[name], P[i][j], 1e-6):
                        return None
                    explained.add(name)
    if any_neg and explained == set(got):
        return "ucp_scale_abs_drops_sign_of_negative_cholesky_element"
    return None
