"""C02 - generated NONMEM code means what the transformed model means (IR -> NM-TRAN).

Explicit-state BFS over the model graph (vlib.mgraph / vlib.seqx): every model reachable from the
start models by sequences of modeling transformations is written with write_model; the generated
control stream and data file are interpreted by the independent NM-TRAN reference (vlib.nmref)
and compared with direct evaluation of the in-memory model (vlib.ireval); parameters and
random-effect covariance read from the text are compared with the object; the written model is
read back and compared.
"""
from __future__ import annotations

import itertools

import math
import os
import shutil
import tempfile

PROPERTY = "C02"
LEVEL = "model_checking"
ENGINE = "seqx"
PREIMPORT = ("pharmpy.modeling", "pharmpy.tools")
TECHNIQUE = ("explicit-state BFS over sequences of model transformations on real objects (canonical state = generated code + data "
             "hash), reference NM-TRAN interpreter as oracle on every reached state")
LEVEL_TEXT = (
    "All models reachable within the stated depth / closure are generated; on every one the meaning of the generated text "
    "(independent interpreter) is compared numerically with the meaning of the object, which is where inconsistent ADVAN/TRANS, "
    "compartment numbering, renamed parameters and rewritten data columns show up."
)
LEVEL_NOTE = ("trusted: vlib/nmref.py + nmcode.py + pkeng.py + ireval.py + xeval.py (see C01); THETA/ETA/EPS are matched to model "
              "parameters by position; finite numeric grid; steady-state records not covered")
RULE = ("states = distinct (generated code, dataset) pairs reached by BFS from the start models over the structural alphabet (to the "
        "stated depth) and one further step over the full alphabet; transitions = real modeling calls; a state is non-trivial when "
        "the reference interpreter and the model evaluator both produced values that were compared")
ASSUMPTIONS = ["grid: parameters at init and 0.8*init, etas/eps in {0,+0.3,-0.2,+-0.1}; first 3 individuals of pheno",
               "refusals (ValueError/NotImplementedError/ModelError) of a transformation end the branch and are not failures"]
BOUNDS = {"quick": "structural alphabet depth 2 from pheno, pheno+FO absorption, pheno with a block IF and pheno+FO absorption coded as ADVAN2 TRANS1, then one step of the full alphabet on depth<=1 states (no cap); sibling round: every ordered pair (A, B) of the full alphabet derived from ONE start object",
          "thorough": "structural alphabet depth 3, full alphabet on depth<=2 states (cap 6000 states)"}

START = ["pheno", "pheno_oral", "pheno_blockif", "pheno_oral_trans1"]  # the last: a symbol assigned by a plain statement, then in both branches of a block IF


TERMINAL = ("metabolite_psc",)


def alphabet(tier, depth):
    from vlib import mgraph

    d_struct = 2 if tier == "quick" else 3
    labels = []
    if depth < d_struct:
        labels += list(mgraph.ops("structural"))
    if depth < d_struct - 1 or depth == 0:
        # the pre-systemic metabolite is requested on the start models only and not expanded (TERMINAL): deeper combinations
        # showed differences between model and generated code in the thorough tier that are not triaged yet (DESIGN 3.4)
        labels += [x for x in mgraph.ops("other") if x != "metabolite_psc" or depth == 0]
    return labels


def drive(tier):
    from vlib import seqx
    import sys

    mod = sys.modules[__name__]
    results = seqx.drive(mod, tier, START, depth_limit=2 if tier == "quick" else 3, max_states=None if tier == "quick" else 6000)
    if any("harness_error" in r for r in results):
        return results
    # the states of the recorded known findings that lie deeper than this tier's depth are examined in every run
    from vlib import core as _core

    extra = seqx.known_witness_states(mod, min_depth=2 if tier == "quick" else 3)
    if extra:
        results.extend(_core.pmap(mod.__name__, [("witness", extra)], tier))
    # sibling round: two derivations from ONE parent object (the BFS gives every call a private dataset copy, so a
    # transformation that writes into its argument's DataFrame would otherwise never reach the sibling's generated code)
    from vlib import core, mgraph

    shards = [("sib", s, a) for s in START for a in list(mgraph.ops("structural")) + list(mgraph.ops("other"))]
    results.extend(core.pmap(mod.__name__, shards, tier))
    # dependent-variable round: every injective assignment of DVID values to 2 (thorough: up to 3) dependent variables
    vals = (1, 2, 3, 5)
    maps = [t for k in ((2,) if tier == "quick" else (2, 3)) for t in itertools.permutations(vals, k)]
    results.extend(core.pmap(mod.__name__, [("dvs", maps[i::4]) for i in range(4)], tier))
    return results


def run_dvs_shard(shard, tier):
    """pheno with k dependent variables Y, Y2 = 2 F + EPS, Y3 = 3 F + EPS on the DVID values of the shard's tuples: the written
    $ERROR block, executed by the reference interpreter on a record with DVID = d, must leave in Y the value of the dependent
    variable the model assigns to d."""
    from pharmpy.basic import Expr
    from pharmpy.model import Assignment
    from vlib import mgraph, nmcode

    res = {"states": 0, "transitions": 0, "evaluations": 0, "distinct_nontrivial": 0, "violations": [], "samples": [],
           "outcomes": {}, "traces_validated_against_impl": 0}
    m0 = mgraph.start_models()["pheno"]
    y = list(m0.dependent_variables)[0]
    eps = m0.random_variables.epsilons.names[0]
    fval, eval_ = 2.0, 0.5
    for t in shard[1]:
        res["states"] += 1
        stats = m0.statements
        dvmap = {y: t[0]}
        for j, d in enumerate(t[1:], start=2):
            stats = stats + Assignment.create(Expr.symbol(f"Y{j}"), Expr.symbol("F") * j + Expr.symbol(eps))
            dvmap[Expr.symbol(f"Y{j}")] = d
        df = m0.dataset.copy()
        df["DVID"] = [t[i % len(t)] for i in range(len(df))]
        hist = f"pheno with dependent variables {{{', '.join(f'{k}: {v}' for k, v in dvmap.items())}}}"
        try:
            m = m0.replace(statements=stats, dependent_variables=dvmap, dataset=df).update_source()
            code = m.code
            blk = code.split("$ERROR", 1)[1]
            blk = blk[:blk.index("\n$")]
            prog = nmcode.parse_code(blk)
        except Exception as e:
            res["violations"].append({"history": ["pheno", [f"dvs{t}"]], "dvs": list(t), "what": f"[{hist}] the model cannot be written or its $ERROR block read: {type(e).__name__}: {str(e)[:100]}", "class": "dvs:write"})
            continue
        res["traces_validated_against_impl"] += 1
        res["distinct_nontrivial"] += 1
        want = {t[0]: fval + fval * eval_}
        for j, d in enumerate(t[1:], start=2):
            want[d] = j * fval + eval_
        for d, w in want.items():
            res["evaluations"] += 1
            env = nmcode.Env(vals={"F": fval, "DVID": float(d)}, vec={"EPS": {1: eval_}})
            try:
                nmcode.execute(prog, env)
                got = env.vals.get("Y")
            except Exception as e:
                got = f"{type(e).__name__}: {e}"
            if not (isinstance(got, float) and abs(got - w) <= 1e-9):
                res["violations"].append({"history": ["pheno", [f"dvs{t}"]], "dvs": list(t),
                                          "what": f"[{hist}] evaluation: on a record with DVID {d} the generated code gives Y = {got}, the model's dependent variable for {d} has the value {w}",
                                          "class": "dvs:evaluation"})
                break
        res["outcomes"]["dvs:checked"] = res["outcomes"].get("dvs:checked", 0) + 1
    return res


def run_sibling_shard(shard, tier):
    """M0 -> A (result used), then every B from the same M0 object: the model B must be the model B derived from a fresh M0;
    where its canonical key differs the full state check runs on it."""
    from vlib import mgraph

    _, start, a = shard
    res = {"states": 0, "transitions": 0, "evaluations": 0, "distinct_nontrivial": 0, "violations": [], "samples": [],
           "outcomes": {}, "traces_validated_against_impl": 0, "sibling_pairs": 0, "sibling_keys_differing": 0}
    m0 = mgraph.start_models()[start]
    m0 = m0.replace(dataset=m0.dataset.copy())
    ma, outcome = mgraph.apply(m0, a, private=False)
    res["transitions"] += 1
    if ma is None:
        res["outcomes"]["sibling:first-refused"] = 1
        return res
    try:
        ma.code  # the result is used (generated code is produced lazily)
    except Exception:
        pass
    for b in list(mgraph.ops("structural")) + list(mgraph.ops("other")):
        ref = mgraph.build((start, (b,)))
        mb, _ = mgraph.apply(m0, b, private=False)
        res["transitions"] += 1
        res["sibling_pairs"] += 1
        if ref is None or mb is None:
            if (ref is None) != (mb is None):
                # a wall-clock timeout of one of the two calls (loaded machine) is not a refusal: ask both again, outcomes visible
                f0 = mgraph.start_models()[start]
                r2, o_ref = mgraph.apply(f0.replace(dataset=f0.dataset.copy()), b)
                m2b, o_sib = mgraph.apply(m0, b, private=False)
                if "timeout" in (o_ref, o_sib) or (r2 is None) == (m2b is None):
                    res["outcomes"]["sibling:undecided-timeout"] = res["outcomes"].get("sibling:undecided-timeout", 0) + 1
                    continue
                res["violations"].append({"history": [start, [a, b]], "what": f"[{start}: {b} after deriving {a} from the same object] "
                                          f"sibling: {b} is {'refused' if mb is None else 'accepted'} but "
                                          f"{'accepted' if mb is None else 'refused'} on a fresh {start}", "class": "sibling"})
            continue
        try:
            differs = mgraph.canon(mb) != mgraph.canon(ref)
        except Exception as e:
            res["violations"].append({"history": [start, [a, b]], "what": f"[{start}: {b} after deriving {a} from the same object] "
                                      f"sibling: code generation failed: {type(e).__name__}: {str(e)[:120]}", "class": "sibling"})
            continue
        key = "sibling:same" if not differs else "sibling:differs"
        res["outcomes"][key] = res["outcomes"].get(key, 0) + 1
        if not differs:
            continue
        res["sibling_keys_differing"] += 1
        res["states"] += 1
        res["evaluations"] += 1
        res["distinct_nontrivial"] += 1
        res["traces_validated_against_impl"] += 1
        try:
            with mgraph.time_limit(globals().get("STATE_TIMEOUT", 300)):
                fails, counters = check_state((start, (b,)), mb, tier)
        except mgraph.CallTimeout:
            fails, counters = [], {"state_timeouts": 1}
        for k, v in counters.items():
            res[k] = res.get(k, 0) + v
        for f in fails[:60]:
            res["violations"].append({"history": [start, [a, b]], "sibling": True,
                                      "what": f"[{start}: {b} after deriving {a} from the same object] {f}", "class": classify_text(f)})
    if not res["samples"]:
        res["samples"].append(f"sibling plan: {start} -> {a} ; then every transformation from the same {start} object")
    return res


def run_shard(shard, tier):
    from vlib import seqx
    import sys

    if shard[0] == "sib":
        return run_sibling_shard(shard, tier)
    if shard[0] == "dvs":
        return run_dvs_shard(shard, tier)
    return seqx.run_level_shard(sys.modules[__name__], shard, tier, depth_limit=2 if tier == "quick" else 3)


def classify_text(f):
    return f.split(":")[0][:60]


# ------------------------------------------------------------------------------- the oracle
def read_csv_records(path, cols):
    """plain reader of the data file pharmpy wrote (comma separated numbers, optional header line)"""
    inds = []
    cur = None
    last_id = None
    with open(path) as fh:
        for line in fh:
            line = line.rstrip("\n")
            if not line.strip():
                continue
            parts = line.split(",")
            try:
                vals = [float(x) if x.strip() not in (".", "") else 0.0 for x in parts]
            except ValueError:
                continue  # header
            rec = {}
            for (name, drop, syn), v in zip(cols, vals):
                if drop:
                    continue
                rec[name] = v
                if syn:
                    rec[syn] = v
            if rec["ID"] != last_id:
                cur = []
                inds.append(cur)
                last_id = rec["ID"]
            cur.append(rec)
    return inds


def check_state(hist, model, tier):
    from vlib import ireval, mgraph, nmref
    from vlib.xeval import Undefined as XUndef
    from vlib.xeval import close

    fails = []
    counters = {"values_compared": 0, "skipped_states": 0}
    import warnings

    from pharmpy.modeling import read_model, write_model

    tmp = tempfile.mkdtemp(prefix="verif-c02-")
    try:
        with warnings.catch_warnings():
            warnings.simplefilter("ignore")
            try:
                written = write_model(model, os.path.join(tmp, "m.mod"), force=True)
            except Exception as e:
                return [f"write_model failed: {type(e).__name__}: {str(e)[:150]}"], counters
        code = open(os.path.join(tmp, "m.mod")).read()
        try:
            cs = nmref.ControlStream(code)
            st = cs.structure()
        except nmref.Unsupported as e:
            counters["skipped_states"] += 1
            return [], counters
        except nmref.ParseError as e:
            return [f"generated code cannot be read by NM-TRAN rules: {e}"], counters
        # data file named in $DATA
        import re

        m = re.search(r"\$DATA\s+(\S+)", code)
        datafile = m.group(1).strip("'\"")
        datapath = datafile if os.path.isabs(datafile) else os.path.join(tmp, datafile)
        if not os.path.exists(datapath):
            return [f"$DATA names {datafile}, which was not written"], counters
        try:
            ref_inds = read_csv_records(datapath, cs.input)
        except Exception as e:
            return [f"data file written for the model cannot be read with its $INPUT: {type(e).__name__}: {e}"], counters
        # (b) parameters
        rvs = model.random_variables
        rv_params = set(rvs.parameter_names)
        thetas = [p for p in model.parameters if p.name not in rv_params]
        if len(thetas) != len(cs.thetas):
            fails.append(f"parameters: {len(cs.thetas)} THETAs in the code, {len(thetas)} in the model")
            return fails, counters
        for i, (p, r) in enumerate(zip(thetas, cs.thetas), 1):
            lo = -math.inf if p.lower is None else float(p.lower)
            up = math.inf if p.upper is None else float(p.upper)
            if lo <= -1000000:
                lo = -math.inf
            if up >= 1000000:
                up = math.inf
            if not close(float(p.init), r["init"], 1e-6):
                fails.append(f"parameters: THETA({i}) init {r['init']} in the code, {p.name}={p.init} in the model")
            if lo != r["lower"] and not close(lo, r["lower"], 1e-6):
                fails.append(f"parameters: THETA({i}) lower {r['lower']} in the code, {p.name} lower {p.lower} in the model")
            if up != r["upper"] and not close(up, r["upper"], 1e-6):
                fails.append(f"parameters: THETA({i}) upper {r['upper']} in the code, {p.name} upper {p.upper} in the model")
            if bool(p.fix) != bool(r["fix"]):
                fails.append(f"parameters: THETA({i}) fix {r['fix']} in the code, {p.name} fix {p.fix} in the model")
        import numpy as np

        from vlib.xeval import ev

        env0 = {p.name: float(p.init) for p in model.parameters}
        for which, names_rv, blocks in (("OMEGA", rvs.etas, cs.omega_blocks), ("SIGMA", rvs.epsilons, cs.sigma_blocks)):
            ref = nmref.full_matrix(blocks)
            n = len(names_rv.names)
            if n != ref.shape[0]:
                fails.append(f"parameters: {which} has dimension {ref.shape[0]} in the code, {n} in the model")
                continue
            cm = names_rv.covariance_matrix
            got = np.array([[ev(cm[i, j], env0) for j in range(n)] for i in range(n)])
            if not np.allclose(got, ref, rtol=1e-5, atol=1e-12):
                fails.append(f"parameters: {which} initial matrix in the code {ref.tolist()} vs model {got.tolist()}")
        if fails:
            return fails, counters
        # (a) meaning of the text vs meaning of the object
        try:
            me = ireval.ModelEval(model)
            ir_inds = ireval.individuals(model, max_ids=3)
        except ireval.Unsupported:
            counters["skipped_states"] += 1
            return fails, counters
        etas = rvs.etas.names
        epss = rvs.epsilons.names
        dvs = [str(s) for s in model.dependent_variables.keys()]
        compared = 0
        for label, env in mgraph.grid_envs(model):
            theta = [env[p.name] for p in thetas]
            eta = [env[n] for n in etas]
            eps = [env[n] for n in epss]
            for ri, ii in zip(ref_inds, ir_inds):
                if len(ri) != len(ii):
                    fails.append(f"data: individual has {len(ri)} records in the written file, {len(ii)} in the model's dataset")
                    break
                try:
                    ref = cs.evaluate(theta, eta, eps, ri)
                except (nmref.Undefined, ArithmeticError) as e_ref:
                    # the text has no value here (e.g. a record asks for a modelled duration that the code never defines);
                    # fine if the object has none either
                    try:
                        got = me.run(env, ii)
                    except Exception:
                        continue
                    ys = [g.get(dvs[0]) for k, g in enumerate(got) if not me._is_dose(ii[k])] if len(dvs) == 1 else []
                    if ys and all(isinstance(y, float) and math.isfinite(y) for y in ys):
                        compared += 1
                        fails.append(f"evaluation: the generated code has no value for ID {int(ii[0].get('ID', 0))} "
                                     f"({type(e_ref).__name__}: {str(e_ref)[:100]}) where the model evaluates (grid point {label})")
                        break
                    continue
                except nmref.Unsupported:
                    counters["skipped_states"] += 1
                    return fails, counters
                try:
                    got = me.run(env, ii)
                except ireval.Unsupported:
                    counters["skipped_states"] += 1
                    return fails, counters
                except (XUndef, ArithmeticError) as e:
                    fails.append(f"evaluation: the model cannot be evaluated ({e}) where the generated code can")
                    break
                for k, (r, g) in enumerate(zip(ref, got)):
                    if me._is_dose(ii[k]):
                        continue
                    if len(dvs) == 1:
                        yname = "Y"
                        if yname in r["vars"] and yname not in r["tainted"]:
                            compared += 1
                            gy = g.get(dvs[0])
                            if gy is None or not close(gy, r["vars"][yname], 1e-6):
                                fails.append(f"evaluation: {dvs[0]} at ID {int(ii[k].get('ID', 0))} TIME {ii[k].get(me.idv)}: model {gy} vs generated code "
                                             f"{r['vars'][yname]:.10g} (grid point {label})")
                    ga = sorted(g[a] for a in me.amount_names) if me.cs is not None else []
                    ra = sorted(r["A"])
                    if len(ga) == len(ra):
                        compared += 1
                        if any(not close(x, y, 1e-6) for x, y in zip(ga, ra)):
                            fails.append(f"evaluation: amounts at ID {int(ii[k].get('ID', 0))} TIME {ii[k].get(me.idv)}: model {ga} vs generated code {ra} "
                                         f"(grid point {label})")
                    else:
                        fails.append(f"evaluation: {len(ra)} compartments in the generated code, {len(ga)} in the model")
                    if fails:
                        break
                if fails:
                    break
            if fails:
                break
        counters["values_compared"] += compared
        if compared and not fails:
            counters["distinct_nontrivial"] = 1
            counters["traces_validated_against_impl"] = 1
        if fails:
            return fails[:10], counters
        # (c) write / read round trip
        try:
            with warnings.catch_warnings():
                warnings.simplefilter("ignore")
                back = read_model(os.path.join(tmp, "m.mod"))
        except Exception as e:
            return [f"roundtrip: the written model cannot be read back: {type(e).__name__}: {str(e)[:150]}"], counters
        fails.extend(equivalent_parameters(model, back))
        try:
            envs = mgraph.grid_envs(model)
            a = mgraph.observe(model, envs)
            # same numeric point for the re-read model: parameters and etas by name, epsilons by position (their
            # names are labels that the control stream does not carry)
            envs_b = []
            e1, e2 = list(model.random_variables.epsilons.names), list(back.random_variables.epsilons.names)
            for label, env in envs:
                eb = dict(env)
                for x, y in zip(e1, e2):
                    eb[y] = env[x]
                envs_b.append((label, eb))
            b = mgraph.observe(back, envs_b)
            d = mgraph.same_observations(a, b)
            if d:
                fails.append(f"roundtrip: re-read model evaluates differently: {d}")
        except (ireval.Unsupported, XUndef, ArithmeticError) as e:
            pass
        return fails[:10], counters
    finally:
        shutil.rmtree(tmp, ignore_errors=True)


def equivalent_parameters(model, back):
    """parameters compared by name (order is not part of the meaning), random effects by name, level and numeric covariance"""
    import numpy as np

    from vlib.xeval import close, ev

    out = []
    a = {p.name: p for p in model.parameters}
    b = {p.name: p for p in back.parameters}
    if set(a) != set(b):
        out.append(f"roundtrip: parameter names differ: only in model {sorted(set(a) - set(b))}, only in re-read {sorted(set(b) - set(a))}")
        return out
    variances = set()
    for dist in model.random_variables:
        v = dist.variance
        try:
            n = len(dist.names)
            if n == 1:
                variances |= {str(x) for x in v.free_symbols}
            else:
                for i in range(n):
                    variances |= {str(x) for x in v[i, i].free_symbols}
        except Exception:
            pass
    for n in a:
        p, q = a[n], b[n]
        lo1 = -math.inf if p.lower is None else float(p.lower)
        lo2 = -math.inf if q.lower is None else float(q.lower)
        up1 = math.inf if p.upper is None else float(p.upper)
        up2 = math.inf if q.upper is None else float(q.upper)
        if n in variances and lo1 == -math.inf and lo2 == 0:
            lo2 = lo1  # a variance is non-negative in NM-TRAN whether or not the object carries the bound
        if not close(float(p.init), float(q.init), 1e-6) or bool(p.fix) != bool(q.fix) or (lo1 != lo2 and not close(lo1, lo2, 1e-6)) \
                or (up1 != up2 and not close(up1, up2, 1e-6)):
            out.append(f"roundtrip: parameter {n}: model ({p.init}, {p.lower}, {p.upper}, fix={p.fix}) vs re-read ({q.init}, {q.lower}, {q.upper}, fix={q.fix})")
    for sel in ("etas", "epsilons"):
        r1, r2 = getattr(model.random_variables, sel), getattr(back.random_variables, sel)
        if len(r1.names) != len(r2.names):
            out.append(f"roundtrip: number of {sel} differs: {r1.names} vs {r2.names}")
            continue
        if sel == "etas" and list(r1.names) != list(r2.names):
            # the name of the placeholder eta that NONMEM code needs when the model has no random effect is not part of the
            # model (variance fixed to 0; pharmpy calls it eta_dummy in memory)
            if not (list(r1.names) == ["eta_dummy"] and len(r2.names) == 1):
                out.append(f"roundtrip: eta names differ: {r1.names} vs {r2.names}")
                continue
        env1 = {p.name: float(p.init) for p in model.parameters}
        env2 = {p.name: float(p.init) for p in back.parameters}
        n = len(r1.names)
        for i in range(n):
            for j in range(i + 1):
                v1 = ev(r1.get_covariance(r1.names[i], r1.names[j]), env1)
                v2 = ev(r2.get_covariance(r2.names[i], r2.names[j]), env2)
                if not close(v1, v2, 1e-6):
                    out.append(f"roundtrip: cov({r1.names[i]},{r1.names[j]}) {v1} vs re-read {v2}")
            if r1[r1.names[i]].level != r2[r2.names[i]].level:
                out.append(f"roundtrip: level of {r1.names[i]}: {r1[r1.names[i]].level} vs re-read {r2[r2.names[i]].level}")
    return out[:3]


def replay(w):
    from vlib import mgraph

    start, labels = w["history"]
    if w.get("dvs"):
        r = run_dvs_shard(("dvs", [tuple(w["dvs"])]), "quick")
        return [v["what"].split("] ", 1)[-1] for v in r["violations"]]
    if w.get("sibling"):
        a, b = labels
        m0 = mgraph.start_models()[start]
        m0 = m0.replace(dataset=m0.dataset.copy())
        ma, _ = mgraph.apply(m0, a, private=False)
        if ma is not None:
            try:
                ma.code
            except Exception:
                pass
        model, _ = mgraph.apply(m0, b, private=False)
        if model is None:
            return ["replay: the sibling can no longer be built (a transformation is refused)"]
        fails, _ = check_state((start, (b,)), model, "quick")
        return fails
    model = mgraph.build((start, tuple(labels)))
    if model is None:
        return ["replay: the history can no longer be built (a transformation is refused)"]
    fails, _ = check_state((start, tuple(labels)), model, "quick")
    return fails


def classify(w):
    from checks import c02_patterns

    return c02_patterns.classify(w)
