"""Narrow classifiers for the known findings of C03."""


def classify(w):
    what = w.get("what", "")
    if w.get("kind") == "edit":
        if "record $ABBREVIATED" in what and "'$ABBREV REPLACE" in what and "['$ABBR REPLACE" in what:
            return "abbrev_record_name_rewritten_as_abbr"
        if w.get("edit") == "remove_iiv" and "record $SIGMA" in what and "-> [' $SIGMA" in what:
            return "remove_iiv_adds_leading_space_to_following_record"
        if w.get("edit") == "remove_iiv" and "cannot be parsed" in what and str(w.get("model", "")).startswith("combo"):
            return "multi_value_diagonal_omega_record_remove_iiv_unparsable"
    return None
