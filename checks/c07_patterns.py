"""Narrow classifiers for the known findings of C07."""


def classify(w):
    tail = w.get("what", "").split("] ", 1)[-1]
    if tail.startswith("after solve_ode_system: evaluate_") and "raises KeyError: 't'" in tail:
        return "evaluators_raise_keyerror_t_after_solve_ode_system"
    return None
