"""Narrow classifiers for the known findings of C07."""


def classify(w):
    return None
