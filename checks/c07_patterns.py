"""Narrow classifiers for the known findings of C07."""


def classify(w):
    tail = w.get("what", "").split("] ", 1)[-1]
    if tail.startswith("after solve_ode_system: evaluate_") and "raises KeyError: 't'" in tail:
        return "evaluators_raise_keyerror_t_after_solve_ode_system"
    labels = (w.get("history") or [None, []])[1]
    if tail.startswith("after solve_ode_system: ") and "ComplexInfinity" in tail and "transits_3" in labels:
        return "solve_ode_system_repeated_transit_rate_gives_complex_infinity"
    return None
