"""Narrow classifiers for the known findings of C09."""


def classify(w):
    return None
