"""Narrow classifiers for the known findings of C02."""


def classify(w):
    return None
