"""Narrow classifiers for the known findings of C02."""


def classify(w):
    start, labels = w["history"]
    what = w["what"].split("] ", 1)[-1]
    last = labels[-1] if labels else None
    prev = list(labels[:-1])
    if last == "abs_inst" and "lag_on" in prev and "iov" in prev[prev.index("lag_on"):] and "lag_off" not in prev and \
            what.startswith("evaluation: "):
        return "instantaneous_absorption_after_lag_time_and_iov_keeps_alag_statement"
    nonlin = ("elim_mm", "elim_mix", "elim_zo")
    if start == "pheno_oral_trans1" and last == "elim_fo" and "periph_add" in prev and \
            any(x in nonlin for x in prev[prev.index("periph_add") + 1:]) and \
            (what.startswith("evaluation: ") or what.startswith("parameters: ")):
        return "trans1_peripheral_nonlinear_then_first_order_elimination_corrupts_system"
    return None
