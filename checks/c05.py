"""C05 - compartmental system graph and its differential equations always agree.

Explicit-state bounded exhaustive enumeration.  The real `CompartmentalSystemBuilder` is the transition
system: a state is the real builder graph reached by a history of real API calls, a parallel reference model
(plain dicts, vlib/c05_ref.py) is updated by the same operation, and every reached state is observed through
the public API (`compartment_names`, `amounts`, `compartmental_matrix`, `zero_order_inputs`, `eqs`,
`find_compartment`, `get_flow`, `to_dict`/`from_dict`, `subs`, `to_compartmental_system`) and compared with
the reference model numerically on 3 fixed environments.
"""
from __future__ import annotations

import json
import time
import zlib

from vlib import c05_ref as R
from vlib.c05_ref import OUT

PROPERTY = "C05"
LEVEL = "model_checking"
ENGINE = "seqx"
TECHNIQUE = ("explicit-state bounded exhaustive enumeration of labelled compartment graphs and of builder "
             "operation sequences on the real builder, every state compared with a reference model")
LEVEL_TEXT = (
    "Every labelled directed graph up to the stated number of compartments (every subset of the possible flows, "
    "every dose/input placement of the stated menu, five rate-expression schemes) and every sequence of builder "
    "operations up to the stated depth from the stated base systems is generated (no sampling) and built through "
    "the real CompartmentalSystemBuilder; all observables are compared with a reference model written from the "
    "definition (d a/dt = inflows - outflows + input). Ordering, sign, transpose and relabelling faults need an "
    "asymmetric topology with <= 3 compartments and <= 2 edits to show, so this is the right level."
)
LEVEL_NOTE = (
    "trusted: the reference model vlib/c05_ref.py (dict of compartments + dict of flows, float evaluation of the "
    "rate descriptors) and the tree evaluator vlib/xeval.py; expressions are compared by value on 3 fixed "
    "environments with generic positive values (1e-7 relative), not structurally; nothing is claimed for graphs "
    "larger than the bound, rate shapes outside the 5 schemes, or compartments sharing a name"
)
RULE = (
    "part G: all labelled digraphs on n named compartments = every subset of the edges {i->j, i->output} "
    "(in separate families also i->i) x a menu of dose/input/lag/bioavailability placements x rate schemes "
    "{sym: K_ij; pk: Q_ij/V_i and CL/V_i; mm: VM_ij/(KM_i+A_i(t)); mmout: mm on output flows, sym elsewhere; "
    "shared: one symbol KS on every edge}, each built through the real builder in one of two construction "
    "histories (attributes at creation in name order / plain compartments in reverse order then "
    "set_dose,add_dose,set_input,set_lag_time,set_bioavailability), chosen by parity of the case index; "
    "part S: from each base system every sequence of builder operations (add/remove compartment, add/remove "
    "flow, set/add/remove/move dose, set lag/F/input; ~30-50 applicable operations per state) up to the stated "
    "depth, every child built with CompartmentalSystemBuilder(parent system), oracle run once per distinct "
    "complete builder graph (node order, successor and predecessor order, attributes) within a shard; "
    "part F (thorough): chain, reverse chain, star, cycle, complete graph on 5 and 6 compartments. "
    "states = oracle runs; distinct_states / distinct_nontrivial = distinct complete builder graphs over the "
    "whole run (non-trivial: >= 1 flow and the implementation accepted every operation). On every state "
    "('light'): compartment attributes (doses as multiset, lag, F, input) and all n*(n+1) flows equal the "
    "reference; compartment_names is a permutation of the names; amounts[k] is the amount of names[k]; "
    "compartmental_matrix, zero_order_inputs and eqs equal the reference entrywise in that order; eqs == M A + u "
    "with pharmpy's own M; column sums of M and the sum of all eqs give the mass balance. Additional oracles per "
    "bound: 'tocs' to_compartmental_system(names, eqs) has the same equations, and the same flows/inputs when the "
    "rate expressions are pairwise distinct; 'serial' from_dict(to_dict(cs)) == cs and has the reference "
    "attributes/flows ('json': also through json.dumps/loads); 'subs' a renaming of every symbol and a "
    "symbol->expression substitution commute with the reference model (attributes, flows, matrix, eqs)"
)
ASSUMPTIONS = [
    "expressions are compared by value on 3 fixed environments of generic positive reals, tolerance 1e-7 relative",
    "compartment names are pairwise distinct; operations are only applied to compartments/flows that exist "
    "(move_dose from a compartment without doses is expected to be refused with ValueError)",
    "add_flow is only applied to absent flows; move_dose only between different compartments",
    "the order of the doses inside one compartment is not compared (multiset comparison)",
    "a flow from a compartment to itself is an inflow and an outflow of that compartment (net zero)",
    "hash consistency of equal systems is measured and reported in outcomes but is not part of this property",
]
BOUNDS = {
    "quick": "G: n=3: all 512 edge subsets x {no dose, dose on one} x {no input, input on one} scheme sym (light), "
             "x (dose on C, input on A) full oracle, x no dose with to_compartmental_system for schemes sym/pk/shared; "
             "n=2: all 16 edge subsets x full placement menu (16) schemes sym/mm, x 9 placements schemes pk/shared, "
             "full oracle; n=1 full; graphs with self flows n<=2 (full oracle); "
             "S: base systems 0,1,3,4 depth 2 and the empty builder depth 4, names A..D, light + serialisation oracle",
    "thorough": "G: n=4: all 65536 edge subsets x {no dose, dose on B + input on C} scheme sym (light); n=3: all 512 "
                "edge subsets x full placement menu (41) serialisation oracle, x 16 placements full oracle (sym), x "
                "{no dose, dose on one} full oracle for schemes pk/mmout/mm/shared; self flows n<=3; n<=2 all schemes "
                "full menu full oracle; S: base systems 0,1,2,3,4,6 depth 3 and the empty builder depth 5; "
                "F: chain/reverse chain/star/cycle/complete on 5 and 6 compartments x schemes sym/pk/mmout x "
                "{no dose, dose on one} x {no input, input on one}, full oracle",
}
PREIMPORT = ("pharmpy.model", "pharmpy.basic")

SELF_LOOPS = True  # enumerate i->i flows (reported under pattern self_flow_counted_as_loss)

_ENVS = None


def envs():
    global _ENVS
    if _ENVS is None:
        _ENVS = [R.Env(e) for e in range(R.NENV)]
    return _ENVS


# ----------------------------------------------------------------------------- real side
def make_dose(kind):
    from pharmpy.model import Bolus, Infusion

    cls, amt, adm, how, sym = R.DOSES[kind]
    if cls == "Bolus":
        return Bolus.create(amt, admid=adm)
    if how == "rate":
        return Infusion.create(amt, admid=adm, rate=sym)
    return Infusion.create(amt, admid=adm, duration=sym)


def make_comp(name, attrs=None):
    from pharmpy.basic import Expr
    from pharmpy.model import Compartment

    kw = {}
    if attrs:
        if attrs.get("doses"):
            kw["doses"] = tuple(make_dose(d) for d in attrs["doses"])
        if attrs.get("input"):
            kw["input"] = Expr.symbol(f"R_{name}")
        if attrs.get("lag"):
            kw["lag_time"] = Expr.symbol(f"ALAG_{name}")
        if attrs.get("F"):
            kw["bioavailability"] = Expr.symbol(f"F_{name}")
    return Compartment.create(name, **kw)


class Missing(Exception):
    pass


def _find(cb, name):
    from pharmpy.model import output

    if name == OUT:
        return output
    c = cb.find_compartment(name)
    if c is None:
        raise Missing(name)
    return c


def real_apply(cb, op):
    """apply one operation with plain documented API calls"""
    from pharmpy.basic import Expr

    k = op[0]
    if k == "addc":
        cb.add_compartment(make_comp(op[1], op[2] if len(op) > 2 else None))
    elif k == "rmc":
        cb.remove_compartment(_find(cb, op[1]))
    elif k == "flow":
        cb.add_flow(_find(cb, op[1]), _find(cb, op[2]), R.rate_expr(op[1], op[2], op[3]))
    elif k == "rmflow":
        cb.remove_flow(_find(cb, op[1]), _find(cb, op[2]))
    elif k == "setdose":
        ds = tuple(make_dose(d) for d in op[2])
        cb.set_dose(_find(cb, op[1]), None if not ds else (ds[0] if len(ds) == 1 else ds))
    elif k == "adddose":
        cb.add_dose(_find(cb, op[1]), make_dose(op[2]))
    elif k == "rmdose":
        cb.remove_dose(_find(cb, op[1]), admid=op[2] or None)
    elif k == "mvdose":
        cb.move_dose(_find(cb, op[1]), _find(cb, op[2]), admid=op[3] or None)
    elif k == "lag":
        cb.set_lag_time(_find(cb, op[1]), Expr.symbol(f"ALAG_{op[1]}") if op[2] else Expr.integer(0))
    elif k == "F":
        cb.set_bioavailability(_find(cb, op[1]), Expr.symbol(f"F_{op[1]}") if op[2] else Expr.integer(1))
    elif k == "input":
        cb.set_input(_find(cb, op[1]), Expr.symbol(f"R_{op[1]}") if op[2] else Expr.integer(0))
    else:
        raise ValueError(op)


REFUSALS = (ValueError, NotImplementedError)


def step(cb, ref, op):
    """Apply op to builder and reference.  Returns (status, message):
    "ok", "refused" (documented refusal, both unchanged), "unexpected_refusal", "not_refused", "internal"."""
    ref2 = ref.copy()
    want = ref2.apply(op)
    try:
        real_apply(cb, op)
    except Missing as e:
        return "lost", f"compartment {e} not found in the builder before {R.fmt_op(op)}", ref
    except REFUSALS as e:
        if want == "refuse":
            return "refused", "", ref
        return "unexpected_refusal", f"{type(e).__name__}: {e}", ref
    except Exception as e:  # internal error in a builder operation: counted, the property text is silent
        return "internal", f"{type(e).__name__}: {e}", ref
    if want == "refuse":
        return "not_refused", "", ref
    return "ok", "", ref2


def run_prog(prog):
    """Execute a whole program from the empty builder; returns (cs or None, ref, status, msg, n_ops_done)"""
    from pharmpy.model import CompartmentalSystem, CompartmentalSystemBuilder

    cb = CompartmentalSystemBuilder()
    ref = R.Ref()
    done = 0
    for op in prog:
        op = _tuplify_op(op)
        st, msg, ref = step(cb, ref, op)
        if st in ("ok", "refused", "not_refused"):
            done += 1
            continue
        return None, ref, st, msg, done
    return CompartmentalSystem(cb), ref, "ok", "", done


def _tuplify_op(op):
    op = list(op)
    if op[0] == "setdose":
        op[2] = list(op[2])
    return op


# ----------------------------------------------------------------------------- the oracle
TAGTXT = [
    ("to_cs_", "to_compartmental_system(names, cs.eqs): "),
    ("serial_json_", "from_dict(json.loads(json.dumps(cs.to_dict()))): "),
    ("serial_", "from_dict(cs.to_dict()): "),
    ("subs_rename_", "cs.subs({every symbol X: X_N}): "),
    ("subs_scale_", "cs.subs({every symbol X: X*WT}): "),
]


class Cmp:
    """collects failures and counts compared values"""

    def __init__(self):
        self.fails = []
        self.n = 0

    def fail(self, cls, msg):
        for pre, txt in TAGTXT:
            if cls.startswith(pre):
                msg = txt + msg
                break
        self.fails.append((cls, msg))

    def num(self, cls, what, expr, want_vals, envs_act):
        """expr (pharmpy/sympy expression) must evaluate to want_vals[e] in envs_act[e] for every e"""
        from vlib.xeval import Undefined, close, ev

        for e, env in enumerate(envs_act):
            self.n += 1
            try:
                got = ev(expr, env)
            except Undefined as err:
                self.fail(cls, f"{what}: {expr} not evaluable ({err})")
                return False
            if not close(got, want_vals[e]):
                self.fail(cls, f"{what}: reported {expr} = {got:.9g} but reference value {want_vals[e]:.9g} (env {e})")
                return False
        return True


def _dose_sig(d, env):
    from vlib.xeval import ev

    rate = getattr(d, "rate", None)
    dur = getattr(d, "duration", None)
    return (type(d).__name__, d.admid, ev(d.amount, env),
            None if rate is None else ev(rate, env), None if dur is None else ev(dur, env))


def _sigs_close(a, b):
    from vlib.xeval import close

    if len(a) != len(b):
        return False
    for x, y in zip(a, b):
        if x[0] != y[0] or x[1] != y[1]:
            return False
        for u, v in zip(x[2:], y[2:]):
            if (u is None) != (v is None):
                return False
            if u is not None and not close(u, v):
                return False
    return True


def check_attrs(c, cs, ref, ea, er, tag, doses=True):
    """compartments, doses, lag, F, input and flows of `cs` (public API) equal the reference"""
    from pharmpy.model import output

    from vlib.xeval import Undefined

    try:
        got_names = sorted(cs.compartment_names)
    except Exception as e:
        c.fail(tag + "observer_raised", f"compartment_names raised {type(e).__name__}: {e}")
        return
    if got_names != sorted(ref.comps):
        c.fail(tag + "names", f"compartments {got_names} but reference {sorted(ref.comps)}")
        return
    comps = {}
    for n in got_names:
        comp = cs.find_compartment(n)
        if comp is None:
            c.fail(tag + "names", f"find_compartment({n}) is None")
            return
        comps[n] = comp
    for n, comp in comps.items():
        if doses:
            for e in range(len(ea)):
                c.n += 1
                try:
                    got = sorted((_dose_sig(d, ea[e]) for d in comp.doses), key=R._sigkey)
                except Undefined as err:
                    c.fail(tag + "doses", f"doses of {n} not evaluable: {err}")
                    break
                want = ref.dose_sigs(n, er[e])
                if not _sigs_close(got, want):
                    c.fail(tag + "doses", f"doses of {n}: {comp.doses} but reference {ref.comps[n]['doses']}")
                    break
            c.num(tag + "lag", f"lag_time of {n}", comp.lag_time, [ref.lag_val(n, x) for x in er], ea)
            c.num(tag + "F", f"bioavailability of {n}", comp.bioavailability, [ref.f_val(n, x) for x in er], ea)
        c.num(tag + "input", f"input of {n}", comp.input, [ref.input_val(n, x) for x in er], ea)
    for i in got_names:
        for j in got_names + [OUT]:
            dst = output if j == OUT else comps[j]
            try:
                fl = cs.get_flow(comps[i], dst)
            except Exception as e:
                c.fail(tag + "observer_raised", f"get_flow({i},{j}) raised {type(e).__name__}: {e}")
                continue
            c.num(tag + "flow", f"flow {i}->{j}", fl, [ref.flow_val(i, j, x) for x in er], ea)


def check_odes(c, cs, ref, ea, er, tag, self_as_loss=False):
    """names / amounts / matrix / inputs / eqs describe the reference system in one order; mass balance"""
    from vlib.xeval import Undefined, close, ev

    try:
        names = list(cs.compartment_names)
        amounts = list(cs.amounts)
        inputs = list(cs.zero_order_inputs)
        M = cs.compartmental_matrix
        eqs = list(cs.eqs)
        t = cs.t
    except Exception as e:
        c.fail(tag + "observer_raised", f"observer raised {type(e).__name__}: {e}")
        return None
    n = len(ref.comps)
    if sorted(names) != sorted(ref.comps) or len(set(names)) != len(names):
        c.fail(tag + "names", f"compartment_names {names} is not a permutation of {sorted(ref.comps)}")
        return None
    try:
        nlen = len(cs)
    except Exception as e:
        nlen = f"{type(e).__name__}"
    if nlen != n:
        c.fail(tag + "names", f"len(cs) = {nlen} but {n} compartments")
    if len(amounts) != n or len(inputs) != n or len(eqs) != n or M.rows != n or M.cols != n:
        c.fail(tag + "shape", f"sizes: amounts {len(amounts)}, inputs {len(inputs)}, eqs {len(eqs)}, "
                              f"matrix {M.rows}x{M.cols}, compartments {n}")
        return None
    # amounts in the order of names
    for k, nm in enumerate(names):
        c.n += 1
        comp = cs.find_compartment(nm)
        if str(amounts[k]) != f"A_{nm}(t)" or comp is None or amounts[k] != comp.amount:
            c.fail(tag + "amounts", f"amounts[{k}] = {amounts[k]} but compartment_names[{k}] = {nm}")
            return None
    # matrix entrywise
    Mref = [ref.matrix(names, x, self_as_loss) for x in er]
    for a in range(n):
        for b in range(n):
            c.num(tag + ("matrix_diag" if a == b else "matrix"),
                  f"compartmental_matrix[{a},{b}] (row {names[a]}, column {names[b]}; order {names})",
                  M[a, b], [Mref[e][a][b] for e in range(len(er))], ea)
    # column sums: 1^T M == -(output flows)
    for b in range(n):
        tot = None
        for a in range(n):
            tot = M[a, b] if tot is None else tot + M[a, b]
        c.num(tag + "mass_balance_matrix", f"column sum of compartmental_matrix for {names[b]} vs -(output flow)",
              tot, [-ref.flow_val(names[b], OUT, x) - (ref.flow_val(names[b], names[b], x) if self_as_loss else 0.0)
                    for x in er], ea)
    # inputs
    for k, nm in enumerate(names):
        c.num(tag + "inputs", f"zero_order_inputs[{k}] ({nm})", inputs[k], [ref.input_val(nm, x) for x in er], ea)
    # eqs
    rref = [ref.rhs(names, x, self_as_loss) for x in er]
    ok = True
    for k, nm in enumerate(names):
        c.n += 1
        if str(eqs[k].lhs) != f"Derivative(A_{nm}(t), {t})":
            c.fail(tag + "eqs_lhs", f"eqs[{k}].lhs = {eqs[k].lhs} but compartment_names[{k}] = {nm}")
            ok = False
            continue
        ok = c.num(tag + "eqs", f"eqs[{k}] rhs (d A_{nm}/dt; order {names})", eqs[k].rhs,
                   [rref[e][k] for e in range(len(er))], ea) and ok
    # eqs == M A + u entrywise with pharmpy's own matrix
    for e, env in enumerate(ea):
        try:
            a_vals = [ev(x, env) for x in amounts]
            for k in range(n):
                c.n += 1
                s = sum(ev(M[k, i], env) * a_vals[i] for i in range(n)) + ev(inputs[k], env)
                g = ev(eqs[k].rhs, env)
                if not close(s, g):
                    c.fail(tag + "eqs_vs_matrix", f"eqs[{k}] rhs = {g:.9g} but (M A + u)[{k}] = {s:.9g} (order {names})")
                    break
        except Undefined:
            break
    # mass balance on the equations
    for e, env in enumerate(ea):
        c.n += 1
        try:
            s = sum(ev(q.rhs, env) for q in eqs)
        except Undefined:
            break
        w = ref.net_loss(er[e], self_as_loss)
        if not close(s, w):
            c.fail(tag + "mass_balance", f"sum of eqs rhs = {s:.9g} but -(output flows) + inputs = {w:.9g}")
            break
    return names, amounts, eqs


def check_to_cs(c, cs, ref, ea, er, ode):
    """to_compartmental_system(eqs) is equivalent: same equations; same flows when they are recoverable"""
    from pharmpy.model import to_compartmental_system

    from vlib.xeval import Undefined, close, ev

    names, amounts, eqs = ode
    try:
        cs2 = to_compartmental_system({a: nm for a, nm in zip(amounts, names)}, [q._sympy_() for q in eqs])
        eqs2 = list(cs2.eqs)
    except Exception as e:
        c.fail("to_cs_raised", f"raised {type(e).__name__}: {e}")
        return
    by_lhs = {str(q.lhs): q for q in eqs2}
    if len(by_lhs) != len(eqs) or set(by_lhs) != {str(q.lhs) for q in eqs}:
        c.fail("to_cs_eqs", f"result has equations for {sorted(by_lhs)}")
        return
    for q in eqs:
        q2 = by_lhs[str(q.lhs)]
        for env in ea:
            c.n += 1
            try:
                a, b = ev(q.rhs, env), ev(q2.rhs, env)
            except Undefined as err:
                c.fail("to_cs_eqs", f"not evaluable: {err}")
                return
            if not close(a, b):
                c.fail("to_cs_eqs", f"equation of {q.lhs}: original rhs {q.rhs} = {a:.9g}, rhs of the "
                                    f"converted system {q2.rhs} = {b:.9g}")
                return
    if ref.unique_rates():
        check_attrs(c, cs2, ref, ea, er, "to_cs_", doses=False)


def check_serial(c, cs, ref, ea, er, res, with_json=True):
    from pharmpy.model import CompartmentalSystem

    try:
        d = cs.to_dict()
        cs3 = CompartmentalSystem.from_dict(d)
    except Exception as e:
        c.fail("serial_raised", f"raised {type(e).__name__}: {e}")
        return
    c.n += 1
    try:
        same = cs3 == cs
        if same is not True:
            c.fail("serial_eq", "result != cs")
    except Exception as e:
        same = None
        c.fail("serial_eq_raised", f"result == cs raised {type(e).__name__}: {e}")
    check_attrs(c, cs3, ref, ea, er, "serial_")
    if same is True:
        try:
            key = "hash_equal_for_equal_systems" if hash(cs3) == hash(cs) else "hash_differs_for_equal_systems"
        except Exception:
            key = "hash_raised"
        res["outcomes"][key] = res["outcomes"].get(key, 0) + 1
    if not with_json:
        return
    try:
        cs5 = CompartmentalSystem.from_dict(json.loads(json.dumps(d)))
    except Exception as e:
        c.fail("serial_json_raised", f"raised {type(e).__name__}: {e}")
        return
    check_attrs(c, cs5, ref, ea, er, "serial_json_")


def check_subs(c, cs, ref, ea, er, self_as_loss=False):
    syms = ref.symbols()
    for kind in ("rename", "scale"):
        try:
            cs4 = cs.subs(R.sub_map(kind, syms))
        except Exception as e:
            c.fail(f"subs_{kind}_raised", f"raised {type(e).__name__}: {e}")
            continue
        er2 = [R.sub_env(kind, syms, x) for x in er]
        tag = f"subs_{kind}_"
        check_attrs(c, cs4, ref, ea, er2, tag)
        check_odes(c, cs4, ref, ea, er2, tag, self_as_loss)


LEVELS = {
    "light": (),
    "tocs": ("tocs",),
    "serial": ("serial",),
    "full": ("tocs", "serial", "json", "subs"),
}


def oracle(cs, ref, level, res, self_as_loss=False):
    """attributes + flows + names/amounts/matrix/inputs/eqs/mass balance always ("light");
    LEVELS[level] names the additional round-trip checks.  Returns Cmp."""
    c = Cmp()
    ea = envs()
    extra = LEVELS[level]
    check_attrs(c, cs, ref, ea, ea, "")
    ode = check_odes(c, cs, ref, ea, ea, "", self_as_loss)
    if "tocs" in extra and ode is not None:
        check_to_cs(c, cs, ref, ea, ea, ode)
    if "serial" in extra:
        check_serial(c, cs, ref, ea, ea, res, "json" in extra)
    if "subs" in extra:
        check_subs(c, cs, ref, ea, ea, self_as_loss)
    return c


SELF_CLASSES = {"matrix_diag", "mass_balance_matrix", "eqs", "mass_balance"}


def _strip_tag(cls):
    for p in ("subs_rename_", "subs_scale_"):
        if cls.startswith(p):
            return cls[len(p):]
    return cls


def evaluate(prog, cs, ref, level, res):
    """run the oracle on one state, append witnesses; returns number of failures"""
    c = oracle(cs, ref, level, res)
    res["evaluations"] += 1
    res["values_compared"] += c.n
    try:
        res["keys"].append(zlib.crc32(state_key(cs, ref).encode()) * 2 + (1 if ref.flows else 0))
    except Exception:
        res["keys"].append(zlib.crc32(repr(prog).encode()) * 2 + (1 if ref.flows else 0))
    if not c.fails:
        return 0
    explained = set()
    if ref.has_self_flow():
        # which failures vanish when the self flow is modelled as a pure loss of the compartment?
        c2 = oracle(cs, ref, level, {"outcomes": {}}, self_as_loss=True)
        left = {cls for cls, _ in c2.fails}
        explained = {cls for cls, _ in c.fails if cls not in left and _strip_tag(cls) in SELF_CLASSES}
    seen = set()
    for cls, msg in c.fails:
        if cls in seen:
            continue
        seen.add(cls)
        key = "fail:" + cls
        res["outcomes"][key] = res["outcomes"].get(key, 0) + 1
        if len(res["violations"]) < 60:
            w = {"prog": prog, "prog_text": R.fmt_prog(prog), "check": cls, "level": level,
                 "what": f"[{R.fmt_prog(prog)}] {msg}", "class": cls}
            if cls in explained:
                w["explained"] = "self_flow_as_loss"
                w["class"] = "self_flow_as_loss"  # one report line for the whole family
            res["violations"].append(w)
    return len(c.fails)


# ----------------------------------------------------------------------------- part G: graphs
def edge_list(names, selfloops):
    out = [(i, j) for i in names for j in names if i != j]
    out += [(i, OUT) for i in names]
    if selfloops:
        out += [(i, i) for i in names]
    return out


def scheme_kind(scheme, i, j):
    if scheme == "mmout":
        return "mm" if j == OUT else "sym"
    return scheme


def deco_menu(names, menu):
    """list of {name: attrs}"""
    out = []
    n = len(names)

    def deco(dcfg, m):
        d = {x: {} for x in names}
        for pos, (k, kind) in enumerate(dcfg):
            d[names[k]].setdefault("doses", []).append(kind)
        if len(dcfg) == 2:
            d[names[dcfg[0][0]]]["lag"] = True
            d[names[dcfg[1][0]]]["F"] = True
        if m is not None:
            d[names[m]]["input"] = True
        return d

    singles = [((k, "B1"),) for k in range(n)]
    pairs = [((k, "B1"), (l, "I2")) for k in range(n) for l in range(n) if k != l]
    if menu == "full":
        for dcfg in [()] + singles + pairs:
            for m in [None] + list(range(n)):
                out.append(deco(dcfg, m))
        out.append(deco(((0, "B1"), (0, "I2")), None))
    elif menu == "single":   # no dose / one dose x no input / one input
        for dcfg in [()] + singles:
            for m in [None] + list(range(n)):
                out.append(deco(dcfg, m))
    elif menu == "dose":     # no dose / one dose
        for dcfg in [()] + singles:
            out.append(deco(dcfg, None))
    elif menu == "none":
        out.append(deco((), None))
    elif menu == "mid":      # no dose / dose on the 2nd name and input on the 3rd
        out.append(deco((), None))
        out.append(deco(((1, "B1"),), 2))
    elif menu == "dosein":   # dose on the last name, input on the first
        out.append(deco(((n - 1, "B1"),), 0 if n > 1 else None))
    else:
        raise ValueError(menu)
    return out


def graph_prog(names, edges, scheme, deco, hist):
    prog = []
    if hist == 0:
        for nm in names:
            a = {k: v for k, v in deco[nm].items() if v}
            prog.append(["addc", nm, a] if a else ["addc", nm])
        for (i, j) in edges:
            prog.append(["flow", i, j, scheme_kind(scheme, i, j)])
    else:
        for nm in reversed(names):
            prog.append(["addc", nm])
        for (i, j) in reversed(edges):
            prog.append(["flow", i, j, scheme_kind(scheme, i, j)])
        for nm in names:
            a = deco[nm]
            if a.get("doses"):
                prog.append(["setdose", nm, [a["doses"][0]]])
                for d in a["doses"][1:]:
                    prog.append(["adddose", nm, d])
            if a.get("input"):
                prog.append(["input", nm, 1])
            if a.get("lag"):
                prog.append(["lag", nm, 1])
            if a.get("F"):
                prog.append(["F", nm, 1])
    return prog


def g_cases(n, scheme, selfloops, menu, lo, hi):
    names = R.POOL[:n]
    el = edge_list(names, selfloops)
    nself = n if selfloops else 0
    decos = deco_menu(names, menu)
    for mask in range(lo, hi):
        edges = [e for b, e in enumerate(el) if mask >> b & 1]
        if selfloops and not any(i == j for i, j in edges):
            continue  # covered by the family without self flows
        for di, deco in enumerate(decos):
            yield graph_prog(names, edges, scheme, deco, (mask + di) & 1)


def n_masks(n, selfloops):
    return 1 << (n * (n - 1) + n + (n if selfloops else 0))


# (n, scheme, selfloops, menu, level)
G_PLANS = {
    "quick": [
        (3, "sym", False, "single", "light"),
        (3, "sym", False, "dosein", "full"),
        (3, "sym", False, "none", "tocs"),
        (3, "pk", False, "none", "tocs"),
        (3, "shared", False, "none", "tocs"),
        (3, "sum", False, "none", "tocs"),
        (2, "sum", False, "single", "full"),
        (2, "sym", False, "full", "full"),
        (2, "mm", False, "full", "full"),
        (2, "pk", False, "single", "full"),
        (2, "shared", False, "single", "full"),
        (1, "sym", False, "full", "full"),
        (1, "mm", False, "full", "full"),
        (2, "sym", True, "dose", "full"),
        (1, "sym", True, "dose", "full"),
    ],
    "thorough": [
        (4, "sym", False, "mid", "light"),
        (3, "sym", False, "full", "serial"),
        (3, "sym", False, "single", "full"),
        (3, "pk", False, "dose", "full"),
        (3, "mmout", False, "dose", "full"),
        (3, "mm", False, "dose", "full"),
        (3, "shared", False, "dose", "full"),
        (3, "sum", False, "dose", "full"),
        (3, "sum", False, "none", "tocs"),
        (3, "sym", True, "dose", "light"),
        (2, "sym", False, "full", "full"),
        (2, "pk", False, "full", "full"),
        (2, "mm", False, "full", "full"),
        (2, "mmout", False, "full", "full"),
        (2, "shared", False, "full", "full"),
        (2, "sym", True, "full", "full"),
        (2, "pk", True, "dose", "full"),
        (1, "sym", False, "full", "full"),
        (1, "pk", False, "full", "full"),
        (1, "mm", False, "full", "full"),
        (1, "sym", True, "full", "full"),
    ],
}

# rough CPU seconds per case (n = 3) used only to size the shards
COST = {"light": 0.02, "serial": 0.045, "tocs": 0.08, "full": 0.2}


# ----------------------------------------------------------------------------- part S: sequences
BASES = [
    # 0: two-compartment disposition, bolus into A
    [["addc", "A", {"doses": ["B1"]}], ["addc", "B"], ["flow", "A", "B", "sym"], ["flow", "B", "A", "sym"],
     ["flow", "A", OUT, "pk"]],
    # 1: depot with lag -> central -> out, peripheral
    [["addc", "B"], ["addc", "A", {"doses": ["B1"], "lag": True, "F": True}], ["addc", "C"],
     ["flow", "A", "B", "sym"], ["flow", "B", OUT, "mm"], ["flow", "B", "C", "pk"], ["flow", "C", "B", "pk"]],
    # 2: no dose, input
    [["addc", "B", {"input": True}], ["addc", "A"], ["flow", "B", "A", "sym"], ["flow", "A", OUT, "sym"]],
    # 3: two dosed compartments (oral + iv), different admid
    [["addc", "A", {"doses": ["B1"]}], ["addc", "B", {"doses": ["I2"]}], ["flow", "A", "B", "sym"],
     ["flow", "B", OUT, "sym"]],
    # 4: upstream compartment + two outputs
    [["addc", "C"], ["addc", "B", {"doses": ["B1", "I2"]}], ["addc", "A"], ["flow", "C", "B", "sym"],
     ["flow", "B", "A", "sym"], ["flow", "A", OUT, "sym"], ["flow", "B", OUT, "sym"]],
    # 5: empty builder
    [],
    # 6: cycle of three, dose in the middle of the name order
    [["addc", "A"], ["addc", "B", {"doses": ["I1"]}], ["addc", "C", {"input": True}], ["flow", "A", "B", "sym"],
     ["flow", "B", "C", "sym"], ["flow", "C", "A", "sym"], ["flow", "C", OUT, "pk"]],
]

POOL4 = ["A", "B", "C", "D"]
# tier -> [(base index, depth)]
S_PLANS = {"quick": [(0, 2), (1, 2), (3, 2), (4, 2), (5, 4)],
           "thorough": [(0, 3), (1, 3), (2, 3), (3, 3), (4, 3), (6, 3), (5, 5)]}


def ops_at(ref, pool):
    names = sorted(ref.comps)
    out = []
    free = [nm for nm in pool if nm not in ref.comps]
    for nm in dict.fromkeys(free[:1] + free[-1:]):  # the first and the last free name of the pool
        out.append(["addc", nm])
    for nm in names:
        out.append(["rmc", nm])
    for i in names:
        for j in names + [OUT]:
            if i == j:
                continue
            if (i, j) in ref.flows:
                out.append(["rmflow", i, j])
            else:
                out.append(["flow", i, j, "sym"])
    for nm in names:
        c = ref.comps[nm]
        out.append(["setdose", nm, []])
        out.append(["setdose", nm, ["B1"]])
        out.append(["setdose", nm, ["I2", "B1"]])
        out.append(["adddose", nm, "B2"])
        out.append(["rmdose", nm, 0])
        out.append(["rmdose", nm, 1])
        for m in names:
            if m != nm:
                out.append(["mvdose", nm, m, 0])
                out.append(["mvdose", nm, m, 2])
        out.append(["lag", nm, 0 if c["lag"] else 1])
        out.append(["F", nm, 0 if c["F"] else 1])
        out.append(["input", nm, 0 if c["input"] else 1])
    return out


def state_key(cs, ref):
    """complete builder graph incl. insertion order (what all observers are a function of): node order,
    successor / predecessor order per node; attributes and rates are a function of the reference state"""
    g = cs._g

    def nm(x):
        return getattr(x, "name", OUT)

    return repr(([nm(u) for u in g.nodes], [[nm(v) for v in g.succ[u]] for u in g.nodes],
                 [[nm(v) for v in g.pred[u]] for u in g.nodes], ref.canon()))


def run_seq(base_idx, depth, pool, first, res, level):
    from pharmpy.model import CompartmentalSystem, CompartmentalSystemBuilder

    base = BASES[base_idx]
    cs0, ref0, st, msg, done = run_prog(base)
    res["transitions"] += done
    if cs0 is None:
        res["violations"].append({"prog": base, "prog_text": R.fmt_prog(base), "check": "base",
                                  "what": f"base system not buildable: {st} {msg}", "class": "base"})
        return
    seen = set()

    def visit(prog, cs, ref):
        res["traces_validated_against_impl"] += 1
        try:
            key = state_key(cs, ref)
        except Exception:
            key = None
        if key is None or key not in seen:
            if key is not None:
                seen.add(key)
            res["states"] += 1
            nf = evaluate(prog, cs, ref, level, res)
            res["outcomes"]["ok" if not nf else "failing_state"] = res["outcomes"].get(
                "ok" if not nf else "failing_state", 0) + 1
            if len(res["samples"]) < 2 and len(prog) == len(base) + depth:
                res["samples"].append(R.fmt_prog(prog))
        else:
            res["outcomes"]["revisited_state"] = res["outcomes"].get("revisited_state", 0) + 1

    def rec(prog, cs, ref, d):
        ops = ops_at(ref, pool)
        lead = True  # this shard is the first one sharing the prefix up to depth d: it owns the prefix states
        if d < len(first):
            ops = [ops[first[d]]] if first[d] < len(ops) else []
            lead = all(x == 0 for x in first[d + 1:])
        for op in ops:
            cb = CompartmentalSystemBuilder(cs)
            st, msg, ref2 = step(cb, ref, op)
            res["transitions"] += 1
            p2 = prog + [op]
            if st == "refused":
                res["outcomes"]["documented_refusal"] = res["outcomes"].get("documented_refusal", 0) + 1
                continue
            if st in ("unexpected_refusal", "internal"):
                k = "op_" + st
                res["outcomes"][k] = res["outcomes"].get(k, 0) + 1
                continue
            if st == "lost":
                res["outcomes"]["fail:lost"] = res["outcomes"].get("fail:lost", 0) + 1
                res["violations"].append({"prog": p2, "prog_text": R.fmt_prog(p2), "check": "lost",
                                          "what": f"[{R.fmt_prog(p2)}] {msg}", "class": "lost"})
                continue
            if st == "not_refused":
                res["outcomes"]["move_dose_without_doses_accepted"] = res["outcomes"].get(
                    "move_dose_without_doses_accepted", 0) + 1
            cs2 = CompartmentalSystem(cb)
            if lead:
                visit(p2, cs2, ref2)
            if d + 1 < depth:
                rec(p2, cs2, ref2, d + 1)

    if first is None:
        visit(list(base), cs0, ref0)
    else:
        rec(list(base), cs0, ref0, 0)


# ----------------------------------------------------------------------------- part F: families n=5,6
def family_edges(fam, names):
    n = len(names)
    if fam == "chain":
        e = [(names[k], names[k + 1]) for k in range(n - 1)] + [(names[-1], OUT)]
    elif fam == "rchain":
        e = [(names[k + 1], names[k]) for k in range(n - 1)] + [(names[0], OUT)]
    elif fam == "star":   # mammillary: centre = 3rd name
        ce = names[2]
        e = []
        for x in names:
            if x != ce:
                e += [(ce, x), (x, ce)]
        e.append((ce, OUT))
    elif fam == "cycle":
        e = [(names[k], names[(k + 1) % n]) for k in range(n)] + [(names[1], OUT)]
    elif fam == "complete":
        e = [(i, j) for i in names for j in names if i != j] + [(i, OUT) for i in names]
    else:
        raise ValueError(fam)
    return e


F_FAMS = ["chain", "rchain", "star", "cycle", "complete"]


def f_cases(fam, n, scheme):
    names = R.POOL[:n]
    edges = family_edges(fam, names)
    decos = deco_menu(names, "single")
    for di, deco in enumerate(decos):
        yield graph_prog(names, edges, scheme, deco, di & 1)


# ----------------------------------------------------------------------------- runner API
def shards(tier):
    out = []
    for pi, (n, scheme, selfloops, menu, level) in enumerate(G_PLANS[tier]):
        if selfloops and not SELF_LOOPS:
            continue
        total = n_masks(n, selfloops)
        nd = len(deco_menu(R.POOL[:n], menu))
        target = 8.0 if tier == "quick" else 40.0
        chunk = max(1, int(target / (nd * COST[level] * (1.5 if n == 4 else 1.0))))
        for lo in range(0, total, chunk):
            out.append(("G", n, scheme, selfloops, menu, level, lo, min(total, lo + chunk)))
    pool = POOL4
    for b, depth in S_PLANS[tier]:
        _, ref0, _, _, _ = run_prog(BASES[b])
        out.append(("S", b, depth, pool, None))
        ops0 = ops_at(ref0, pool)
        for f in range(len(ops0)):
            ref1 = ref0.copy()
            if len(ops0) > 8 or depth < 2 or ref1.apply(ops0[f]) != "ok":
                out.append(("S", b, depth, pool, [f]))
            else:  # few first operations (empty builder): shard by the first two operations
                for f2 in range(len(ops_at(ref1, pool))):
                    out.append(("S", b, depth, pool, [f, f2]))
    if tier == "thorough":
        for fam in F_FAMS:
            for n in (5, 6):
                for scheme in ("sym", "pk", "mmout"):
                    out.append(("F", fam, n, scheme))
    # heavy first: big families, then sequences, then graph shards
    order = {"F": 0, "S": 1, "G": 2}
    out.sort(key=lambda s: (order[s[0]], -len(family_edges(s[1], R.POOL[:s[2]])) if s[0] == "F" else 0))
    return out


def new_res():
    return {"states": 0, "transitions": 0, "evaluations": 0, "distinct_nontrivial": 0,
            "traces_validated_against_impl": 0, "values_compared": 0, "keys": [], "cpu_s": 0.0,
            "violations": [], "samples": [], "outcomes": {}, "capped": False}


def run_case(prog, level, res):
    cs, ref, st, msg, done = run_prog(prog)
    res["transitions"] += done
    res["states"] += 1
    if cs is None:
        if st == "internal" or st == "unexpected_refusal":
            res["outcomes"]["op_" + st] = res["outcomes"].get("op_" + st, 0) + 1
        else:
            res["violations"].append({"prog": prog, "prog_text": R.fmt_prog(prog), "check": st,
                                      "what": f"[{R.fmt_prog(prog)}] {st}: {msg}", "class": st})
        return
    res["traces_validated_against_impl"] += 1
    nf = evaluate(prog, cs, ref, level, res)
    k = "ok" if not nf else "failing_state"
    res["outcomes"][k] = res["outcomes"].get(k, 0) + 1


def run_shard(shard, tier):
    res = new_res()
    t0 = time.process_time()
    try:
        _run_shard(shard, tier, res)
    finally:
        res["cpu_s"] = round(time.process_time() - t0, 3)
        res["cpu_s_part_" + shard[0]] = res["cpu_s"]
    return res


def post(tot, tier):
    """distinct states are counted over the whole run (shards may reach the same builder graph)"""
    keys = tot.pop("keys", [])
    ks = set(keys)
    tot["distinct_states"] = len({k >> 1 for k in ks})
    tot["distinct_nontrivial"] = len({k >> 1 for k in ks if k & 1})
    for k in list(tot):
        if k.startswith("cpu_s"):
            tot[k] = round(tot[k], 1)


def _run_shard(shard, tier, res):
    if shard[0] == "G":
        _, n, scheme, selfloops, menu, level, lo, hi = shard
        for idx, prog in enumerate(g_cases(n, scheme, selfloops, menu, lo, hi)):
            run_case(prog, level, res)
            if idx in (5, 37) and len(res["samples"]) < 2:
                res["samples"].append(R.fmt_prog(prog))
    elif shard[0] == "S":
        _, b, depth, pool, first = shard
        run_seq(b, depth, pool, first, res, "serial")
    elif shard[0] == "F":
        _, fam, n, scheme = shard
        for idx, prog in enumerate(f_cases(fam, n, scheme)):
            run_case(prog, "full", res)
            if idx == 3:
                res["samples"].append(R.fmt_prog(prog))


def replay(w):
    prog = w["prog"]
    cs, ref, st, msg, _ = run_prog(prog)
    if cs is None:
        return [f"{st}: {msg}"]
    c = oracle(cs, ref, w.get("level", "full"), {"outcomes": {}})
    want = w.get("check")
    msgs = [f"{cls}: {m}" for cls, m in c.fails if want is None or cls == want]
    return msgs


def classify(w):
    # a flow i->i is subtracted from the diagonal of the compartmental matrix but never added back
    if w.get("explained") == "self_flow_as_loss" and any(
            op[0] == "flow" and op[1] == op[2] for op in w.get("prog", [])):
        return "self_flow_counted_as_loss"
    # CompartmentalSystem.__eq__ evaluates self.dosing_compartments, which raises ValueError when no compartment
    # has a dose, or when one has but no compartment flows to output (central_compartment undefined)
    if w.get("check") in ("serial_eq_raised", "subs_eq_raised") and "raised ValueError" in w.get("what", ""):
        has_dose, has_out = _prog_summary(w.get("prog", []))
        msg = w.get("what", "")
        if "No dosing compartment exists" in msg and not has_dose:
            return "eq_raises_when_dosing_compartments_undefined"
        if "Cannot find central compartment" in msg and has_dose and not has_out:
            return "eq_raises_when_dosing_compartments_undefined"
    return None


def _prog_summary(prog):
    """(some compartment has a dose, some compartment flows to output) in the reference end state"""
    ref = R.Ref()
    for op in prog:
        ref.apply(_tuplify_op(op))
    return (any(c["doses"] for c in ref.comps.values()), any(j == OUT for (_, j) in ref.flows))
