"""C04 - parameter and random-effect edits are written back exactly.

Layouts of $THETA/$OMEGA/$SIGMA records (vlib.nmgen, generated from the record grammars) are embedded in a minimal $PRED model
that uses every theta/eta/eps; every edit of a per-state menu is applied (depth 1, depth 2 in thorough); the generated code is
re-read and must give exactly the parameters and random-effect distributions of the in-memory model; unchanged values keep
their spelling.
"""
from __future__ import annotations

import itertools
import math
import re

PROPERTY = "C04"
LEVEL = "model_checking"
ENGINE = "seqx"
PREIMPORT = ("pharmpy.modeling",)
TECHNIQUE = ("bounded exhaustive enumeration of parameter-record layouts x edit sequences on real models; differential oracle "
             "(re-read of the generated code vs the in-memory object) plus spelling frame")
LEVEL_TEXT = ("Every layout of the generated layout space is combined with every edit of the menu (sequences up to the stated depth); "
              "the oracle is the differential 'read(code(E(M))) == E(M)' on parameters and random variables.")
LEVEL_NOTE = "trusted: the layout generators (vlib/nmgen.py) and the comparison functions in this file; names compared exactly, values at 1e-12 relative"
RULE = ("layouts = theta record sets (17 item forms, singles and pairs) and omega record sets (23 forms, SAME continuations, diag x block pairs); "
        "edits = set init/lower/upper, fix/unfix each parameter, add theta, add/remove IIV, join/split, error model; non-trivial = layout accepted and the edit changed the code")
ASSUMPTIONS = ["layouts that pharmpy refuses to read are counted, not failed", "an edit that refuses (ValueError/NotImplementedError/ModelError) ends the branch; any other exception of an edit is an edit that could not be written back"]
BOUNDS = {"quick": "theta: 17 single item forms + all pairs of 7 core forms (one- and two-record); omega: all single forms, SAME continuations, every third diag x block pair; edit depth 1, plus (structural edit, write back, every edit) on the small omega layouts", "thorough": "three-item theta layouts; edit depth 2: every edit pair on the 60 smallest layouts, (structural edit, write back, every edit) on all layouts"}


def layouts(tier):
    from vlib import nmgen

    out = []
    items = nmgen.theta_items()
    if tier == "quick":
        # singles of every item form; pairs over the 7 structurally different forms (one and two records)
        core = [items[i] for i in (0, 1, 2, 5, 6, 9, 16)]
        trecs = [[f"$THETA {a}"] for a in items]
        for a, b in itertools.product(core, repeat=2):
            trecs.append([f"$THETA {a} {b}"])
            trecs.append([f"$THETA {a}", f"$THETA {b}"])
        orecs = nmgen.omega_records(tier)
        nprod = sum(1 for r in orecs if len(r) == 2 and "BLOCK" in r[1] and "SAME" not in r[1] and "BLOCK" not in r[0])
        head = len(orecs) - nprod  # single forms, SAME continuations, diag x diag pairs: all; diag x block product: every third
        orecs = orecs[:head] + orecs[head::3]
    else:
        trecs = nmgen.theta_records(tier)
        orecs = nmgen.omega_records(tier)
    for recs in trecs:
        out.append(("theta", recs, ["$OMEGA 0.1", "$OMEGA 0.2"], ["$SIGMA 0.3"]))
    for recs in orecs:
        out.append(("omega", ["$THETA (0,1.5) ; TVCL", "$THETA 2.5"], recs, ["$SIGMA 0.3"]))
    for recs in nmgen.omega_records(tier)[:(12 if tier == "quick" else 40)]:
        sig = [r.replace("$OMEGA", "$SIGMA") for r in recs]
        out.append(("sigma", ["$THETA (0,1.5)"], ["$OMEGA 0.1"], sig))
    return out


def model_text(thetas, omegas, sigmas):
    from vlib import nmref

    stub = "$PROBLEM p\n" + "\n".join(thetas + omegas + sigmas) + "\n"
    cs = nmref.ControlStream(stub)
    nth = len(cs.thetas)
    neta = sum(b["size"] for b in cs.omega_blocks)
    neps = sum(b["size"] for b in cs.sigma_blocks)
    terms = [f"THETA({i})" for i in range(1, nth + 1)] + [f"ETA({i})" for i in range(1, neta + 1)]
    lines = []
    acc = "0"
    for i, t in enumerate(terms):
        lines.append(f"A{i} = {acc} + {t}")
        acc = f"A{i}"
    lines.append(f"F = {acc}")
    lines.append("Y = F" + "".join(f" + EPS({i})*F" if i == 1 else f" + EPS({i})" for i in range(1, neps + 1)))
    return ("$PROBLEM layout\n$INPUT ID TIME DV\n$DATA data.csv IGNORE=@\n$PRED\n" + "\n".join(lines) + "\n" + "\n".join(thetas + omegas + sigmas)
            + "\n$ESTIMATION METHOD=1 INTER\n")


def edits(model):
    """list of (label, callable)"""
    import pharmpy.modeling as pm

    out = []
    rvp = set(model.random_variables.parameter_names)
    thetas = [p for p in model.parameters if p.name not in rvp]
    for p in thetas[:3]:
        n = p.name
        out.append((f"init({n})", lambda m, n=n: pm.set_initial_estimates(m, {n: _newinit(m.parameters[n])})))
        out.append((f"lower({n})", lambda m, n=n: pm.set_lower_bounds(m, {n: _newinit(m.parameters[n]) - 7.0})))
        out.append((f"upper({n})", lambda m, n=n: pm.set_upper_bounds(m, {n: _newinit(m.parameters[n]) + 9.0})))
        out.append((f"fix({n})", lambda m, n=n: pm.fix_parameters(m, [n])))
        out.append((f"unfix({n})", lambda m, n=n: pm.unfix_parameters(m, [n])))
    for n in list(rvp)[:4]:
        out.append((f"init({n})", lambda m, n=n: pm.set_initial_estimates(m, {n: m.parameters[n].init * 1.25 if m.parameters[n].init else 0.05})))
        out.append((f"fix({n})", lambda m, n=n: pm.fix_parameters(m, [n])))
        out.append((f"unfix({n})", lambda m, n=n: pm.unfix_parameters(m, [n])))
    out.append(("add_theta", lambda m: pm.add_population_parameter(m, "NEWTH", 3.25, lower=0.0)))
    etas = model.random_variables.iiv.names
    for e in etas[:3]:
        out.append((f"remove_iiv({e})", lambda m, e=e: pm.remove_iiv(m, e)))
        out.append((f"split({e})", lambda m, e=e: pm.split_joint_distribution(m, e)))
    for a, b in itertools.combinations(etas[:3], 2):
        out.append((f"join({a},{b})", lambda m, a=a, b=b: pm.create_joint_distribution(m, [a, b])))
    out.append(("join(all)", lambda m: pm.create_joint_distribution(m)))
    out.append(("add_iiv(A0)", lambda m: pm.add_iiv(m, "A0", "add")))
    out.append(("err_additive", lambda m: pm.set_additive_error_model(m)))
    out.append(("err_combined", lambda m: pm.set_combined_error_model(m)))
    return out


def _newinit(p):
    v = float(p.init) * 1.3 + 0.0123
    if p.upper is not None and v >= p.upper:
        v = (float(p.init) + float(p.upper)) / 2 if math.isfinite(p.upper) else v
    if p.lower is not None and v <= p.lower:
        v = float(p.init)
    return v


def compare(model, back):
    """differences between the in-memory model and the re-read generated code"""
    from vlib.xeval import close, ev

    out = []
    a, b = list(model.parameters), list(back.parameters)
    an, bn = [p.name for p in a], [p.name for p in b]
    names_differ = sorted(an) != sorted(bn)
    if names_differ:
        out.append(f"parameter names differ: model {an}, re-read {bn}")
        # names that are only positional defaults may be renumbered by the re-read; the values must still be the same set, so
        # that a lost or wrong value is not hidden behind the name difference
        v1 = sorted(round(float(p.init), 12) for p in a)
        v2 = sorted(round(float(p.init), 12) for p in b)
        if len(v1) != len(v2) or any(not close(x, y, 1e-10) for x, y in zip(v1, v2)):
            out.append(f"VALUE the initial values of the model {v1} are not the values in the re-read code {v2}")
        return out
    bd = {p.name: p for p in b}
    variances = set()
    for dist in model.random_variables:
        n = len(dist.names)
        v = dist.variance
        for i in range(n):
            variances |= {str(x) for x in (v if n == 1 else v[i, i]).free_symbols}
    for p in a:
        q = bd[p.name]
        lo1 = -math.inf if p.lower is None else float(p.lower)
        lo2 = -math.inf if q.lower is None else float(q.lower)
        up1 = math.inf if p.upper is None else float(p.upper)
        up2 = math.inf if q.upper is None else float(q.upper)
        if p.name in variances and lo1 == -math.inf and lo2 == 0:
            lo2 = lo1
        if lo1 <= -1000000:
            lo1 = -math.inf
        if up1 >= 1000000:
            up1 = math.inf
        if not close(float(p.init), float(q.init), 1e-12):
            out.append(f"{p.name}: init {p.init!r} in the model, {q.init!r} after re-reading the code")
        if lo1 != lo2 and not close(lo1, lo2, 1e-12):
            out.append(f"{p.name}: lower bound {p.lower} in the model, {q.lower} after re-reading")
        if up1 != up2 and not close(up1, up2, 1e-12):
            out.append(f"{p.name}: upper bound {p.upper} in the model, {q.upper} after re-reading")
        if bool(p.fix) != bool(q.fix):
            out.append(f"{p.name}: fix {p.fix} in the model, {q.fix} after re-reading")
    for sel in ("etas", "epsilons"):
        r1, r2 = getattr(model.random_variables, sel), getattr(back.random_variables, sel)
        if len(r1.names) != len(r2.names):
            out.append(f"{sel}: {list(r1.names)} in the model, {list(r2.names)} after re-reading")
            continue
        if sel == "etas" and list(r1.names) != list(r2.names):
            out.append(f"eta names: {list(r1.names)} in the model, {list(r2.names)} after re-reading")
        env1 = {p.name: float(p.init) for p in model.parameters}
        env2 = {p.name: float(p.init) for p in back.parameters}
        n = len(r1.names)
        for i in range(n):
            for j in range(i + 1):
                v1 = ev(r1.get_covariance(r1.names[i], r1.names[j]), env1)
                v2 = ev(r2.get_covariance(r2.names[i], r2.names[j]), env2)
                if not close(v1, v2, 1e-10):
                    out.append(f"cov({r1.names[i]},{r1.names[j]}) = {v1!r} in the model, {v2!r} after re-reading")
                s1 = {str(x) for x in r1.get_covariance(r1.names[i], r1.names[j]).free_symbols}
                s2 = {str(x) for x in r2.get_covariance(r2.names[i], r2.names[j]).free_symbols}
                if s1 != s2:
                    out.append(f"cov({r1.names[i]},{r1.names[j]}) is parameter {sorted(s1)} in the model, {sorted(s2)} after re-reading")
            if r1[r1.names[i]].level != r2[r2.names[i]].level:
                out.append(f"level of {r1.names[i]}: {r1[r1.names[i]].level} in the model, {r2[r2.names[i]].level} after re-reading")
        d1 = [tuple(d.names) for d in r1]
        d2 = [tuple(d.names) for d in r2]
        if sel == "etas" and d1 != d2:
            out.append(f"block structure {d1} in the model, {d2} after re-reading")
    return out[:4]


NUM = re.compile(r"(?<![A-Za-z_(\d.])[-+]?(?:\d+\.?\d*|\.\d+)(?:[EeDd][-+]?\d+)?")


def spelling_frame(before_code, after_code, model, edited):
    """numeric tokens of the parameter records that belong to unchanged values must survive verbatim, in order"""
    def tokens(code):
        out = []
        for m in re.finditer(r"^\s*\$(THETA|OMEGA|SIGMA)\b(.*?)(?=^\s*\$|\Z)", code, re.S | re.M):
            body = "\n".join(ln.split(";", 1)[0] for ln in m.group(2).splitlines())
            body = re.sub(r"(BLOCK|DIAGONAL|SAME|VALUES)\s*\([^)]*\)", " ", body, flags=re.I)
            body = re.sub(r"\)\s*[xX]\s*\d+", ")", body)
            out.extend(NUM.findall(body))
        return out
    tb, ta = tokens(before_code), tokens(after_code)
    # longest common subsequence length must cover all but the tokens the edit may rewrite (<= 3 per edited value + new records)
    import difflib

    sm = difflib.SequenceMatcher(a=tb, b=ta, autojunk=False)
    kept = sum(bl.size for bl in sm.get_matching_blocks())
    lost = len(tb) - kept
    return lost, tb, ta


def shards(tier):
    ls = layouts(tier)
    # the layouts of the recorded known findings are examined in every run, whatever the tier's layout selection leaves out
    import json
    import os

    from vlib import core

    try:
        kf = json.load(open(os.path.join(core.ROOT, "known_findings.json")))["findings"]
    except Exception:
        kf = []
    have = {repr([t, o, g]) for _, t, o, g in ls}
    for f in kf:
        lay = (f.get("witness") or {}).get("layout")
        if f.get("property") == PROPERTY and f.get("kind") == "known" and lay and repr(lay) not in have:
            have.add(repr(lay))
            ls.append(("known", lay[0], lay[1], lay[2]))
    n = 96
    k = (len(ls) + n - 1) // n
    return [("layouts", ls[i:i + k]) for i in range(0, len(ls), k)]


def run_layout(kind, thetas, omegas, sigmas, tier, res):
    import warnings

    import pharmpy.modeling as pm
    from pharmpy.model import ModelError
    from vlib import nmref

    try:
        text = model_text(thetas, omegas, sigmas)
    except (nmref.ParseError, nmref.Unsupported):
        res["outcomes"]["layout:ref-refused"] = res["outcomes"].get("layout:ref-refused", 0) + 1
        return
    label = " / ".join(thetas + omegas + sigmas).replace("\n", " ")
    with warnings.catch_warnings():
        warnings.simplefilter("ignore")
        try:
            m = pm.read_model_from_string(text)
            base_code = m.code
        except Exception as e:
            res["outcomes"][f"layout:refused:{type(e).__name__}"] = res["outcomes"].get(f"layout:refused:{type(e).__name__}", 0) + 1
            return
        res["states"] += 1
        small = len(thetas) + len(omegas) + len(sigmas) <= 4 and sum(len(r) for r in thetas + omegas + sigmas) <= 70
        if tier == "thorough":
            # depth 2: every edit pair on the 60 smallest layouts, structural-first pairs on every other layout
            second = None if repr([thetas, omegas, sigmas]) in _smallest60() else STRUCTURAL
        else:
            second = STRUCTURAL if kind == "omega" and small else ()
        apply_edits(m, base_code, [thetas, omegas, sigmas], label, (), second, res)


STRUCTURAL = ("add_theta", "remove_iiv", "split", "join", "add_iiv")
_SMALL60 = None


def _smallest60():
    global _SMALL60
    if _SMALL60 is None:
        ls = sorted(layouts("thorough"), key=lambda l: (sum(len(r) for r in l[1] + l[2] + l[3]), repr(l)))
        _SMALL60 = {repr([t, o, g]) for _, t, o, g in ls[:60]}
    return _SMALL60


def apply_edits(m, base_code, layout, label, prefix, second, res):
    """every edit of the menu of m; after an edit whose kind is in `second` (None = every kind) the model is written back
    (update_source) and every edit of the menu of the result follows (depth 2)"""
    import pharmpy.modeling as pm
    from pharmpy.model import ModelError

    thetas, omegas, sigmas = layout
    for elabel, f in edits(m):
        full = " ; ".join(prefix + (elabel,))
        res["transitions"] += 1
        res["evaluations"] += 1
        try:
            m2 = f(m)
        except (ValueError, NotImplementedError, ModelError) as e:
            res["outcomes"][f"edit-refused:{type(e).__name__}"] = res["outcomes"].get(f"edit-refused:{type(e).__name__}", 0) + 1
            continue
        except Exception as e:
            # the modeling functions write the model back themselves (update_source): an internal error (IndexError, KeyError,
            # ...) means the edit could not be written back - there is no generated code that gives the edited model
            res["outcomes"][f"edit-crash:{type(e).__name__}"] = res["outcomes"].get(f"edit-crash:{type(e).__name__}", 0) + 1
            res["violations"].append({"layout": [thetas, omegas, sigmas], "edit": full,
                                      "what": f"[{label} : {full}] the edit cannot be written back, it fails with an internal error: {type(e).__name__}: {str(e)[:100]}",
                                      "class": f"internal:{elabel.split('(')[0]}:{type(e).__name__}"})
            continue
        try:
            code = m2.code
        except (ValueError, NotImplementedError, ModelError) as e:
            res["outcomes"][f"write-refused:{type(e).__name__}"] = res["outcomes"].get(f"write-refused:{type(e).__name__}", 0) + 1
            continue
        except Exception as e:
            # the edit was accepted: writing the result back must not fail with an internal error
            res["violations"].append({"layout": [thetas, omegas, sigmas], "edit": full,
                                      "what": f"[{label} : {full}] the edit is accepted but the model cannot be written back: {type(e).__name__}: {str(e)[:100]}",
                                      "class": f"unwritable:{elabel.split('(')[0]}"})
            continue
        try:
            back = pm.read_model_from_string(code)
        except Exception as e:
            res["violations"].append({"layout": [thetas, omegas, sigmas], "edit": full,
                                      "what": f"[{label} : {full}] generated code cannot be read back: {type(e).__name__}: {str(e)[:100]}",
                                      "class": f"unreadable:{elabel.split('(')[0]}"})
            continue
        diffs = compare(m2, back)
        diffs.sort(key=lambda d: 0 if d.startswith("VALUE") else 1)
        res["traces_validated_against_impl"] += 1
        if code != base_code:
            res["distinct_nontrivial"] += 1
        if diffs:
            res["outcomes"]["mismatch"] = res["outcomes"].get("mismatch", 0) + 1
            res["violations"].append({"layout": [thetas, omegas, sigmas], "edit": full,
                                      "what": f"[{label} : {full}] {diffs[0]}", "all": diffs, "class": f"{elabel.split('(')[0]}:{diffs[0].split(':')[0][:30]}"})
        else:
            res["outcomes"]["ok"] = res["outcomes"].get("ok", 0) + 1
        # spelling frame for pure value edits
        if elabel.startswith(("init(", "fix(", "unfix(", "lower(", "upper(")):
            lost, tb, ta = spelling_frame(base_code, code, m, elabel)
            if lost > 3:
                res["violations"].append({"layout": [thetas, omegas, sigmas], "edit": full,
                                          "what": f"[{label} : {full}] {lost} numeric tokens of the parameter records were respelled although one value changed: {tb} -> {ta}",
                                          "class": f"spelling:{elabel.split('(')[0]}"})
        if not prefix and not diffs and code != base_code and (second is None or elabel.split("(")[0] in second):
            try:
                m3 = m2.update_source()
            except Exception:
                continue
            apply_edits(m3, code, layout, label, (elabel,), (), res)


def run_shard(shard, tier):
    res = {"states": 0, "transitions": 0, "evaluations": 0, "distinct_nontrivial": 0, "violations": [], "samples": [],
           "outcomes": {}, "traces_validated_against_impl": 0}
    for kind, th, om, sg in shard[1]:
        run_layout(kind, th, om, sg, tier, res)
    if shard[1]:
        k, th, om, sg = shard[1][0]
        res["samples"].append(" / ".join(th + om + sg).replace("\n", " "))
    return res


def replay(w):
    res = {"states": 0, "transitions": 0, "evaluations": 0, "distinct_nontrivial": 0, "violations": [], "samples": [],
           "outcomes": {}, "traces_validated_against_impl": 0}
    th, om, sg = w["layout"]
    run_layout("omega" if " ; " in w["edit"] else "replay", th, om, sg, "thorough" if " ; " in w["edit"] else "quick", res)
    return [v["what"] for v in res["violations"] if v["edit"] == w["edit"]]


def classify(w):
    from checks import c04_patterns

    return c04_patterns.classify(w)
