"""C14 - dataset derivations agree with record-by-record event semantics.

Bounded-exhaustive enumeration of event datasets built record by record (state = dataset prefix,
transition = append one record) for a family of column layouts; every derivation of
pharmpy.modeling (data.py) is compared with a pure-Python per-individual walk over the records
(vlib/c14_ref.py), and the frame conditions of the column-adding functions are checked.
"""
from __future__ import annotations

import itertools
import math

from vlib import c14_ref as R

PROPERTY = "C14"
LEVEL = "model_checking"
ENGINE = "enumx"
TECHNIQUE = ("bounded exhaustive enumeration of event datasets (prefix transition system: append one record), "
             "every data derivation compared with a reference record-by-record walk")
LEVEL_TEXT = (
    "Every event dataset up to the stated number of individuals/records over the stated record alphabet is "
    "generated (no sampling) for every column layout, and each derivation is compared with an independent "
    "per-individual chronological walk; right level because the property quantifies over all datasets and the "
    "failure modes of the vectorised pandas code (ties, resets, row labels, group order, single-row results) have "
    "witnesses with <= 2 individuals and <= 4 records."
)
LEVEL_NOTE = (
    "trusted: the ~250-line reference walk vlib/c14_ref.py (written from the docstrings and NM-TRAN record "
    "semantics) and pandas itself for building the input frame; where documentation is silent (non-observation "
    "records tied with a dose, several doses at one time, steady-state ties, ties across a reset, records before the "
    "first dose) the oracle accepts every documented reading; nothing is claimed beyond the bounds"
)
PREIMPORT = ("pharmpy.model", "pharmpy.modeling")
RULE = (
    "all datasets whose individuals are record sequences over the layout's record alphabet (record kind x time "
    "increment {0,1}; reset records may also restart time at 0) up to the length bound, for 13 column layouts "
    "(AMT only, clock-time strings, +MDV, +EVID, +EVID+MDV, +CMT, +EVID+CMT, +EVID+ADMID, +ADDL/II (two alphabets), "
    "+SS/II, +RATE, +EVID with dropped decoy dose/event columns); single individuals are enumerated fully; two/three-individual datasets put a fully enumerated "
    "individual before/behind individuals from a fixed context menu, with ids in ascending and in non-sorted, "
    "non-contiguous order; plus a family of long tied individuals and a covariate family; a dataset is non-trivial when "
    "pharmpy accepted it and at least one derived value was compared; state = dataset prefix, transition = append one "
    "record; every derivation (ids, observations, doses, counts, MDV, EVID, dose id, CMT, ADMID, baselines, time-varying "
    "covariates, time after dose, expansion of additional doses, add_admid/add_cmt) is compared with the reference walk"
)
ASSUMPTIONS = [
    "datasets carry the default RangeIndex, the id column is named ID and ids form contiguous blocks",
    "dose period of an observation tied with (recorded after) a dose: preceding period, except first dose and "
    "steady-state dose (docstring + comments of get_doseid); both readings accepted for non-observation records, "
    "several doses at one time, ties across a reset; time after dose is not compared before the first dose and "
    "between a reset record and the next dose (only >= 0 is demanded there)",
    "expand_additional_doses: the order of the individuals in the result is not demanded (counted only); order of "
    "records inside an individual and chronology are",
    "internal errors (TypeError/AttributeError/KeyError...) of a derivation on an in-scope dataset count as 'value "
    "differs from the walk'; DatasetError/ValueError/NotImplementedError are documented refusals",
    "times are non-decreasing inside an individual except at reset records (EVID 3/4) where time may restart at 0",
    "ADDL/II layouts with reset records (layout addlreset) are examined for expand_additional_doses only: the additional doses of an occasion stay in it, records chronological inside each occasion, occasions in their order (NONMEM cancels pending additional doses at a reset; pharmpy documents nothing for the other derivations)",
    "in-place modification of the input model's dataset (add_admid/add_cmt) is counted as an outcome, it belongs to C06",
    "the model is a fixed generic 2-compartment model (DEPOT admid 1, CENTRAL admid 2); NONMEM code generation is not involved",
]
TOL = 1e-7

# context individuals (token sequences) per layout for the multi-individual datasets
CTX = {
    "default": [(("D", 0), ("O", 1)), (("O", 0),)],
    "cmt": [(("D1", 0), ("O", 1)), (("O", 0),)],
    "evidcmt": [(("D2", 0), ("O", 1)), (("O", 0),)],
    "admid": [(("D1", 0), ("O", 1)), (("O", 0),)],
}
IDSETS2 = [(1, 2), (7, 3)]
IDSETS3 = [(1, 2, 3), (5, 2, 9)]

# pair variants: (context individual number, position of the context individual, id assignment)
PAIRS_FULL = [(ci, where, idset) for ci in (0, 1) for where in ("after", "before") for idset in (0, 1)]
PAIRS_LITE = [(0, "after", 0), (0, "after", 1), (0, "before", 1)]

# (layout, single maxlen, pair maxlen (enumerated individual), pair variants, triple maxlen, restarts)
PLANS = {
    "quick": [
        ("base", 5, 3, PAIRS_FULL, 2, False),
        ("clock", 3, 2, PAIRS_LITE, 0, False),
        ("mdv", 3, 2, PAIRS_LITE, 0, False),
        ("evid", 3, 2, PAIRS_LITE, 0, True),
        ("evidmdv", 2, 1, PAIRS_LITE, 0, True),
        ("cmt", 3, 2, PAIRS_LITE, 0, False),
        ("evidcmt", 3, 1, PAIRS_LITE, 0, True),
        ("admid", 3, 1, PAIRS_LITE, 0, False),
        ("addl", 4, 2, PAIRS_FULL, 0, False),
        ("addl2", 3, 0, PAIRS_LITE, 0, False),
        ("addlreset", 4, 2, PAIRS_LITE, 0, True),
        ("ss", 4, 1, PAIRS_LITE, 0, False),
        ("rate", 3, 0, PAIRS_LITE, 0, False),
        ("decoy", 3, 0, PAIRS_LITE, 0, False),
    ],
    "thorough": [
        ("base", 7, 4, PAIRS_FULL, 3, False),
        ("clock", 4, 3, PAIRS_LITE, 0, False),
        ("mdv", 5, 3, PAIRS_FULL, 2, False),
        ("evid", 4, 3, PAIRS_LITE, 2, True),
        ("evidmdv", 3, 2, PAIRS_LITE, 0, True),
        ("cmt", 5, 3, PAIRS_LITE, 0, False),
        ("evidcmt", 4, 3, PAIRS_LITE, 0, True),
        ("admid", 4, 3, PAIRS_LITE, 0, False),
        ("addl", 5, 4, PAIRS_FULL, 2, False),
        ("addl2", 4, 3, PAIRS_LITE, 0, False),
        ("addlreset", 5, 3, PAIRS_LITE, 0, True),
        ("ss", 5, 3, PAIRS_FULL, 0, False),
        ("rate", 4, 2, PAIRS_LITE, 0, False),
        ("decoy", 4, 2, PAIRS_LITE, 0, False),
    ],
}


def _bound_text(tier):
    parts = []
    for layout, smax, pmax, pv, tmax, restarts in PLANS[tier]:
        t = f"{layout}[{'/'.join(R.LAYOUTS[layout][1])}]: 1 individual <= {smax} records"
        if pmax:
            t += f", 2 individuals ({len(pv)} context/id variants) enumerated one <= {pmax}"
        if tmax:
            t += f", 3 individuals enumerated one <= {tmax}"
        parts.append(t)
    parts.append("long: 18 datasets of one 18-record individual with ties and ADDL; covariate family: "
                 + ("<= 3 individuals x <= 2 records and <= 2 x <= 3" if tier == "quick" else "<= 3 individuals x <= 3 records")
                 + " over all value sequences {1,2}")
    return "; ".join(parts)


BOUNDS = {"quick": _bound_text("quick"), "thorough": _bound_text("thorough")}


# ----------------------------------------------------------------------------- building
_STATS = None


def _statements():
    global _STATS
    if _STATS is None:
        from pharmpy.basic import Expr
        from pharmpy.model import (
            Assignment,
            Bolus,
            Compartment,
            CompartmentalSystem,
            CompartmentalSystemBuilder,
            Statements,
            output,
        )

        cb = CompartmentalSystemBuilder()
        dep = Compartment.create("DEPOT", doses=(Bolus.create("AMT", admid=1),))
        cen = Compartment.create("CENTRAL", doses=(Bolus.create("AMT", admid=2),))
        cb.add_compartment(dep)
        cb.add_compartment(cen)
        cb.add_flow(dep, cen, Expr.symbol("KA"))
        cb.add_flow(cen, output, Expr.symbol("K"))
        _STATS = Statements([
            Assignment.create(Expr.symbol("KA"), Expr.symbol("TH1")),
            Assignment.create(Expr.symbol("K"), Expr.symbol("TH2")),
            CompartmentalSystem(cb),
            Assignment.create(Expr.symbol("Y"), Expr.function("A_CENTRAL", Expr.symbol("t"))),
        ])
    return _STATS


_DI = {}


def _datainfo(layout):
    """DataInfo of a layout (immutable, built once per process: ColumnInfo.create costs ~10 ms)"""
    if layout not in _DI:
        from pharmpy.model import ColumnInfo, DataInfo

        infos = []
        for c in R.columns(layout):
            kw = dict(R.COLTYPES[c])
            if c == "TIME" and layout == "clock":
                kw["datatype"] = "nmtran-time"
            infos.append(ColumnInfo.create(c, **kw))
        _DI[layout] = DataInfo.create(infos)
    return _DI[layout]


def build_model(layout, recs):
    import numpy as np
    import pandas as pd
    from pharmpy.model import ColumnInfo, DataInfo, Model, Parameter, Parameters

    cols = R.columns(layout)
    data = {}
    for c in cols:
        vals = [r[c] for r in recs]
        if c == "TIME" and layout == "clock":
            data[c] = pd.Series(vals, dtype="str")
        elif c in R.INTCOLS:
            data[c] = np.array(vals, dtype="int64")
        else:
            data[c] = np.array(vals, dtype="float64")
    df = pd.DataFrame(data, columns=cols)
    di = _datainfo(layout)
    model = Model.create(name="m", statements=_statements(), datainfo=di, dataset=df,
                         parameters=Parameters.create([Parameter.create("TH1", 1.0), Parameter.create("TH2", 1.0)]))
    return model, df


# ----------------------------------------------------------------------------- helpers
REFUSALS = None


def _refusals():
    global REFUSALS
    if REFUSALS is None:
        from pharmpy.model import DatasetError

        REFUSALS = (DatasetError, NotImplementedError, ValueError)
    return REFUSALS


def feq(a, b):
    try:
        a = float(a)
        b = float(b)
    except (TypeError, ValueError):
        return a == b
    if math.isnan(a) or math.isnan(b):
        return math.isnan(a) and math.isnan(b)
    if math.isinf(a) or math.isinf(b):
        return a == b
    return abs(a - b) <= TOL * max(1.0, abs(a), abs(b))


def veq(a, b):
    """value equality: numbers by tolerance, strings exactly"""
    if isinstance(a, str) or isinstance(b, str):
        return str(a) == str(b)
    return feq(a, b)


def in_set(v, acc):
    return any(feq(v, a) for a in acc)


def pylist(ser):
    return [x.item() if hasattr(x, "item") else x for x in ser.tolist()] if hasattr(ser, "tolist") else list(ser)


class Issues:
    def __init__(self):
        self.items = []  # (class, text, extra)
        self.compared = 0
        self.outcomes = {}

    def add(self, cls, text, **extra):
        self.items.append((cls, text, extra))

    def count(self, label):
        self.outcomes[label] = self.outcomes.get(label, 0) + 1


def call(iss, name, fn, *args, **kw):
    """run fn; returns (ok, result). Documented refusals are counted, other exceptions are issues"""
    try:
        return True, fn(*args, **kw)
    except _refusals() as e:
        iss.count(f"refused:{name}:{type(e).__name__}")
        return False, None
    except Exception as e:  # internal error: the derivation has no value at all
        iss.add(f"{name}:exception:{type(e).__name__}", f"{name} raised {type(e).__name__}: {str(e)[:120]}")
        return False, None


def check_series_len(iss, name, ser, n):
    import pandas as pd

    if not isinstance(ser, pd.Series):
        iss.add(f"{name}:not_a_series", f"{name} returned {type(ser).__name__} ({ser!r:.60}) instead of a Series")
        return False
    if len(ser) != n:
        iss.add(f"{name}:length", f"{name} has {len(ser)} entries for {n} records")
        return False
    return True


def compare_accept(iss, name, got, accept, recs):
    """got: list of values per record; accept: list of sets/None"""
    bad = []
    for k, (g, a) in enumerate(zip(got, accept)):
        if a is None:
            continue
        iss.compared += 1
        if not in_set(g, a):
            bad.append([k, g, sorted(a)])
    if bad:
        k, g, a = bad[0]
        iss.add(f"{name}:value", f"{name}: record {k} (ID={recs[k]['ID']},TIME={recs[k]['TIME']}) got {g}, "
                                 f"reference walk gives {a if len(a) > 1 else a[0]}"
                                 + (f" (+{len(bad) - 1} more records)" if len(bad) > 1 else ""), rows=bad)


def frame_check(iss, name, recs, cols, df0, newdf, newcols, dropped=()):
    """existing records, values, dtypes and record order unchanged; only `newcols` added.
    Returns mapping RN -> row position in newdf (or None if records are not identifiable)."""
    keep = [c for c in cols if c not in dropped]
    missing = [c for c in keep if c not in newdf.columns]
    extra = [c for c in newdf.columns if c not in keep and c not in newcols]
    if missing or extra:
        iss.add(f"{name}:frame:columns", f"{name}: columns missing {missing} unexpected {extra}")
        return None
    if len(newdf) != len(recs):
        iss.add(f"{name}:frame:nrecords", f"{name}: {len(newdf)} records, input had {len(recs)}")
        return None
    iss.compared += 1
    rn = [float(x) for x in newdf["RN"].tolist()]
    want_rn = [r["RN"] for r in recs]
    if sorted(rn) != sorted(want_rn):
        iss.add(f"{name}:frame:records", f"{name}: record numbers {rn} are not the input records {want_rn}")
        return None
    pos = {v: k for k, v in enumerate(rn)}
    # values record by record (identified by RN)
    for c in keep:
        col = newdf[c].tolist()
        for r in recs:
            if not veq(col[pos[r["RN"]]], r[c]):
                iss.add(f"{name}:frame:value", f"{name}: column {c} of record RN={r['RN']:.0f} changed from "
                                               f"{r[c]} to {col[pos[r['RN']]]}")
                return pos
    if rn != want_rn:
        order = [int(x) for x in rn]
        byrn = {r["RN"]: r for r in recs}
        idseq = [k for k, _ in itertools.groupby(byrn[x]["ID"] for x in rn)]
        want_ids = [i for i, _ in R.individuals(recs)]
        if idseq != want_ids:
            iss.add(f"{name}:frame:order_individuals",
                    f"{name}: record order changed: individuals now in order {idseq}, input order {want_ids} "
                    f"(records now {order})", order=order)
        within = {}
        for x in rn:
            within.setdefault(byrn[x]["ID"], []).append(int(x))
        moved = [i for i, rows in R.individuals(recs) if within[i] != [int(recs[k]["RN"]) for k in rows]]
        if moved:
            iss.add(f"{name}:frame:order_records",
                    f"{name}: record order changed inside individual {moved[0]}: records now {within[moved[0]]}",
                    order=order)
    if list(newdf.index) != list(range(len(newdf))):
        iss.count(f"{name}:index_not_range")
    changed = [(c, str(df0[c].dtype), str(newdf[c].dtype)) for c in keep if str(df0[c].dtype) != str(newdf[c].dtype)]
    if changed:
        iss.add(f"{name}:frame:dtype", f"{name}: column types changed: " +
                ", ".join(f"{c} {a}->{b}" for c, a, b in changed), changed=[list(x) for x in changed])
    return pos


# ----------------------------------------------------------------------------- the oracle
def check_dataset(layout, ids, indivs, only=None):
    """Return Issues for one dataset."""
    import pandas as pd
    import pharmpy.modeling as pm

    iss = Issues()
    recs = R.materialise(layout, ids, indivs)
    cols = R.columns(layout)
    n = len(recs)
    try:
        model, df0 = build_model(layout, recs)
    except Exception as e:
        iss.add("build", f"building the model failed: {type(e).__name__}: {e}")
        return iss
    snapshot = df0.copy(deep=True)

    def fresh():
        # add_admid/add_cmt write into the frame of the input model: give every mutating call its own
        return build_model(layout, recs)

    if layout == "addlreset":
        # what the other derivations should do with additional doses that are pending at a reset is not defined by the property
        only = "expand_additional_doses"

    def want(name):
        return only is None or name.split(":")[0] == only

    # ---- ids / counts
    if want("get_ids"):
        ok, got = call(iss, "get_ids", pm.get_ids, model)
        if ok:
            iss.compared += 1
            w = [i for i, _ in R.individuals(recs)]
            if list(got) != w:
                iss.add("get_ids:value", f"get_ids gives {got}, records have {w}")
        ok, got = call(iss, "get_number_of_individuals", pm.get_number_of_individuals, model)
        if ok and got != len(ids):
            iss.add("get_number_of_individuals:value", f"get_number_of_individuals gives {got}, want {len(ids)}")

    # ---- observations
    wobs, wrows = R.ref_observations(recs)
    if want("get_observations"):
        ok, got = call(iss, "get_observations", pm.get_observations, model)
        if ok:
            iss.compared += 1
            if not isinstance(got, pd.Series):
                iss.add("get_observations:not_a_series",
                        f"get_observations returned {type(got).__name__} ({got!r:.40}) instead of a Series "
                        f"({len(wobs)} observation record(s))", nobs=len(wobs))
            else:
                g = [(i, t, v) for (i, t), v in zip(got.index.tolist(), got.tolist())]
                w = [(i, float(t) if layout != "clock" else t, v) for (i, t, v) in wobs]
                if len(g) != len(w) or any(not (a[0] == b[0] and veq(a[1], b[1]) and feq(a[2], b[2]))
                                           for a, b in zip(g, w)):
                    iss.add("get_observations:value", f"get_observations gives {g}, reference walk gives {w}")
        ok, got = call(iss, "get_observations(keep_index)", pm.get_observations, model, keep_index=True)
        if ok:
            iss.compared += 1
            if not isinstance(got, pd.Series):
                iss.add("get_observations(keep_index):not_a_series",
                        f"get_observations(keep_index=True) returned {type(got).__name__}")
            elif list(got.index) != wrows or any(not feq(a, b[2]) for a, b in zip(got.tolist(), wobs)):
                iss.add("get_observations(keep_index):value",
                        f"get_observations(keep_index=True) rows {list(got.index)} want rows {wrows}")
    if want("get_number_of_observations"):
        ok, got = call(iss, "get_number_of_observations", pm.get_number_of_observations, model)
        if ok:
            iss.compared += 1
            if got != len(wobs):
                iss.add("get_number_of_observations:value", f"get_number_of_observations gives {got}, walk counts {len(wobs)}")
        ok, got = call(iss, "get_number_of_observations_per_individual",
                       pm.get_number_of_observations_per_individual, model)
        if ok:
            iss.compared += 1
            wc = R.ref_obs_counts(recs)
            if not isinstance(got, pd.Series):
                iss.add("get_number_of_observations_per_individual:not_a_series",
                        f"returned {type(got).__name__}")
            else:
                g = {int(k): int(v) for k, v in got.items()}
                # individuals without observations may be absent (documentation silent)
                if any(g.get(i, 0) != c for i, c in wc.items()) or any(k not in wc for k in g):
                    iss.add("get_number_of_observations_per_individual:value",
                            f"get_number_of_observations_per_individual gives {g}, walk counts {wc}")

    # ---- doses
    if want("get_doses"):
        ok, got = call(iss, "get_doses", pm.get_doses, model)
        if ok:
            iss.compared += 1
            w = R.ref_doses(recs)
            if not isinstance(got, pd.Series):
                iss.add("get_doses:not_a_series",
                        f"get_doses returned {type(got).__name__} ({got!r:.40}) instead of a Series "
                        f"({len(w)} dose record(s))", ndoses=len(w))
            else:
                g = [(i, t, v) for (i, t), v in zip(got.index.tolist(), got.tolist())]
                if len(g) != len(w) or any(not (a[0] == b[0] and veq(a[1], b[1]) and feq(a[2], b[2]))
                                           for a, b in zip(g, w)):
                    iss.add("get_doses:value", f"get_doses gives {g}, reference walk gives {w}")

    # ---- MDV / EVID
    if want("get_mdv"):
        ok, got = call(iss, "get_mdv", pm.get_mdv, model)
        if ok and check_series_len(iss, "get_mdv", got, n):
            compare_accept(iss, "get_mdv", pylist(got), [{v} for v in R.ref_mdv(recs)], recs)
    if want("get_evid"):
        ok, got = call(iss, "get_evid", pm.get_evid, model)
        if ok and check_series_len(iss, "get_evid", got, n):
            compare_accept(iss, "get_evid", pylist(got), [{v} for v in R.ref_evid(recs)], recs)

    # ---- dose period id
    if want("get_doseid"):
        ok, got = call(iss, "get_doseid", pm.get_doseid, model)
        if ok and check_series_len(iss, "get_doseid", got, n):
            acc = R.ref_doseid(layout, recs)
            if any(len(a) > 1 for a in acc):
                iss.count("doseid_documentation_silent_tie")
            compare_accept(iss, "get_doseid", pylist(got), acc, recs)

    # ---- CMT / ADMID
    if want("get_cmt"):
        ok, got = call(iss, "get_cmt", pm.get_cmt, model)
        if ok and check_series_len(iss, "get_cmt", got, n):
            compare_accept(iss, "get_cmt", pylist(got), R.ref_cmt(recs), recs)
    if want("get_admid"):
        ok, got = call(iss, "get_admid", pm.get_admid, model)
        if ok and check_series_len(iss, "get_admid", got, n):
            compare_accept(iss, "get_admid", pylist(got), R.ref_admid(recs), recs)

    # ---- locality: a per-individual walk cannot see other individuals - what a series function reports for the records of one
    #      individual equals what it reports on the dataset of that individual alone (contiguous individuals only)
    inds = R.individuals(recs)
    if want("locality") and len(inds) > 1 and all(rows == list(range(rows[0], rows[0] + len(rows))) for _, rows in inds):
        series_fns = [("get_admid", pm.get_admid), ("get_cmt", pm.get_cmt), ("get_doseid", pm.get_doseid), ("get_evid", pm.get_evid),
                      ("get_mdv", pm.get_mdv)]
        whole = {}
        for name, fn in series_fns:
            ok, got = call(Issues(), name, fn, model)
            if ok and hasattr(got, "tolist") and len(got) == n:
                whole[name] = pylist(got)
        for pos, (_, rows) in enumerate(inds):
            sub = [recs[k] for k in rows]
            try:
                m1, _ = build_model(layout, sub)
            except Exception:
                break
            for name, fn in series_fns:
                if name not in whole:
                    continue
                ok, got = call(Issues(), name, fn, m1)
                if not ok or not hasattr(got, "tolist") or len(got) != len(rows):
                    continue
                iss.compared += 1
                a, b = [whole[name][k] for k in rows], pylist(got)
                if name == "get_doseid":  # numbered per individual or across individuals: compare up to the individual's offset
                    a = [x - a[0] for x in a]
                    b = [x - b[0] for x in b]
                if any(not veq(x, y) for x, y in zip(a, b)):
                    iss.add(f"{name}:not_local", f"{name} gives {a} for the records of individual {pos + 1} of {len(inds)} in the whole "
                                                 f"dataset but {b} on that individual alone")
                    break

    # ---- baselines / covariates
    if want("get_baselines"):
        ok, got = call(iss, "get_baselines", pm.get_baselines, model)
        if ok:
            iss.compared += 1
            w = R.ref_baselines(recs, cols)
            try:
                g = {int(i): {c: row[c] for c in got.columns} for i, row in got.iterrows()}
            except Exception as e:
                g = f"unreadable result: {e}"
            if not isinstance(g, dict) or set(g) != set(w) or any(
                    set(g[i]) != set(w[i]) or any(not veq(g[i][c], w[i][c]) for c in w[i]) for i in w):
                iss.add("get_baselines:value", f"get_baselines gives {g}, first records are {w}")
        ok, got = call(iss, "get_covariate_baselines", pm.get_covariate_baselines, model)
        if ok:
            iss.compared += 1
            w = R.ref_baselines(recs, ["WGT", "TVC"])
            try:
                g = {int(i): {c: row[c] for c in got.columns} for i, row in got.iterrows()}
            except Exception as e:
                g = f"unreadable result: {e}"
            if not isinstance(g, dict) or set(g) != set(w) or any(
                    set(g[i]) != set(w[i]) or any(not veq(g[i][c], w[i][c]) for c in w[i]) for i in w):
                iss.add("get_covariate_baselines:value", f"get_covariate_baselines gives {g}, first records are {w}")
        ok, got = call(iss, "list_time_varying_covariates", pm.list_time_varying_covariates, model)
        if ok:
            iss.compared += 1
            w = R.ref_time_varying(recs, ["WGT", "TVC"])
            if sorted(got) != sorted(w):
                iss.add("list_time_varying_covariates:value",
                        f"list_time_varying_covariates gives {got}, walk finds {w}")

    # ---- the read-only derivations above must not have touched the dataset
    if not snapshot.equals(df0) or list(snapshot.columns) != list(df0.columns):
        iss.count("input_dataset_mutated:getters")

    # ---- time after dose
    if want("add_time_after_dose"):
        ok, m2 = call(iss, "add_time_after_dose", pm.add_time_after_dose, model)
        if ok:
            pos = frame_check(iss, "add_time_after_dose", recs, cols, snapshot, m2.dataset, ["TAD"])
            if pos is not None and "TAD" in m2.dataset.columns:
                tad = m2.dataset["TAD"].tolist()
                got = [tad[pos[r["RN"]]] for r in recs]
                neg = [[k, g] for k, g in enumerate(got) if not (g >= -1e-9)]
                iss.compared += 1
                if neg:
                    iss.add("add_time_after_dose:negative", f"add_time_after_dose: TAD of record {neg[0][0]} is "
                                                            f"{neg[0][1]} (never negative)", rows=neg)
                compare_accept(iss, "add_time_after_dose", got, R.ref_tad(layout, recs), recs)
            elif pos is not None:
                iss.add("add_time_after_dose:no_column", "add_time_after_dose: no TAD column")
            if not snapshot.equals(model.dataset):
                iss.count("input_dataset_mutated:add_time_after_dose")

    # ---- expansion of additional doses
    if want("expand_additional_doses") and "ADDL" in cols:
        for flag in (False, True):
            name = "expand_additional_doses" + ("(flag)" if flag else "")
            ok, m2 = call(iss, name, pm.expand_additional_doses, model, flag=flag)
            if ok:
                check_expand(iss, name, layout, recs, cols, m2.dataset, flag)
        if not snapshot.equals(model.dataset):
            iss.count("input_dataset_mutated:expand_additional_doses")

    # ---- column adders add_admid / add_cmt
    if want("add_admid") and "ADMID" not in cols:
        m1, d1 = fresh()
        ok, m2 = call(iss, "add_admid", pm.add_admid, m1)
        if ok:
            pos = frame_check(iss, "add_admid", recs, cols, snapshot, m2.dataset, ["ADMID"])
            if pos is not None and "ADMID" in m2.dataset.columns:
                col = m2.dataset["ADMID"].tolist()
                compare_accept(iss, "add_admid", [col[pos[r["RN"]]] for r in recs], R.ref_admid(recs), recs)
            if list(d1.columns) != cols:
                iss.count("input_dataset_mutated:add_admid")
    if want("add_cmt") and "CMT" not in cols:
        m1, d1 = fresh()
        ok, m2 = call(iss, "add_cmt", pm.add_cmt, m1)
        if ok:
            pos = frame_check(iss, "add_cmt", recs, cols, snapshot, m2.dataset, ["CMT"])
            if pos is not None and "CMT" in m2.dataset.columns:
                col = m2.dataset["CMT"].tolist()
                compare_accept(iss, "add_cmt", [col[pos[r["RN"]]] for r in recs], R.ref_cmt(recs), recs)
            if list(d1.columns) != cols:
                iss.count("input_dataset_mutated:add_cmt")
    return iss


def check_expand(iss, name, layout, recs, cols, newdf, flag):
    """original records preserved, additional doses at t + k*II, chronological inside the individual,
    individuals in their original order, total amount preserved."""
    dropped = () if flag else ("ADDL", "II")
    keep = [c for c in cols if c not in dropped]
    newcols = ["EXPANDED"] if flag else []
    missing = [c for c in keep + newcols if c not in newdf.columns]
    extra = [c for c in newdf.columns if c not in keep and c not in newcols]
    if missing or extra:
        iss.add(f"{name}:columns", f"{name}: columns missing {missing} unexpected {extra}")
        return
    iss.compared += 1
    ref = R.ref_expand(layout, recs)
    want_n = sum(len(ev) for _, ev in ref)
    rows = newdf.to_dict("records")
    if len(rows) != want_n:
        iss.add(f"{name}:nrecords", f"{name}: {len(rows)} records, the walk gives {want_n}")
        return
    # every expected event present exactly once: (source record, time)
    byrn = {r["RN"]: r for r in recs}
    want_events = sorted((recs[k]["RN"], t) for _, ev in ref for (t, k, nn) in ev)
    got_events = sorted((float(r["RN"]), float(r["TIME"])) for r in rows)
    if any(not (a[0] == b[0] and feq(a[1], b[1])) for a, b in zip(want_events, got_events)):
        iss.add(f"{name}:events", f"{name}: (source record, time) of the result {got_events} != walk {want_events}")
        return
    # values copied from the source record
    for r in rows:
        src = byrn[float(r["RN"])]
        for c in keep:
            if c != "TIME" and not veq(r[c], src[c]):
                iss.add(f"{name}:value", f"{name}: column {c} of a record from source RN={src['RN']:.0f} is {r[c]}, "
                                         f"source has {src[c]}")
                return
    # total amount
    total = sum(r["AMT"] * (1 + r.get("ADDL", 0)) for r in recs)
    got_total = sum(float(r["AMT"]) for r in rows)
    if not feq(total, got_total):
        iss.add(f"{name}:amount", f"{name}: total amount {got_total}, input has {total}")
    # original records keep their relative order inside the individual; chronological inside the
    # individual.  (The order of the individuals is not demanded by the property for an expansion:
    # counted only.)
    orig_flags = [feq(float(r["TIME"]), float(byrn[float(r["RN"])]["TIME"])) for r in rows]
    if flag:
        nexp = [bool(r["EXPANDED"]) for r in rows]
        want_exp = sum(1 for _, ev in ref for (t, k, nn) in ev if nn > 0)
        if sum(nexp) != want_exp or any(e == o for e, o in zip(nexp, orig_flags)):
            iss.add(f"{name}:flag", f"{name}: EXPANDED marks {nexp}, original records are {orig_flags}")
    within = {}
    times = {}
    for r, o in zip(rows, orig_flags):
        if o:
            within.setdefault(int(r["ID"]), []).append(int(r["RN"]))
        times.setdefault(int(r["ID"]), []).append(float(r["TIME"]))
    for i, idrows in R.individuals(recs):
        w = [int(recs[k]["RN"]) for k in idrows]
        if within.get(i) != w:
            iss.add(f"{name}:order_records", f"{name}: original records of individual {i} now in order "
                                             f"{within.get(i)}, input order {w}")
            break
    idseq = [k for k, _ in itertools.groupby(int(r["ID"]) for r in rows)]
    if idseq != [i for i, _ in ref]:
        iss.count(f"{name}:individuals_reordered")
        if len(idseq) != len(ref):
            iss.add(f"{name}:individuals_interleaved", f"{name}: records of individuals interleaved: {idseq}")
    if "EVID" in cols:
        # with reset records: the result is the walk itself (chronological inside each occasion, occasions in their order)
        want_seq = [(recs[k]["RN"], t) for _, ev in ref for (t, k, nn) in ev]
        got_seq = [(float(r["RN"]), float(r["TIME"])) for r in rows]
        if idseq == [i for i, _ in ref] and any(not (a[0] == b[0] and feq(a[1], b[1])) for a, b in zip(want_seq, got_seq)):
            iss.add(f"{name}:chronology", f"{name}: records (source record, time) in order {got_seq}, the walk per occasion gives {want_seq}")
    else:
        for i, ts in times.items():
            if any(b < a - 1e-9 for a, b in zip(ts, ts[1:])):
                iss.add(f"{name}:chronology", f"{name}: times of individual {i} not chronological: {ts}")
                break
    if list(newdf.index) != list(range(len(newdf))):
        iss.count(f"{name}:index_not_range")


# ----------------------------------------------------------------------------- covariate family
def cov_datasets(nmax, lmax):
    """1..nmax individuals of 1..lmax observation records; the covariate column runs over all 0/1
    sequences"""
    indiv = []
    for ln in range(1, lmax + 1):
        # nan: a covariate that was not recorded on that record (the baseline is the value of the FIRST record all the same)
        for vals in itertools.product((1.0, 2.0, float("nan")), repeat=ln):
            indiv.append(vals)
    for n in range(1, nmax + 1):
        yield from itertools.product(indiv, repeat=n)


def check_cov(ds):
    import pharmpy.modeling as pm

    iss = Issues()
    ids = (4, 2, 9)[:len(ds)]
    indivs = [tuple(("O", 1 if j else 0) for j in range(len(v))) for v in ds]
    recs = R.materialise("base", ids, indivs)
    k = 0
    for v in ds:
        for x in v:
            recs[k]["TVC"] = x
            k += 1
    # WGT: constant; TVC: enumerated
    model, df0 = _build_from_recs("base", recs)
    cols = R.columns("base")
    has_nan = any(x != x for v in ds for x in v)
    for name, fn, w in (
        ("list_time_varying_covariates", pm.list_time_varying_covariates, R.ref_time_varying(recs, ["WGT", "TVC"])),
    ):
        if has_nan:
            continue  # whether a missing value makes a covariate "time varying" is not documented
        ok, got = call(iss, name, fn, model)
        if ok:
            iss.compared += 1
            if sorted(got) != sorted(w):
                iss.add(name + ":value", f"{name} gives {got}, walk finds {w}")
    for name, fn, w in (("get_baselines", pm.get_baselines, R.ref_baselines(recs, cols)),
                        ("get_covariate_baselines", pm.get_covariate_baselines,
                         R.ref_baselines(recs, ["WGT", "TVC"]))):
        ok, got = call(iss, name, fn, model)
        if ok:
            iss.compared += 1
            try:
                g = {int(i): {c: row[c] for c in got.columns} for i, row in got.iterrows()}
            except Exception as e:
                g = f"unreadable result: {e}"
            if not isinstance(g, dict) or set(g) != set(w) or any(
                    set(g[i]) != set(w[i]) or any(not veq(g[i][c], w[i][c]) for c in w[i]) for i in w):
                iss.add(name + ":value", f"{name} gives {g}, first records are {w}")
    return iss, recs


def _build_from_recs(layout, recs):
    import numpy as np
    import pandas as pd
    from pharmpy.model import ColumnInfo, DataInfo, Model, Parameter, Parameters

    cols = R.columns(layout)
    df = pd.DataFrame({c: np.array([r[c] for r in recs], dtype="int64" if c in R.INTCOLS else "float64")
                       for c in cols}, columns=cols)
    model = Model.create(name="m", statements=_statements(), datainfo=_datainfo(layout), dataset=df,
                         parameters=Parameters.create([Parameter.create("TH1", 1.0), Parameter.create("TH2", 1.0)]))
    return model, df


# ----------------------------------------------------------------------------- runner API
def _ctx(layout):
    return CTX.get(layout, CTX["default"])


def shards(tier):
    out = []
    for layout, smax, pmax, pvariants, tmax, restarts in PLANS[tier]:
        first = R.tokens(layout, True)
        second = R.tokens(layout, False, restarts)
        # singles: shard by the first two records (and the short ones together)
        if smax >= 3:
            out.append(("single", layout, restarts, 2, ()))  # everything of length <= 2
            for a in first:
                for b in second:
                    out.append(("single", layout, restarts, smax, (a, b)))
        elif smax >= 1:
            out.append(("single", layout, restarts, smax, ()))
        # pairs: context individual before / after the enumerated one, two id assignments
        if pmax:
            for ci, where, idset in pvariants:
                for a in first:
                    out.append(("pair", layout, restarts, pmax, (a,), ci, where, idset))
        if tmax:
            for idset in range(len(IDSETS3)):
                for a in first:
                    out.append(("triple", layout, restarts, tmax, (a,), idset))
    out.append(("long", "addl", False, 0, ()))
    if tier == "quick":
        out.append(("cov", 3, 2))
        out.append(("cov", 2, 3))
    else:
        out.append(("cov", 3, 3))
    # heavy first: by estimated size
    out.sort(key=lambda s: -_size(s))
    return out


def _size(s):
    if s[0] == "cov":
        return 3000
    if s[0] == "long":
        return 100
    kind, layout, restarts, maxlen, prefix = s[:5]
    ntok = len(R.tokens(layout, False, restarts))
    rem = maxlen - len(prefix)
    n = sum(ntok ** k for k in range(0, max(rem, 0) + 1))
    if kind == "triple":
        n *= len(R.tokens(layout, True)) * 2
    return n * (2 if layout.startswith("addl") else 1)


def _iter_shard(shard):
    """yield (layout, ids, individuals)"""
    kind = shard[0]
    if kind == "single":
        _, layout, restarts, maxlen, prefix = shard
        for seq in R.sequences(layout, maxlen, prefix, restarts):
            if prefix == () or len(seq) > len(prefix):  # the prefix itself belongs to the "short" shard
                yield layout, (1,), (seq,)
    elif kind == "long":
        # one long individual (18 records, many tied times, one dose with additional doses): the only
        # family in which pandas' default (unstable) sort would differ from the stable sort
        for pos in range(6):
            for period in (5, 6, 9):
                seq = tuple([("O", 0)] * pos + [("DA", 0)]
                            + [("O", 1 if j % period == 0 else 0) for j in range(18 - pos - 1)])
                yield shard[1], (1,), (seq,)
    elif kind == "pair":
        _, layout, restarts, maxlen, prefix, ci, where, idset = shard
        ctx = _ctx(layout)[ci]
        ids = IDSETS2[idset]
        for seq in R.sequences(layout, maxlen, prefix, restarts):
            yield layout, ids, ((ctx, seq) if where == "after" else (seq, ctx))
    elif kind == "triple":
        _, layout, restarts, maxlen, prefix, idset = shard
        ctx = _ctx(layout)[0]
        ids = IDSETS3[idset]
        # the enumerated individual in the middle, then a second enumerated short one at the end
        for seq in R.sequences(layout, maxlen, prefix, restarts):
            for last in R.sequences(layout, 1, (), restarts):
                yield layout, ids, (ctx, seq, last)
            yield layout, ids, (seq, ctx, ctx)


def _desc(layout, ids, indivs):
    return {"layout": layout, "ids": list(ids), "individuals": [[list(t) for t in s] for s in indivs]}


def run_shard(shard, tier):
    res = {"states": 0, "transitions": 0, "evaluations": 0, "distinct_nontrivial": 0,
           "violations": [], "samples": [], "outcomes": {}, "traces_validated_against_impl": 0, "capped": False}

    def absorb(iss, desc, text):
        res["states"] += 1
        res["traces_validated_against_impl"] += 1
        res["evaluations"] += iss.compared
        if iss.compared:
            res["distinct_nontrivial"] += 1
        for k, v in iss.outcomes.items():
            res["outcomes"][k] = res["outcomes"].get(k, 0) + v
        if not iss.items:
            res["outcomes"]["ok"] = res["outcomes"].get("ok", 0) + 1
        for cls, what, extra in iss.items:
            key = "fail:" + cls
            res["outcomes"][key] = res["outcomes"].get(key, 0) + 1
            w = dict(desc)
            w.update({"class": cls, "what": f"{text} {what}", "fn": cls.split(":")[0]})
            w.update(extra)
            pat = classify(w)
            nkey = "_n:" + (pat or cls)
            cnt = res["outcomes"].get(nkey, 0)
            # keep every unclassified witness class a few times and classified ones sparsely
            if cnt < (3 if pat else 8):
                res["violations"].append(w)
            res["outcomes"][nkey] = cnt + 1
        if res["states"] % 499 == 1 and len(res["samples"]) < 2:
            res["samples"].append(text)

    if shard[0] == "cov":
        for ds in cov_datasets(shard[1], shard[2]):
            iss, recs = check_cov(ds)
            res["transitions"] += 1
            absorb(iss, {"cov": [list(v) for v in ds]}, "[covariate sequences %s]" % (list(map(list, ds)),))
        _strip(res)
        return res
    for layout, ids, indivs in _iter_shard(shard):
        iss = check_dataset(layout, ids, indivs)
        res["transitions"] += 1  # the append-one-record step that reached this dataset
        recs = R.materialise(layout, ids, indivs)
        absorb(iss, _desc(layout, ids, indivs), f"{layout}:{R.render(layout, recs)}")
    _strip(res)
    return res


def post(tot, tier):
    """shards finish in a load-dependent order: make the merged lists order independent"""
    tot["samples"] = sorted(set(tot["samples"]), key=lambda x: (len(x), x))
    tot["violations"].sort(key=lambda w: (len(w.get("what", "")), w.get("what", ""), w.get("class", "")))
    tot["outcomes"] = dict(sorted(tot["outcomes"].items()))


def _strip(res):
    for k in [k for k in res["outcomes"] if k.startswith("_n:")]:
        del res["outcomes"][k]


def _tup(x):
    return tuple(_tup(y) for y in x) if isinstance(x, list) else x


def replay(w):
    if "cov" in w:
        iss, _ = check_cov(tuple(tuple(v) for v in w["cov"]))
    else:
        iss = check_dataset(w["layout"], tuple(w["ids"]), _tup(w["individuals"]))
    return [t for c, t, _ in iss.items if c == w.get("class", c)]


# ----------------------------------------------------------------------------- known-finding patterns
# Each pattern names ONE defect by call site and by the shape of the witness; anything that does not fit
# the shape exactly stays unclassified (prints as VIOLATION).
def _wrecs(w):
    return R.materialise(w["layout"], tuple(w["ids"]), _tup(w["individuals"]))


def _same_key(a, b):
    return a["ID"] == b["ID"] and a["TIME"] == b["TIME"]


def _first_dose_tie_shape(w, recs, rows, with_values):
    """every mismatching record is a non-dose record recorded after a dose of the same individual at the
    same time, and either (A) that dose is the first dose event of the individual while the group of records
    (ID, TIME) does not contain the first row of the frame (pharmpy tests `0 in groupind`), or (B) the group does
    contain the first row of the frame although the dose is not the first one."""
    if not rows:
        return False
    # first row of the frame on which get_doseid runs: row 0, or (ADDL present: the expansion sorts by ID)
    # the first record of the individual with the smallest id
    firsts = [recs[0]]
    if "ADDL" in recs[0] and not with_values:  # add_time_after_dose: get_doseid sees the expanded frame
        smallest = min(r["ID"] for r in recs)
        firsts = [next(r for r in recs if r["ID"] == smallest)]
    exp = dict(R.ref_expand(w["layout"], recs))
    times = R.num_time(w["layout"], recs)
    for row in rows:
        k = row[0]
        r = recs[k]
        if R.is_dose(r):
            return False
        tied = [j for j in range(k) if _same_key(recs[j], r) and R.is_dose(recs[j])]
        tied_expanded = [1 for (t, j, n) in exp[r["ID"]] if n > 0 and t == times[k]]
        if not tied and not tied_expanded:
            return False
        dose_events_before = [1 for (t, j, n) in exp[r["ID"]] if (n > 0 or R.is_dose(recs[j])) and t < times[k]
                              and (n > 0 or j < k)]
        earlier_doses = [j for j in range(k) if recs[j]["ID"] == r["ID"] and R.is_dose(recs[j])
                         and not _same_key(recs[j], r)]
        first_dose = not dose_events_before and not earlier_doses and len(tied) == 1 and not tied_expanded
        in_first_group = any(_same_key(f, r) for f in firsts)
        if first_dose and not in_first_group:
            if with_values and not (row[1] == 0 and row[2] == [1]):
                return False
        elif in_first_group and not first_dose:
            if with_values and not (len(row[2]) == 1 and row[1] == row[2][0] + 1):
                return False
        else:
            return False
    return True


def classify(w):
    cls = w.get("class", "")
    if "cov" in w or "layout" not in w:
        return None
    recs = _wrecs(w)
    layout = w["layout"]
    cols = R.columns(layout)
    nobs = sum(1 for r in recs if R.is_obs(r))
    ndose = sum(1 for r in recs if r["AMT"] != 0)

    # 1. get_doseid: "first dose" recognised by row label 0
    if cls == "get_doseid:value":
        return ("get_doseid.first_dose_recognised_by_row_label_0"
                if _first_dose_tie_shape(w, recs, w.get("rows"), True) else None)
    if cls == "add_time_after_dose:value":
        return ("get_doseid.first_dose_recognised_by_row_label_0"
                if _first_dose_tie_shape(w, recs, w.get("rows"), False) else None)

    # 2-4. DataFrame/Series.squeeze() turns a single-row result into a scalar
    if cls in ("get_observations:not_a_series", "get_number_of_observations:exception:TypeError",
               "get_number_of_observations_per_individual:exception:AttributeError"):
        return "get_observations.squeeze_single_observation" if nobs == 1 else None
    if cls == "get_doses:not_a_series":
        return "get_doses.squeeze_single_dose" if ndose == 1 else None
    if cls in ("get_mdv:exception:AttributeError", "get_evid:exception:AttributeError",
               "get_cmt:exception:AttributeError", "get_admid:exception:AttributeError",
               "add_admid:exception:AttributeError", "add_cmt:exception:AttributeError"):
        return ("get_mdv.squeeze_single_record"
                if len(recs) == 1 and "has no attribute 'where'" in w.get("what", "") else None)

    # 5. get_evid without an event column: MDV=1 records without a dose amount are reported as doses
    if cls in ("get_evid:value", "get_cmt:value", "add_cmt:value"):
        if "MDV" in cols and "EVID" not in cols and w.get("rows"):
            want_got = 1 if cls == "get_evid:value" else R.DEPOT
            if all(recs[k]["MDV"] == 1 and recs[k]["AMT"] == 0 and g == want_got for k, g, _ in w["rows"]):
                return "get_evid.mdv_nondose_record_reported_as_dose"
        return None

    # 6. get_admid: EVID=4 (reset and dose) records are not treated as doses
    if cls in ("get_admid:value", "add_admid:value"):
        if "EVID" not in cols or not w.get("rows"):
            return None
        for k, _, _ in w["rows"]:
            last = [j for j in range(k + 1) if recs[j]["ID"] == recs[k]["ID"] and recs[j]["EVID"] in (1, 4)]
            if not last or recs[last[-1]]["EVID"] != 4:
                return None
        return "get_admid.evid4_not_treated_as_dose"

    # 7. add_time_after_dose: groupby(ID) returns the individuals sorted by id
    if cls == "add_time_after_dose:frame:order_individuals":
        ids = [i for i, _ in R.individuals(recs)]
        byrn = {int(r["RN"]): r for r in recs}
        new_ids = [k for k, _ in itertools.groupby(byrn[x]["ID"] for x in w.get("order", []))]
        if ids != sorted(ids) and new_ids == sorted(ids):
            return "add_time_after_dose.individuals_sorted_by_id"
        return None

    # 8. add_time_after_dose: the stable sort by dose id moves an observation tied with a dose before it
    if cls == "add_time_after_dose:frame:order_records":
        byrn = {int(r["RN"]): r for r in recs}
        order = w.get("order", [])
        posn = {x: p for p, x in enumerate(order)}
        found = False
        for a in range(len(recs)):
            for b in range(a + 1, len(recs)):
                ra, rb = recs[a], recs[b]
                if ra["ID"] != rb["ID"]:
                    continue
                if posn[int(ra["RN"])] > posn[int(rb["RN"])]:  # inverted pair
                    found = True
                    if not (ra["TIME"] == rb["TIME"] and ra["AMT"] != 0 and rb["AMT"] == 0):
                        return None
        return "add_time_after_dose.tied_observation_sorted_before_dose" if found else None

    # 9. add_time_after_dose with an ADDL column: the row-wise apply of the expansion upcasts integer columns
    if cls == "add_time_after_dose:frame:dtype":
        ch = w.get("changed", [])
        if "ADDL" in cols and ch and all(a == "int64" and b == "float64" for _, a, b in ch):
            return "add_time_after_dose.integer_columns_upcast_by_expansion"
        return None

    # 10. add_time_after_dose: time restarts at a reset record (EVID=3), later records get a negative TAD
    if cls == "add_time_after_dose:negative":
        if "EVID" not in cols or not w.get("rows"):
            return None
        for k, _ in w["rows"]:
            same = [j for j in range(k + 1) if recs[j]["ID"] == recs[k]["ID"]]
            doses = [j for j in same if recs[j]["EVID"] in (1, 4)]
            if not doses:
                return None
            p = doses[-1]
            if not (any(recs[j]["EVID"] == 3 for j in same if j > p) and recs[k]["TIME"] < recs[p]["TIME"]):
                return None
        return "add_time_after_dose.negative_after_time_restart_at_reset"
    return None
