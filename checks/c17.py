"""C17 - workflows execute as their task graph specifies.

Bounded-exhaustive enumeration of WorkflowBuilder operation sequences (prefix tree: state =
operation sequence, transition = one builder operation).  After every operation the real
builder's tasks/edges/static inputs are compared with a reference model (tasks in entry order
+ edge set); every state with exactly one sink is executed with execute_workflow (threaded
dask dispatcher) under a controlled executor that lets the explorer choose which outstanding
task completes next - all completion orders for small DAGs, bounded deviations for larger
ones - plus once with one worker, once on a free-running real thread pool and once through
optimize.py (scatter + fuse, fake client) with a synchronous dask get.  The returned term (task
functions f_k(*args) = (k, args)) and the call log are compared with a sequential topological
evaluation of the model.  A small second family enumerates static input *values* (22 values x
plain/context-first x source/sink position): the task must receive the value unchanged.
"""
from __future__ import annotations

import os
import shutil
import tempfile

PROPERTY = "C17"
LEVEL = "model_checking"
ENGINE = "seqx"
TECHNIQUE = ("explicit-state bounded exhaustive enumeration of builder-operation sequences and of dask completion "
             "orders (controlled executor), every execution compared with a sequential reference evaluation")
LEVEL_TEXT = (
    "Every builder-operation sequence up to the stated length over the stated alphabet is generated (no sampling); "
    "after every operation the real builder is compared with a 60-line reference model, and every single-sink "
    "workflow is executed through execute_workflow under every completion order the dask scheduler loop admits "
    "(all linear extensions for <= 6 tasks (7 in the thorough tier), bounded deviations above).  This is the right level because the "
    "property quantifies over all DAGs and schedules and its failure modes (argument permutation, wrong wiring "
    "rule, lost task) have witnesses of <= 4 tasks."
)
LEVEL_NOTE = (
    "trusted: vlib/c17_ref.py (reference model, op interpreter, parked executor) and dask's scheduler loop "
    "dask.local.get_async as the place where completion order is decided; the controlled executor runs jobs "
    "synchronously at the moment they complete, so only completion order (not overlap) is explored; the real "
    "thread pool is run once per workflow; the distributed dispatcher (LocalCluster, call_workflow) is not executed: "
    "its graph transformation optimize_task_graph_for_dask_distributed is run with a client whose scatter returns "
    "the value and the resulting graph is evaluated with dask's synchronous get"
)
RULE = (
    "all sequences of builder operations up to the plan's length over {add_task(kind, preds), replace_task, WorkflowBuilder(workflow, tasks=[t]), "
    "insert_workflow(menu workflow, preds), wb + wf, Workflow + wf, insert_context} with kind in {plain, "
    "plain+2 static inputs, context-first, context-first+2 static inputs}, preds = None | bare task | ordered list of "
    "<= 2 (<= 3 in plan add3) distinct existing tasks; state = operation sequence, transition = one operation; "
    "a case is non-trivial when the workflow has one sink and at least one execution was compared with the "
    "reference evaluation; the bare-task form is checked as a transition and merged with the one-element-list form; "
    "static value family: every value of the menu as static input of the source / the sink of a 2-task chain"
)
ASSUMPTIONS = [
    "task functions are pure and total: f_k(*args) = (k, args) plus a call-log append",
    "the property text does not say where a replacement task 'enters'; both readings (in place / at the end) are "
    "accepted for user-level replace_task and insert_context, but one reading must explain all observations of a state",
    "predecessor arguments of add_task/insert_workflow are existing, distinct tasks; menu workflows use fresh tasks",
    "a refused insert_workflow (N:M, ValueError) ends the sequence; executing a workflow with != 1 sink must refuse "
    "with ValueError (counted, nothing else demanded)",
    "static inputs of the execution families are strings 's<k>', 'r<k>' (never equal to a dask key); other value shapes "
    "are covered by the static value family only",
    "completion orders are explored at the dask scheduler loop (dask.local.queue_get); dask itself is trusted to "
    "hand a finished task's value to its dependents",
]
BOUNDS = {
    "quick": "plan compose: full alphabet {add_task(P|C, preds), replace_task(t, P|C), insert_workflow(one|join|fork|"
             "chain, preds), wb+wf, Workflow+wf, insert_context} <= 3 operations, <= 9 tasks; plan add: add_task only, "
             "4 kinds, ordered pred lists <= 2, <= 4 operations; plan add3: 2 kinds, pred lists <= 3, <= 4 operations; "
             "plan deep: {insert_workflow(join|fork|chain, None), wb+fork, add_task(C, None|all sinks|reversed sinks), "
             "insert_context} <= 4 operations, <= 12 tasks; completion orders: all for <= 6 tasks, <= 1 deviation from "
             "lowest-label-first above; + 1-worker run, real 4-thread pool run, optimize.py+synchronous run per workflow; "
             "static value family: 22 values x 2 kinds x 2 positions",
    "thorough": "compose <= 3 operations (<= 2 deviations); compose4: {add_task(P|C, preds<=2), replace_task(t, P), "
                "insert_workflow(join|fork, None|one task), wb+wf, insert_context} <= 4 operations, <= 12 tasks; add "
                "<= 4 operations (4 kinds); add5: 2 kinds <= 5 operations; add3: pred lists <= 3, <= 5 operations; "
                "deep <= 6 operations, <= 12 tasks; deep5: deep alphabet + menu 'one', wb+join, replace_task(first|last, "
                "P), <= 5 operations; completion orders: all for <= 7 tasks, <= 2 deviations (compose, add*) or <= 1 "
                "deviation (compose4, deep*) above; static value family as quick",
}
PREIMPORT = ("pharmpy.workflows", "pharmpy.workflows.dispatchers.local_dask", "dask.threaded", "dask.local",
             "dask.optimization", "dask.distributed")

KNOWN_QUIRK = "insert_context-replace_task-moves-context-task-behind-later-predecessors"

# ------------------------------------------------------------------------------------ plans
_FULL = ("add", "rep", "ins", "plus", "wplus", "ctx", "ctor")
_MENU4 = ("one", "join", "fork", "chain")
PLANS = {
    "quick": [
        dict(name="compose", ops=_FULL, kinds="PCX", rep_kinds="PC", max_preds=2, menu=_MENU4, depth=3, max_tasks=9,
             max_dev=1, shard_depth=2),
        dict(name="add", ops=("add",), kinds="PSCDX", rep_kinds="", max_preds=2, menu=(), depth=4, max_tasks=4,
             max_dev=1, shard_depth=2),
        dict(name="add3", ops=("add",), kinds="PC", rep_kinds="", max_preds=3, menu=(), depth=4, max_tasks=4,
             max_dev=1, shard_depth=2),
        dict(name="deep", ops=("ins_none", "plus", "add_sinks", "ctx"), kinds="C", rep_kinds="", max_preds=2,
             menu=("join", "fork", "chain"), plus_menu=("fork",), depth=4, max_tasks=12, max_dev=1, shard_depth=2),
    ],
    "thorough": [
        dict(name="add3", ops=("add",), kinds="PC", rep_kinds="", max_preds=3, menu=(), depth=5, max_tasks=5,
             max_dev=2, shard_depth=3),
        dict(name="deep5", ops=("ins_none", "plus", "add_sinks", "ctx", "rep_ends"), kinds="C", rep_kinds="P",
             max_preds=2, menu=_MENU4, plus_menu=("join", "fork"), depth=5, max_tasks=12, max_dev=1, shard_depth=2),
        dict(name="deep", ops=("ins_none", "plus", "add_sinks", "ctx"), kinds="C", rep_kinds="", max_preds=2,
             menu=("join", "fork", "chain"), plus_menu=("fork",), depth=6, max_tasks=12, max_dev=1, shard_depth=3),
        dict(name="compose4", ops=("add", "rep", "ins", "plus", "ctx"), kinds="PC", rep_kinds="P", max_preds=2,
             ins_max_preds=1, menu=("join", "fork"), depth=4, max_tasks=12, max_dev=1, shard_depth=2),
        dict(name="compose", ops=_FULL, kinds="PCX", rep_kinds="PC", max_preds=2, menu=_MENU4, depth=3, max_tasks=9,
             max_dev=2, shard_depth=2),
        dict(name="add5", ops=("add",), kinds="PC", rep_kinds="", max_preds=2, menu=(), depth=5, max_tasks=5,
             max_dev=2, shard_depth=3),
        dict(name="add", ops=("add",), kinds="PSCDX", rep_kinds="", max_preds=2, menu=(), depth=4, max_tasks=4,
             max_dev=2, shard_depth=2),
    ],
}
for _p in PLANS["quick"]:
    _p["all_orders"] = 6    # every completion order for workflows of <= this many tasks
for _p in PLANS["thorough"]:
    _p["all_orders"] = 7
ORDER_CAP = 800  # > 6! ; reaching it sets capped


def plan_by_name(tier, name):
    for p in PLANS[tier]:
        if p["name"] == name:
            return p
    for t in PLANS:
        for p in PLANS[t]:
            if p["name"] == name:
                return p
    raise KeyError(name)


# ------------------------------------------------------------------------- state evaluation
def _tup(x):
    if isinstance(x, list):
        return tuple(_tup(y) for y in x)
    return x


def _labels_for(ops):
    """Fresh labels allocated to every op of the sequence."""
    from vlib import c17_ref as R

    out = []
    nxt = 0
    for op in ops:
        k = R.n_new_labels(op)
        out.append(tuple(range(nxt, nxt + k)))
        nxt += k
    return out


class StateResult:
    __slots__ = ("status", "model", "fails", "executions", "compared", "outcome", "sample", "ntasks", "capped")

    def __init__(self):
        self.status = "ok"      # ok | refused | dead
        self.model = None       # model (reading E) for op enumeration
        self.fails = []         # list of dict(class, what, ...)
        self.executions = 0
        self.compared = 0
        self.outcome = "ok"
        self.sample = None
        self.ntasks = 0
        self.capped = False


def check_state(ops, plan, light=False, execute=True):
    """Rebuild the state from scratch on the real builder and on the models, check the last
    operation structurally, then (if the workflow has one sink) execute it under the
    schedules of the plan.  Earlier operations were checked by the ancestors of this state."""
    from vlib import c17_ref as R

    sr = StateResult()
    env = R.Env()
    impl = R.Impl(env)
    models = {"P": R.Model("P"), "E": R.Model("E")}
    live = {"P", "E"}
    labs = _labels_for(ops)
    text = R.fmt_ops(ops)

    def fail(cls, what, **kw):
        d = {"class": cls, "what": "[%s] %s" % (text, what)}
        d.update(kw)
        sr.fails.append(d)

    for i, (op, ls) in enumerate(zip(ops, labs)):
        last = i == len(ops) - 1
        refused = False
        for r in ("P", "E"):
            try:
                R.model_apply(models[r], op, ls)
            except R.Refused:
                refused = True
        try:
            impl.apply(op, ls)
            impl_exc = None
        except ValueError as e:
            impl_exc = e
        except Exception as e:  # noqa: BLE001
            if last:
                fail("builder-exception:" + op[0], "%s raised %s: %s" % (R.fmt_op(op), type(e).__name__, e))
            sr.status = "dead"
            sr.outcome = "builder-exception"
            return sr
        if refused or impl_exc is not None:
            if refused and impl_exc is not None:
                sr.status = "refused"
                sr.outcome = "refused:" + op[0]
            elif last:
                if refused:
                    fail("missing-refusal:" + op[0], "%s connects N:M tasks without ValueError" % R.fmt_op(op))
                else:
                    fail("unexpected-refusal:" + op[0], "%s raised ValueError: %s" % (R.fmt_op(op), impl_exc))
                sr.status = "dead"
                sr.outcome = "refusal-mismatch"
            else:
                sr.status = "dead"
            return sr
        if not last:
            continue
        # ---- structure after the last operation
        try:
            ilabs, iedges, iedges2 = impl.structure()
            istat = impl.statics()
            n_impl = len(impl.wb)
            isrc = {impl.label(t) for t in impl.wb.input_tasks}
            isnk = {impl.label(t) for t in impl.wb.output_tasks}
        except Exception as e:  # noqa: BLE001
            fail("query-exception", "structure queries raised %s: %s" % (type(e).__name__, e))
            sr.status = "dead"
            return sr
        if iedges != iedges2:
            fail("structure:queries", "get_predecessors and get_successors disagree: %s vs %s"
                 % (sorted(iedges), sorted(iedges2)))
        if None in ilabs or len(set(ilabs)) != len(ilabs):
            fail("structure:" + op[0], "tasks after %s: %s (unknown or duplicated task)" % (R.fmt_op(op), ilabs))
            sr.status = "dead"
            return sr
        for r in sorted(live):
            m = models[r]
            if set(ilabs) != set(m.order) or iedges != m.edges or istat != m.static or n_impl != len(m.order) \
                    or isrc != set(m.sources()) or isnk != set(m.sinks()):
                live.discard(r)
        if not live:
            m = models["P"]
            what = []
            if set(ilabs) != set(m.order):
                what.append("tasks %s, declared %s" % (sorted(ilabs), sorted(m.order)))
            if iedges != m.edges:
                what.append("edges %s, declared %s (or %s)" % (sorted(iedges), sorted(m.edges), sorted(models["E"].edges)))
            if istat != m.static:
                what.append("static inputs %s, declared %s" % (sorted(istat.items()), sorted(m.static.items())))
            if n_impl != len(m.order):
                what.append("len %d, declared %d" % (n_impl, len(m.order)))
            if isrc != set(m.sources()) or isnk != set(m.sinks()):
                what.append("input/output tasks %s/%s, declared %s/%s" % (sorted(isrc), sorted(isnk),
                                                                          m.sources(), m.sinks()))
            fail("structure:" + op[0], "after %s: %s" % (R.fmt_op(op), "; ".join(what) or "mismatch"))
            sr.status = "dead"
            sr.outcome = "structure-mismatch"
            return sr

    sr.model = models["E"]
    sr.ntasks = len(models["E"].order)
    if not execute or not ops:
        return sr
    # ---- execution
    expect = {}
    for r in sorted(live):
        expect[r] = models[r].evaluate()
    if "E" in live:
        expect["Q"] = models["E"].evaluate(quirk=True)
    cand = set(expect)  # readings (incl. the quirk pseudo reading) still explaining everything
    nsinks = {r: len(models[r].sinks()) for r in live}
    single = any(n == 1 for n in nsinks.values())
    first_bad = {}

    from pharmpy.workflows import Workflow, execute_workflow
    import pharmpy.workflows.dispatchers.local_dask as LD

    try:
        wf = Workflow(impl.wb)
    except Exception as e:  # noqa: BLE001
        fail("builder-exception:Workflow", "Workflow(builder) raised %s: %s" % (type(e).__name__, e))
        return sr

    def thunk():
        return execute_workflow(wf, dispatcher=LD, context=env.X)

    def key_label(args):
        # args of dask.local.batch_execute_tasks: [(key, (dask Task, data), dumps, loads, get_id, pack_exc)]
        try:
            return env.fn2lab[args[0][0][1][0].func]
        except Exception:  # noqa: BLE001
            return 10 ** 6

    def judge(obs, mode, prefix):
        """Update cand with one observed execution."""
        sr.executions += 1
        log = list(env.log)
        del env.log[:]
        for r in sorted(cand):
            term, args_of = expect[r]
            why = None
            if term is None:
                if not (obs[0] == "exc" and obs[1].startswith("ValueError")):
                    why = ("wrong-value", "workflow has %d sinks but execute_workflow gave %s" % (
                        len(models["E" if r == "Q" else r].sinks()), _fmt_obs(obs)))
            elif obs[0] == "exc":
                why = ("exception:" + obs[1].split(":")[0], "execute_workflow raised %s" % obs[1])
            else:
                why = _compare(obs[1], log, term, args_of, models["E" if r == "Q" else r])
            if why is not None:
                cand.discard(r)
                first_bad.setdefault(r, (why, mode, list(prefix)))
        if any(expect[r][0] is not None for r in expect):
            sr.compared += 1

    if not single:
        # != 1 sink under every live reading: one plain execution, must refuse
        obs = _plain_run(thunk)
        judge(obs, "sync", ())
        sr.outcome = "refused-not-one-sink" if (cand & live) else "multi-sink-mismatch"
    else:
        R.install()
        n = sr.ntasks
        max_dev = None if n <= plan["all_orders"] else plan["max_dev"]
        if light:
            max_dev = 0

        def run_one(prefix):
            obs, points, _ = R.run_controlled(thunk, prefix, 64, key_label)
            judge(obs, "park", prefix)
            return points if (cand & live or "Q" in cand) else []

        _, capped = R.explore_orders(run_one, max_dev, ORDER_CAP)
        sr.capped = capped
        if not light and (cand & live or "Q" in cand):
            obs, _, _ = R.run_controlled(thunk, (), 1, key_label)
            judge(obs, "park1", ())
            obs = _pool_run(thunk)
            judge(obs, "threads", ())
        if not light and (cand & live or "Q" in cand):
            # only after every threaded run produced a value (a cyclic graph would make dask's fuse loop)
            obs = _plain_run(lambda: execute_workflow(wf, dispatcher=R.FakeDistributedDispatcher, context=env.X))
            judge(obs, "optimize+sync", ())
        sr.outcome = "ok" if (cand & live) else "mismatch"
    if not (cand & live):
        quirk = "Q" in cand and single
        reasons = {r: first_bad[r] for r in ("P", "E") if r in first_bad}
        # 'arg-order' under one reading may only reflect the other reading: prefer the more specific reason
        pick = sorted(reasons, key=lambda r: (reasons[r][0][0] == "arg-order", r != "P"))[0]
        (cls, what), mode, prefix = reasons[pick]
        other = [r for r in reasons if r != pick and reasons[r][0][1] != what]
        if other:
            what += " | reading %s: %s" % ({"P": "'replacement keeps the place'", "E": "'replacement enters last'"}[other[0]],
                                            reasons[other[0]][0][1])
        if quirk:
            sr.outcome = "mismatch-known-quirk"
            cls += "(context-task-moved-last)"
        fail(cls, what + " (dispatch %s, completion choices %s)" % (mode, prefix), mode=mode, prefix=prefix,
             quirk=bool(quirk))
    elif single and sr.sample is None:
        r = sorted(cand & live)[0]
        sr.sample = "%s => %s" % (text, R.fmt_term(expect[r][0]))
    return sr


def _fmt_obs(obs):
    from vlib import c17_ref as R

    if obs[0] == "exc":
        return "exception " + obs[1]
    return R.fmt_term(obs[1])[:300]


def _compare(got, log, term, args_of, model):
    """None if the observed term and call log equal the reference evaluation."""
    from vlib import c17_ref as R

    counts = {}
    for lab, _ in log:
        counts[lab] = counts.get(lab, 0) + 1
    for t in model.order:
        if counts.get(t, 0) != 1:
            return ("call-count", "task t%d was called %d times (call log %s)" % (t, counts.get(t, 0),
                                                                                 [x[0] for x in log]))
    if len(log) != len(model.order):
        return ("call-count", "call log %s has calls of undeclared tasks" % [x[0] for x in log])
    seen = set()
    for lab, _ in log:
        for (u, v) in model.edges:
            if v == lab and u not in seen:
                return ("run-before-predecessor", "task t%d ran before its predecessor t%d (call log %s)"
                        % (lab, u, [x[0] for x in log]))
        seen.add(lab)
    if got == term:
        for lab, targs in log:
            if targs != args_of[lab]:
                return ("wrong-arguments", "task t%d received %s, expected %s" % (lab, targs, args_of[lab]))
        return None
    # describe the first deviating call
    for lab, targs in log:
        exp = args_of.get(lab)
        if exp is not None and targs != exp:
            if sorted(map(repr, targs)) == sorted(map(repr, exp)):
                return ("arg-order", "task t%d received its arguments in the order (%s), expected (%s); result %s"
                        % (lab, ", ".join(R.fmt_term(a) for a in targs), ", ".join(R.fmt_term(a) for a in exp),
                           R.fmt_term(got)[:200]))
            return ("wrong-arguments", "task t%d received (%s), expected (%s)"
                    % (lab, ", ".join(R.fmt_term(a) for a in targs)[:200], ", ".join(R.fmt_term(a) for a in exp)[:200]))
    return ("wrong-value", "execute_workflow returned %s, expected %s" % (R.fmt_term(got)[:200] if isinstance(got, tuple)
                                                                         else repr(got)[:200], R.fmt_term(term)[:200]))


def _plain_run(thunk):
    from vlib import c17_ref as R

    try:
        return ("ok", thunk())
    except Exception as e:  # noqa: BLE001
        return ("exc", "%s: %s" % (type(e).__name__, R.scrub(str(e))[:200]))


_POOL = [None]


def _pool_run(thunk):
    import dask
    from concurrent.futures import ThreadPoolExecutor

    if _POOL[0] is None:
        _POOL[0] = ThreadPoolExecutor(4)
    with dask.config.set(pool=_POOL[0]):
        return _plain_run(thunk)



# ------------------------------------------------------------------ static-input value family
KNOWN_STATIC_KEY = "static-input-containing-string-results-read-as-dask-key"
KNOWN_STATIC_TASK = "static-input-containing-tuple-with-callable-head-executed-as-dask-task"


def _static_values():
    """name -> value; every value must reach the task function unchanged."""
    return {
        "str": "abc", "int": 7, "none": None, "float": 2.5, "bool": True, "bytes": b"x",
        "list": ["a", 1], "tuple": ("a", 1), "dict": {"k": "v"}, "empty-tuple": (), "empty-list": [],
        "nested": [("a", 1), {"k": [1]}], "callable": len, "frozenset": frozenset([1]),
        "str-taskname": "nS", "dict-of-task-tuple": {"k": (len, [1])},
        "str-results": "results", "tuple-of-str-results": ("results",), "list-of-str-results": ["results"],
        "tuple-callable-head": (len, [1, 2]), "tuple-type-head": (int, "3"), "list-of-task-tuple": [(len, [1, 2])],
    }


def _has_results_str(v):
    if isinstance(v, str):
        return v == "results"
    if isinstance(v, (list, tuple)):
        return any(_has_results_str(x) for x in v)
    return False


def _has_task_tuple(v):
    if isinstance(v, tuple) and v and callable(v[0]):
        return True
    if isinstance(v, (list, tuple)):
        return any(_has_task_tuple(x) for x in v)
    return False


def _deep_same(a, b):
    if type(a) is not type(b):
        return False
    if isinstance(a, (list, tuple)):
        return len(a) == len(b) and all(_deep_same(x, y) for x, y in zip(a, b))
    if isinstance(a, dict):
        return list(a) == list(b) and all(_deep_same(a[k], b[k]) for k in a)
    if callable(a):
        return a is b
    return a == b


def static_cases():
    return [(vn, kind, shape) for vn in _static_values() for kind in ("plain", "context") for shape in ("source", "sink")]


def check_static_case(case):
    """Two-task chain; the task carrying the static value v must receive exactly v.
    Returns (fails, executions)."""
    from vlib import c17_ref as R
    from pharmpy.workflows import Task, Workflow, WorkflowBuilder, execute_workflow
    from pharmpy.workflows.contexts import NullContext
    import pharmpy.workflows.dispatchers.local_dask as LD

    vname, kind, shape = case
    v = _static_values()[vname]
    X = NullContext("x")
    calls = []

    if kind == "context":
        def carrier(context, *args):
            calls.append(("carrier", ("X" if context is X else context,) + args))
            return "rc"
    else:
        def carrier(*args):
            calls.append(("carrier", args))
            return "rc"

    def other(*args):
        calls.append(("other", args))
        return "ro"

    wb = WorkflowBuilder(name="w")
    tc = Task("nS", carrier, v)
    to = Task("nP", other)
    if shape == "source":
        wb.add_task(tc)
        wb.add_task(to, [tc])
        want = {"carrier": (v,), "other": ("rc",)}
        want_res = "ro"
    else:
        wb.add_task(to)
        wb.add_task(tc, [to])
        want = {"carrier": (v, "ro"), "other": ()}
        want_res = "rc"
    if kind == "context":
        want["carrier"] = ("X",) + want["carrier"]
    wf = Workflow(wb)
    text = "static input %s = %r on a %s %s task of a 2-task chain" % (vname, v, kind, shape)
    fails = []
    n = 0
    R.install()
    threaded_ok = True
    for mode in ("park", "optimize+sync"):
        if mode == "optimize+sync" and not threaded_ok:
            break  # dask's fuse does not terminate on the cyclic graph: nothing further to observe
        del calls[:]
        if mode == "park":
            obs, _, _ = R.run_controlled(lambda: execute_workflow(wf, dispatcher=LD, context=X), (), 64, lambda a: 0)
        else:
            obs = _plain_run(lambda: execute_workflow(wf, dispatcher=R.FakeDistributedDispatcher, context=X))
        n += 1
        how = None
        if obs[0] == "exc":
            how = ("exception:" + obs[1].split(":")[0], "execute_workflow raised %s" % obs[1].replace("\n", " ")[:160])
        else:
            got = dict(calls)
            if len(calls) != 2 or set(got) != {"carrier", "other"}:
                how = ("call-count", "calls %r" % ([c[0] for c in calls],))
            elif not _deep_same(got["carrier"], want["carrier"]):
                how = ("static-changed", "the task received %r, expected %r" % (got["carrier"], want["carrier"]))
            elif not _deep_same(got["other"], want["other"]) or obs[1] != want_res:
                how = ("wrong-value", "other task received %r / result %r" % (got["other"], obs[1]))
        if how is not None:
            threaded_ok = False
            shape_tag = ("results-string" if _has_results_str(v) else "") + ("task-tuple" if _has_task_tuple(v) else "")
            fails.append({"class": "static:%s:%s" % (shape_tag or "plain-value", how[0]), "what": "[%s] %s (dispatch %s)" % (text, how[1], mode),
                          "mode": mode, "how": how[0], "has_results_str": _has_results_str(v),
                          "has_task_tuple": _has_task_tuple(v)})
    return fails, n


# ----------------------------------------------------------------------------- enumeration
def _walk(prefix, plan, res, on_state):
    """DFS below `prefix` (inclusive)."""
    from vlib import c17_ref as R

    sr = on_state(prefix, False)
    if sr.status != "ok" or len(prefix) >= plan["depth"]:
        return
    for op in R.next_ops(sr.model, plan, len(prefix)):
        if R.op_is_twin(op):
            on_state(prefix + [op], True)
            continue
        _walk(prefix + [op], plan, res, on_state)


def _prefixes(plan):
    """Model-only enumeration of the op sequences of length <= shard_depth (parent process).
    Returns (short sequences incl. twins, frontier sequences)."""
    from vlib import c17_ref as R

    short, frontier = [], []
    sd = min(plan["shard_depth"], plan["depth"])

    def rec(ops, model, nxt):
        if len(ops) == sd:
            frontier.append(list(ops))
            return
        short.append((list(ops), False))
        for op in R.next_ops(model, plan, len(ops)):
            if R.op_is_twin(op):
                short.append((list(ops) + [op], True))
                continue
            m2 = model.copy()
            k = R.n_new_labels(op)
            try:
                R.model_apply(m2, op, tuple(range(nxt, nxt + k)))
            except R.Refused:
                short.append((list(ops) + [op], False))
                continue
            rec(ops + [op], m2, nxt + k)

    rec([], R.Model("E"), 0)
    return short, frontier


def shards(tier):
    out = []
    for plan in PLANS[tier]:
        short, frontier = _prefixes(plan)
        for p in frontier:
            out.append(("sub", plan["name"], p))
        out.append(("list", plan["name"], short))
    out.append(("statics", "statics", None))
    return out


def run_shard(shard, tier):
    from vlib import c17_ref as R

    res = {"states": 0, "transitions": 0, "evaluations": 0, "distinct_nontrivial": 0,
           "traces_validated_against_impl": 0, "violations": [], "samples": [], "outcomes": {},
           "capped": False, "twin_transitions": 0, "executed_by_task_count": {}}
    mode, pname, arg = shard
    plan = plan_by_name(tier, pname) if mode != "statics" else None
    scratch = tempfile.mkdtemp(prefix="verif-")
    old_tmp = tempfile.tempdir
    old_cwd = os.getcwd()
    tempfile.tempdir = scratch
    import pharmpy.workflows.dispatchers as D

    old_disp = D.conf.dask_dispatcher
    D.conf.dask_dispatcher = "threaded"
    per_class = {}

    def on_state(ops, light):
        sr = check_state([_tup(o) for o in ops], plan, light=light)
        res["transitions"] += 1 if ops else 0
        if light:
            res["twin_transitions"] += 1
        else:
            res["states"] += 1
        res["evaluations"] += sr.executions
        res["traces_validated_against_impl"] += sr.compared
        if sr.compared:
            res["distinct_nontrivial"] += 1
            h = res["executed_by_task_count"]
            h["%02d" % sr.ntasks] = h.get("%02d" % sr.ntasks, 0) + 1
        res["capped"] = res["capped"] or sr.capped
        res["outcomes"][sr.outcome] = res["outcomes"].get(sr.outcome, 0) + 1
        for f in sr.fails:
            k = (f["class"], bool(f.get("quirk")))
            per_class[k] = per_class.get(k, 0) + 1
            if per_class[k] <= 3:
                w = {"plan": pname, "tier": tier, "ops": [list(o) for o in ops], "ops_text": R.fmt_ops(ops),
                     "light": bool(light)}
                w.update(f)
                res["violations"].append(w)
        if sr.sample and len(res["samples"]) < 2 and res["states"] % 7 == 1:
            res["samples"].append(sr.sample)
        return sr

    try:
        if mode == "statics":
            for case in static_cases():
                fails, n = check_static_case(case)
                res["states"] += 1
                res["transitions"] += 2
                res["evaluations"] += n
                res["traces_validated_against_impl"] += n
                res["distinct_nontrivial"] += 1
                oc = "static-ok" if not fails else "static-mismatch"
                res["outcomes"][oc] = res["outcomes"].get(oc, 0) + 1
                for f in fails:
                    w = {"plan": "statics", "tier": tier, "case": list(case)}
                    w.update(f)
                    res["violations"].append(w)
            res["samples"].append("static value family: %d cases" % len(static_cases()))
        elif mode == "list":
            for ops, light in arg:
                on_state(list(ops), light)
        else:
            _walk(list(arg), plan, res, on_state)
    finally:
        R.uninstall()
        D.conf.dask_dispatcher = old_disp
        tempfile.tempdir = old_tmp
        try:
            os.chdir(old_cwd)
        except OSError:
            pass
        if _POOL[0] is not None:
            _POOL[0].shutdown(wait=True)
            _POOL[0] = None
        shutil.rmtree(scratch, ignore_errors=True)
    return res


def replay(w):
    from vlib import c17_ref as R
    import pharmpy.workflows.dispatchers as D

    statics = w.get("plan") == "statics"
    plan = None if statics else plan_by_name(w.get("tier", "quick"), w["plan"])
    ops = None if statics else [_tup(o) for o in w["ops"]]
    scratch = tempfile.mkdtemp(prefix="verif-")
    old_tmp = tempfile.tempdir
    tempfile.tempdir = scratch
    old_disp = D.conf.dask_dispatcher
    D.conf.dask_dispatcher = "threaded"
    try:
        if statics:
            fails, _ = check_static_case(tuple(w["case"]))
            return [f["what"] for f in fails if f["mode"] == w.get("mode", f["mode"])]
        sr = check_state(ops, plan, light=bool(w.get("light")))
        return [f["what"] for f in sr.fails]
    finally:
        R.uninstall()
        D.conf.dask_dispatcher = old_disp
        tempfile.tempdir = old_tmp
        if _POOL[0] is not None:
            _POOL[0].shutdown(wait=True)
            _POOL[0] = None
        shutil.rmtree(scratch, ignore_errors=True)


def classify(w):
    if w.get("class") == "arg-order(context-task-moved-last)" and w.get("quirk"):
        return KNOWN_QUIRK
    if w.get("plan") == "statics":
        # narrow: the value syntactically contains the offending shape AND fails in the way that shape explains
        if w.get("has_results_str") and not w.get("has_task_tuple") and w.get("how") == "exception:RuntimeError":
            return KNOWN_STATIC_KEY
        if w.get("has_task_tuple") and not w.get("has_results_str") and w.get("how") == "static-changed":
            return KNOWN_STATIC_TASK
    return None
