"""C16 - model database and run context: atomic and faithful, even across crashes.

(1) fidelity: every workload of <= N store/retrieve/log/annotation operations over 3 models is
    executed on a real LocalDirectoryContext and compared with a dict reference model;
(2) crash points: for crash-enumerated workloads the directory tree is snapshotted immediately
    before EVERY mutating file-system operation (vlib.crashfs), plus torn variants of every data
    write; every distinct crash state is restored and recovery is run on it with fresh objects.
"""
from __future__ import annotations

import itertools
import os
import shutil
import tempfile

PROPERTY = "C16"
LEVEL = "fault_enumeration"
ENGINE = "crashfs"
PREIMPORT = ("pharmpy.modeling", "pharmpy.workflows", "pharmpy.tools")
TECHNIQUE = ("exhaustive crash-point enumeration: every prefix of the recorded file-system operation history of a workload, "
             "with torn variants of each data write, is materialised and recovered; exhaustive bounded operation sequences "
             "against a reference model; stateless schedule exploration (iterative preemption bounding) of two concurrent "
             "store/retrieve/log/annotation operations of the real context code, scheduling points at every lock operation and "
             "every file-system call below the root")
LEVEL_TEXT = (
    "For each crash-enumerated workload every mutating file-system operation is a crash point (no sampling); each distinct "
    "resulting tree is reopened with fresh database/context objects and the atomicity/durability oracle is evaluated.  "
    "Fidelity workloads enumerate all operation sequences up to the bound over an adversarial string alphabet."
)
LEVEL_NOTE = (
    "trusted: vlib/crashfs.py interposition (open/io.open in write modes, os.open(O_CREAT), mkdir, unlink, rmdir, rename, replace, "
    "symlink) - the operation list it records for a store is printed in the evidence samples; crash model = process death "
    "(completed calls persist, in-flight data write torn, user-space buffers lost, no reordering); file data is modelled as "
    "one raw write at close(); schedule pass: vlib/schedx.py + the simulated fcntl kernel (validated against the real kernel by "
    "C15), one private copy of pharmpy's lock.py per simulated process, threads interleave only at lock operations and at "
    "file-system calls below the root (mutating and reading); what runs between two such points shares no state"
)
RULE = (
    "workloads over models m1, m2 (same dataset as m1, other initial estimate), m3 (other dataset); crash states = tree before "
    "each mutating FS operation + torn data writes {half, all-but-one byte}, deduplicated by tree digest; a crash state is "
    "non-trivial when at least one API call was in flight or acknowledged before it; evaluations = recovery runs; a schedule "
    "(= one complete execution of a two-thread program under the cooperative scheduler) counts as one state, its scheduling "
    "points as transitions; oracle per schedule: no deadlock, every acknowledged store retrievable and equivalent afterwards "
    "(fresh objects), a concurrent reader obtained a complete entry or a refusal, log rows complete and in per-thread order"
)
ASSUMPTIONS = [
    "process death crash model without block reordering below a completed system call",
    "equivalence of entries = equal name, description, parameters, random variables, statements, dataset values",
    "re-storing the model whose own transaction crashed may be refused (PendingTransactionError is documented); only other models must be storable",
    "schedule pass: every thread has opened the context before the program starts; a reader may be refused with KeyError, "
    "PendingTransactionError or FileNotFoundError while the entry is not committed",
]
BOUNDS = {"quick": "crash enumeration of 3 workloads (<= 4 operations), each mutating operation also failing once with an exception (ENOSPC); fidelity sequences of length <= 2 over 9 operations + adversarial strings; "
                   "schedules: 7 two-thread programs (1 or 2 simulated processes), every schedule with <= 1 preemption",
          "thorough": "crash enumeration of 8 workloads (<= 5 operations); fidelity sequences of length <= 3; schedules: 10 programs with <= 1 "
                      "preemption, 2 programs with <= 2 preemptions"}

STRINGS = ["a", "", "NA", "a,b", 'q"q', "two\nlines", " lead", "é", "x;y", "null", "1e5", "tab\there"]


# ------------------------------------------------------------------------------- models
_models = {}


def models():
    if _models:
        return _models
    from pharmpy.modeling import load_example_model, set_initial_estimates

    m = load_example_model("pheno")
    df = m.dataset[m.dataset["ID"] <= 3].reset_index(drop=True)
    m1 = m.replace(dataset=df, name="run1", description="first")
    m2 = set_initial_estimates(m1, {"POP_CL": 0.005}).replace(name="run2", description="second")
    df3 = m.dataset[(m.dataset["ID"] >= 4) & (m.dataset["ID"] <= 5)].reset_index(drop=True)
    m3 = m1.replace(dataset=df3, name="run3", description="third")
    _models.update({"m1": m1, "m2": m2, "m3": m3})
    return _models


_results = {}


def results():
    """modelfit results stored with each model: objective value, estimates, and a log of 12 / 3 / 0 messages (more than ten,
    so that positions have two digits)"""
    if _results:
        return _results
    import pandas as pd
    from pharmpy.workflows import Log, ModelfitResults

    M = models()
    for k, (mid, nmsg) in enumerate((("m1", 12), ("m2", 3), ("m3", 0))):
        log = Log()
        for i in range(nmsg):
            log = log.log_warning(f"message {i}: a,b \"q\"") if i % 3 else log.log_error(f"message {i}")
        pe = pd.Series({p.name: float(p.init) * (1.0 + 0.01 * (k + 1)) for p in M[mid].parameters}, name="estimates")
        _results[mid] = ModelfitResults(ofv=100.5 + k, parameter_estimates=pe, minimization_successful=True, log=log)
    return _results


def equivalent_results(me, mid):
    """differences between the results retrieved with an entry and the stored ones"""
    want = results()[mid]
    got = me.modelfit_results
    if got is None:
        return ["modelfit results missing"]
    out = []
    if got.ofv != want.ofv:
        out.append(f"results: ofv {got.ofv} != {want.ofv}")
    try:
        if list(got.parameter_estimates.index) != list(want.parameter_estimates.index) or \
                any(abs(a - b) > 1e-12 * max(1.0, abs(b)) for a, b in zip(got.parameter_estimates, want.parameter_estimates)):
            out.append("results: parameter estimates differ")
    except Exception as e:
        out.append(f"results: parameter estimates unreadable ({type(e).__name__})")
    gl = [(e.category, e.message) for e in (got.log or ())]
    wl = [(e.category, e.message) for e in want.log]
    if gl != wl:
        out.append(f"results: log messages {[m for _, m in gl][:13]} are not the stored ones in order {[m for _, m in wl][:13]}")
    return out


def equivalent(got, want, name, description):
    """list of differences between a retrieved model and the stored one"""
    import numpy as np

    out = []
    if got.name != name:
        out.append(f"name {got.name!r} != {name!r}")
    if got.description != description:
        out.append(f"description {got.description!r} != {description!r}")
    if got.parameters != want.parameters:
        out.append("parameters differ")
    if got.random_variables != want.random_variables:
        out.append("random variables differ")
    if got.statements != want.statements:
        out.append("statements differ")
    a, b = got.dataset, want.dataset
    if a is None or b is None:
        out.append("dataset missing")
    elif list(a.columns) != list(b.columns) or a.shape != b.shape:
        out.append(f"dataset shape/columns differ {a.shape} vs {b.shape}")
    elif not np.allclose(a.to_numpy(dtype=float), b.to_numpy(dtype=float), rtol=1e-12, atol=0, equal_nan=True):
        out.append("dataset values differ")
    return out


# ------------------------------------------------------------------------------- workloads
# op = ("store", model_id, name, description) | ("final", model_id) | ("input", model_id) | ("log", severity, message)
#      | ("annot", name, text) | ("retrieve", name)
class Inadmissible(Exception):
    """the model object itself cannot be created with these attributes (documented refusal)"""


def run_op(ctx, op, ref):
    """execute one operation on the real context, update the reference model `ref`"""
    from pharmpy.workflows import ModelEntry

    M = models()
    k = op[0]
    if k == "store":
        _, mid, name, desc = op
        try:
            m = M[mid].replace(name=name, description=desc)
        except ValueError as e:
            raise Inadmissible(str(e))
        ctx.store_model_entry(ModelEntry.create(model=m, modelfit_results=results()[mid]))
        ref["names"][name] = (mid, desc)
    elif k == "final":
        m = M[op[1]]
        ctx.store_final_model_entry(ModelEntry.create(model=m, modelfit_results=results()[op[1]]))
        ref["names"]["final"] = (op[1], m.description)
    elif k == "input":
        m = M[op[1]]
        ctx.store_input_model_entry(ModelEntry.create(model=m, modelfit_results=results()[op[1]]))
        ref["names"]["input"] = (op[1], m.description)
    elif k == "log":
        getattr(ctx, "log_" + op[1])(op[2])
        ref["log"].append((op[1], op[2]))
    elif k == "annot":
        ctx.store_annotation(op[1], op[2])
        if op[1] in ref["names"]:
            ref["names"][op[1]] = (ref["names"][op[1]][0], op[2])
    elif k == "retrieve":
        pass
    else:
        raise ValueError(k)


def check_names(ctx, ref, must, fails, tag):
    """retrieve every known name; `must`: names whose retrieval has to succeed"""
    from pharmpy.workflows.model_database.baseclass import PendingTransactionError

    M = models()
    n = 0
    for name in sorted(set(ref["names"]) | set(must)):
        mid, desc = ref["names"][name]
        try:
            me = ctx.retrieve_model_entry(name) if name not in ("final", "input") else (
                ctx.retrieve_final_model_entry() if name == "final" else ctx.retrieve_input_model_entry())
        except BaseException as e:
            if name in must:
                fails.append(f"{tag}: committed entry {name!r} cannot be retrieved: {type(e).__name__}: {str(e)[:120]}")
            continue
        n += 1
        want_name = {"final": "final", "input": "input"}.get(name, name)
        diffs = equivalent(me.model, M[mid], want_name, desc) + equivalent_results(me, mid)
        if diffs:
            kind = "committed" if name in must else "uncommitted (store in flight at the crash)"
            fails.append(f"{tag}: {kind} entry {name!r} retrieved but not equivalent to what was stored: {'; '.join(diffs)}")
    return n


def check_log(ctx, ref, fails, tag, strict=True):
    try:
        df = ctx.retrieve_log()
    except BaseException as e:
        fails.append(f"{tag}: log cannot be read: {type(e).__name__}: {str(e)[:100]}")
        return
    if "severity" not in df.columns or "message" not in df.columns:
        fails.append(f"{tag}: the log has lost its columns: {list(df.columns)!r}")
        return
    got = [(str(s), m) for s, m in zip(df["severity"], df["message"])]
    want = list(ref["log"])
    if strict:
        if got != want:
            fails.append(f"{tag}: log rows {got!r} != written {want!r}")
    else:
        # after a crash: acknowledged rows must be a prefix-preserving subsequence at the front
        if got[:len(want)] != want:
            fails.append(f"{tag}: acknowledged log rows {want!r} not intact: {got!r}")


# ------------------------------------------------------------------------------- fidelity
def fidelity_workloads(tier):
    base_ops = [
        ("store", "m1", "run1", "first"), ("store", "m2", "run2", "second"), ("store", "m3", "run3", "third"),
        ("store", "m2", "run1", "again"), ("final", "m1"), ("final", "m2"), ("input", "m1"),
        ("log", "info", "hello"), ("annot", "run1", "changed"),
    ]
    out = []
    n = 2 if tier == "quick" else 3
    for k in range(1, n + 1):
        for seq in itertools.product(base_ops, repeat=k):
            if k == 3 and tier == "thorough" and not any(o[0] in ("store", "final") for o in seq):
                continue
            out.append(list(seq))
    # adversarial strings: description, log message, annotation, model name
    for s in STRINGS:
        out.append([("store", "m1", "run1", s)])
        out.append([("log", "warning", s), ("log", "info", "after")])
        out.append([("store", "m1", "run1", "d"), ("annot", "run1", s)])
    for s in ["a", "run 1", "ré", "run.1", "NA"]:
        out.append([("store", "m1", s, "desc")])
    return out


def run_fidelity(workload):
    from pharmpy.workflows import LocalDirectoryContext

    root = tempfile.mkdtemp(prefix="verif-c16-")
    fails = []
    ref = {"names": {}, "log": []}
    try:
        ctx = LocalDirectoryContext("ctx", ref=root)
        for i, op in enumerate(workload):
            try:
                run_op(ctx, op, ref)
            except Inadmissible:
                return []
            except ValueError as e:
                if op[0] == "store" and "Invalid title" in str(e):
                    return []  # documented refusal of the description by the model writer
                fails.append(f"operation {i} {op!r} failed: {type(e).__name__}: {str(e)[:150]}")
                return fails
            except BaseException as e:
                fails.append(f"operation {i} {op!r} failed: {type(e).__name__}: {str(e)[:150]}")
                return fails
        ctx2 = LocalDirectoryContext("ctx", ref=root)
        check_names(ctx2, ref, set(ref["names"]), fails, "fidelity")
        check_log(ctx2, ref, fails, "fidelity")
    finally:
        shutil.rmtree(root, ignore_errors=True)
    return fails


# ------------------------------------------------------------------------------- crash enumeration
def crash_workloads(tier):
    w = [
        [("store", "m1", "run1", "first"), ("store", "m2", "run2", "second")],
        [("store", "m1", "run1", "first"), ("log", "info", "hello"), ("store", "m3", "run3", "third"), ("log", "warning", "w2")],
        [("input", "m1"), ("store", "m2", "run2", "second"), ("final", "m2")],
    ]
    if tier == "thorough":
        w += [
            [("store", "m1", "run1", "first"), ("store", "m2", "run2", "second"), ("store", "m3", "run3", "third")],
            [("store", "m3", "run3", "third"), ("store", "m1", "run1", "first"), ("annot", "run3", "changed"), ("store", "m2", "run2", "second")],
            [("log", "info", "a"), ("log", "error", "b"), ("store", "m1", "run1", "first"), ("log", "info", "c")],
            [("store", "m1", "run1", "first"), ("store", "m1", "copy", "same model, other name"), ("store", "m2", "run2", "second")],
            [("input", "m1"), ("store", "m1", "run1", "first"), ("store", "m2", "run2", "second"), ("final", "m2"), ("log", "info", "done")],
        ]
    return w


def record_crash_states(workload, root, snapdir):
    """Run the workload once under the recorder.  Returns (states, ops) where a state is a dict
    (dir, acked (number of API calls completed), inflight (index of API call running or None), op description)."""
    from pharmpy.workflows import LocalDirectoryContext

    from vlib import crashfs

    states = []
    seen = set()
    progress = {"acked": 0, "inflight": None}
    real_open = open

    def snap(op, torn=None):
        d = os.path.join(snapdir, f"s{len(states)}")
        crashfs.copy_tree(root, d)
        desc = f"before op {op['i']} {op['kind']} {op['path']}"
        if torn is not None:
            frac, data = torn
            with real_open(os.path.join(d, op["path"]), "ab") as fh:
                fh.write(data)
            desc = f"op {op['i']} write {op['path']} torn after {len(data)}/{len(op['data'])} bytes"
        dg = crashfs.tree_digest(d)
        if dg in seen:
            shutil.rmtree(d)
            return
        seen.add(dg)
        states.append({"dir": d, "acked": progress["acked"], "inflight": progress["inflight"], "desc": desc, "op": op["i"]})

    def on_op(op):
        rec.active = False
        try:
            snap(op)
            if op["kind"] == "write" and len(op["data"]) > 1:
                data = op["data"]
                snap(op, (0.5, data[: len(data) // 2]))
                snap(op, (1.0, data[:-1]))
        finally:
            rec.active = True

    rec = crashfs.Recorder(root, on_op)
    with rec:
        progress["inflight"] = -1  # context creation
        ctx = LocalDirectoryContext("ctx", ref=root)
        progress["inflight"] = None
        ref = {"names": {}, "log": []}
        for i, op in enumerate(workload):
            progress["inflight"] = i
            run_op(ctx, op, ref)
            progress["acked"] = i + 1
            progress["inflight"] = None
    # final state (everything acknowledged)
    rec_ops = [{k: v for k, v in o.items() if k != "data"} for o in rec.ops]
    d = os.path.join(snapdir, "final")
    crashfs.copy_tree(root, d)
    states.append({"dir": d, "acked": len(workload), "inflight": None, "desc": "after the last operation", "op": len(rec.ops)})
    return states, rec_ops


def exception_run(workload, k, root):
    """run the workload on a fresh tree; the k-th mutating file-system operation fails with OSError(ENOSPC) - once; the API call
    that was running ends with that exception (or handles it), nothing further is executed.  -> state dict or None"""
    import errno

    from pharmpy.workflows import LocalDirectoryContext

    from vlib import crashfs

    hit = {"done": False, "op": None}
    progress = {"acked": 0, "inflight": None}

    def on_op(op):
        if op["i"] == k and not hit["done"]:
            hit["done"] = True
            hit["op"] = f"{op['kind']} {op['path']}"
            raise OSError(errno.ENOSPC, "No space left on device (injected)")

    rec = crashfs.Recorder(root, on_op)
    raised = None
    with rec:
        try:
            progress["inflight"] = -1
            ctx = LocalDirectoryContext("ctx", ref=root)
            progress["inflight"] = None
            ref = {"names": {}, "log": []}
            for i, op in enumerate(workload):
                progress["inflight"] = i
                run_op(ctx, op, ref)
                progress["acked"] = i + 1
                progress["inflight"] = None
                if hit["done"]:
                    break  # the failing operation was absorbed by the call: stop here all the same
        except Exception as e:
            raised = f"{type(e).__name__}: {str(e)[:60]}"
    if not hit["done"]:
        return None
    return {"dir": None, "acked": progress["acked"], "inflight": progress["inflight"], "how": "exception",
            "desc": f"at op {k} {hit['op']}" + (f" (call raised {raised})" if raised else " (call returned normally)"), "op": k}


def recover_and_check(workload, state, root):
    """restore the crash state at `root`, reopen with fresh objects, evaluate the oracle"""
    from pharmpy.workflows import LocalDirectoryContext, ModelEntry

    from vlib import crashfs

    fails = []
    tag = f"{state.get('how', 'crash')} {state['desc']}"
    acked = workload[: state["acked"]]
    inflight = workload[state["inflight"]] if state["inflight"] not in (None, -1) else None
    if state["inflight"] == -1 or (inflight is not None and inflight[0] not in ("store", "final", "input")):
        # the property speaks about interrupted *stores* of model entries; a crash while the context is being
        # created or while a log row / annotation is appended is not judged
        return None
    if state.get("dir") is not None:
        crashfs.copy_tree(state["dir"], root)
    ref = {"names": {}, "log": []}
    M = models()
    for op in acked:
        _ref_apply(op, ref)
    must = set(ref["names"])
    ref_all = {"names": dict(ref["names"]), "log": list(ref["log"])}
    if inflight is not None:
        _ref_apply(inflight, ref_all)
        # an entry being overwritten under an existing name is in an undefined state: not 'must'
        for nm in ref_all["names"]:
            if ref_all["names"][nm] != ref["names"].get(nm):
                must.discard(nm)
    try:
        ctx = LocalDirectoryContext("ctx", ref=root)
    except BaseException as e:
        if state["acked"] > 0 or state["inflight"] != -1:
            fails.append(f"{tag}: the context cannot be reopened: {type(e).__name__}: {str(e)[:120]}")
        return fails
    # (a)+(b): nothing partial is visible, committed entries are intact
    ref_vis = {"names": {}, "log": ref["log"]}
    for nm, v in ref_all["names"].items():
        ref_vis["names"][nm] = v if nm not in must else ref["names"][nm]
    check_names(ctx, ref_vis, must, fails, tag)
    check_log(ctx, ref, fails, tag, strict=False)
    # (c): models whose own transaction did not crash can still be stored (incl. ones sharing the dataset)
    crashed_mid = None
    if inflight is not None and inflight[0] in ("store", "final", "input"):
        crashed_mid = inflight[1]
    for mid in ("m1", "m2", "m3"):
        if mid == crashed_mid:
            continue
        name = "post_" + mid
        try:
            ctx.store_model_entry(ModelEntry.create(model=M[mid].replace(name=name, description="post " + mid)))
        except BaseException as e:
            fails.append(f"{tag}: storing {mid} afterwards fails: {type(e).__name__}: {str(e)[:120]}")
            continue
        try:
            me = ctx.retrieve_model_entry(name)
            diffs = equivalent(me.model, M[mid], name, "post " + mid)
            if diffs:
                fails.append(f"{tag}: {mid} stored afterwards is not retrieved intact: {'; '.join(diffs)}")
        except BaseException as e:
            fails.append(f"{tag}: {mid} stored afterwards cannot be retrieved: {type(e).__name__}: {str(e)[:120]}")
    # a reader that asks the database for the key of the model whose store was in flight gets a refusal or the complete entry
    if crashed_mid is not None:
        from pharmpy.workflows.hashing import ModelHash

        try:
            me = ctx.model_database.retrieve_model_entry(ModelHash(M[crashed_mid]))
        except BaseException:
            me = None
        if me is not None:
            diffs = equivalent(me.model, M[crashed_mid], me.model.name, me.model.description)
            if diffs:
                fails.append(f"{tag}: a reader of the key of {crashed_mid} (store in flight at the crash) obtains a partial entry: {'; '.join(diffs)}")
    # the crashed model itself: storing it again may be refused (pending transaction), but if the store returns normally the
    # entry must then be complete - a torn first attempt must not be published as committed
    if crashed_mid is not None:
        name = "again_" + crashed_mid
        try:
            ctx.store_model_entry(ModelEntry.create(model=M[crashed_mid].replace(name=name, description="again")))
            stored = True
        except BaseException:
            stored = False
        if stored:
            try:
                me = ctx.retrieve_model_entry(name)
                diffs = equivalent(me.model, M[crashed_mid], name, "again")
                if diffs:
                    fails.append(f"{tag}: {crashed_mid} stored again after the crash is acknowledged but not retrieved intact: {'; '.join(diffs)}")
            except BaseException as e:
                fails.append(f"{tag}: {crashed_mid} stored again after the crash is acknowledged but cannot be retrieved: {type(e).__name__}: {str(e)[:120]}")
    # log still usable
    try:
        ctx.log_info("post-crash message")
        df = ctx.retrieve_log()
        if "message" not in df.columns or "post-crash message" not in list(df["message"]):
            fails.append(f"{tag}: a message logged after recovery is not in the log")
    except BaseException as e:
        fails.append(f"{tag}: logging after recovery fails: {type(e).__name__}: {str(e)[:120]}")
    # committed entries are still intact after the recovery stores
    check_names(ctx, {"names": {k: ref["names"][k] for k in must}, "log": []}, must, fails, tag + " (after later stores)")
    return fails


def _ref_apply(op, ref):
    M = models()
    k = op[0]
    if k == "store":
        ref["names"][op[2]] = (op[1], op[3])
    elif k == "final":
        ref["names"]["final"] = (op[1], M[op[1]].description)
    elif k == "input":
        ref["names"]["input"] = (op[1], M[op[1]].description)
    elif k == "log":
        ref["log"].append((op[1], op[2]))
    elif k == "annot":
        if op[1] in ref["names"]:
            ref["names"][op[1]] = (ref["names"][op[1]][0], op[2])


# ------------------------------------------------------------------------------- runner API
NPART = 12
SCHED_SPLIT = {"quick": 4, "thorough": 16}


def sched_programs(tier):
    """(label, (prefix operations, ((pid, operations), ...)), preemption bound) - see vlib/c16_sched.py"""
    inp = (("input", "m1"),)
    st2 = ("store", "m2", "run2", "second")
    st3 = ("store", "m3", "run3", "third")
    st1 = ("store", "m1", "run1", "first")
    P = []
    # a reader of the name that is being stored: complete entry or refusal, never a partial one (two processes / two threads)
    P.append(("store||retrieve 2 processes", (inp, ((0, (st2,)), (1, (("retrieve", "run2"),)))), 1))
    P.append(("store||retrieve 1 process", (inp, ((0, (st2,)), (0, (("retrieve", "run2"),)))), 1))
    # two writers whose models share a dataset that nobody stored before (dataset numbering / index)
    P.append(("store||store shared new dataset", ((), ((0, (st1,)), (1, (st2,)))), 1))
    # log rows of two writers; annotation read-modify-write against a store
    P.append(("log||log", (inp, ((0, (("log", "error", "a,b"), ("log", "warning", 'q"q'))), (1, (("log", "error", "two\nlines"),)))), 1))
    P.append(("annotation||store", ((st1,), ((0, (("annot", "run1", "x y"),)), (1, (st2,)))), 1))
    # a reader that asks the database for the key (no name involved: only the PENDING protocol and the lock protect it)
    P.append(("store||retrieve by key", (inp, ((0, (st2,)), (1, (("retrieve_key", "m2"),)))), 1))
    # two writers with different new datasets (both must get their own dataN.csv)
    P.append(("store||store two new datasets", ((), ((0, (st1,)), (1, (st3,)))), 1))
    if tier == "thorough":
        P.append(("store||store other dataset", (inp, ((0, (st2,)), (1, (st3,)))), 1))
        P.append(("store||retrieve committed entry", (inp, ((0, (st2,)), (1, (("retrieve", "input"),)))), 1))
        P.append(("store||store shared new dataset 1 process", ((), ((0, (st1,)), (0, (st2,)))), 1))
        P.append(("store||retrieve 2 processes, 2 preemptions", (inp, ((0, (st2,)), (1, (("retrieve", "run2"),)))), 2))
        P.append(("annotation||store, 2 preemptions", ((st1,), ((0, (("annot", "run1", "x y"),)), (1, (st2,)))), 2))
    return P


def run_sched_shard(shard, tier, res):
    """iterative-preemption-bounded DFS over the schedules of one program; the first-level deviations are dealt round-robin
    to SCHED_SPLIT[tier] shards (shard 0 also owns the default schedule)"""
    from vlib import c16_sched, schedx

    _, pi, k = shard
    label, prog, bound = sched_programs(tier)[pi]
    seen_outcomes = {}

    def run_one(prefix):
        r = c16_sched.run_program(prog, prefix)
        x = r["sched"]
        res["states"] += 1
        res["evaluations"] += 1
        res["schedules"] = res.get("schedules", 0) + 1
        res["transitions"] += x.steps
        res["traces_validated_against_impl"] = res.get("traces_validated_against_impl", 0) + 1
        if len(x.points) > 0:
            res["distinct_nontrivial"] += 1
        key = "sched:" + r["outcome"]
        res["outcomes"][key] = res["outcomes"].get(key, 0) + 1
        seen_outcomes[r["outcome"]] = 1
        for f in _one_per_class(r["failures"]):
            res["violations"].append({"kind": "sched", "program": label, "prog": prog, "choices": list(x.choices),
                                      "what": f"[{label}: schedule {''.join(map(str, x.choices))}] {f}", "class": "sched:" + _cls(f)})
        return x

    try:
        root = c16_sched.run_program(prog, [])["sched"]
        kids = schedx.children(root, bound)
        mine = [c for i, c in enumerate(kids) if i % SCHED_SPLIT[tier] == k]
        roots = ([[]] if k == 0 else []) + mine
        if roots:
            schedx.explore(run_one, bound, roots=roots)
        res.setdefault("schedules_per_program", {})[label] = res.get("schedules", 0)
        if k == 0:
            res.setdefault("schedule_programs", {})[label] = (f"preemption bound {bound}; {len(root.points)} choice points and {root.steps} "
                                                              f"scheduling points on the default schedule; {len(kids)} first-level deviations")
    finally:
        c16_sched.cleanup_templates()


def shards(tier):
    out = []
    for wi, w in enumerate(crash_workloads(tier)):
        for p in range(NPART):
            out.append(("crash", wi, p))
    for wi, w in enumerate(crash_workloads(tier)):
        for p in range(NPART):
            out.append(("exc", wi, p))
    for pi, (label, prog, bound) in enumerate(sched_programs(tier)):
        for k in range(SCHED_SPLIT[tier]):
            out.append(("sched", pi, k))
    fw = fidelity_workloads(tier)
    n = 48
    k = (len(fw) + n - 1) // n
    for i in range(0, len(fw), k):
        out.append(("fidelity", i, i + k))
    return out


def fmt_w(w):
    return " ; ".join(":".join(map(repr, op)) for op in w)


def run_shard(shard, tier):
    import contextlib
    import io

    with contextlib.redirect_stdout(io.StringIO()):
        return _run_shard(shard, tier)


def _run_shard(shard, tier):
    res = {"states": 0, "transitions": 0, "evaluations": 0, "distinct_nontrivial": 0, "violations": [], "samples": [],
           "outcomes": {}, "crash_states": 0, "fidelity_workloads": 0}
    if shard[0] == "sched":
        run_sched_shard(shard, tier, res)
        return res
    if shard[0] == "exc":
        _, wi, part = shard
        w = crash_workloads(tier)[wi]
        k = part
        while True:
            base = tempfile.mkdtemp(prefix="verif-c16x-")
            try:
                root = os.path.join(base, "root")
                os.mkdir(root)
                st = exception_run(w, k, root)
                if st is None:
                    break  # the workload has fewer than k+1 mutating operations
                fails = recover_and_check(w, st, root)
                if fails is None:
                    res["crash_states_not_judged"] = res.get("crash_states_not_judged", 0) + 1
                else:
                    res["evaluations"] += 1
                    res["states"] += 1
                    res["transitions"] += 1
                    res["distinct_nontrivial"] += 1
                    res["exception_states"] = res.get("exception_states", 0) + 1
                    key = "exception:" + ("ok" if not fails else "fail")
                    res["outcomes"][key] = res["outcomes"].get(key, 0) + 1
                    for f in _one_per_class(fails):
                        res["violations"].append({"kind": "exc", "workload": w, "workload_index": wi, "k": k, "state": {kk: v for kk, v in st.items() if kk != "dir"},
                                                  "what": f"[{fmt_w(w)}] {f}", "class": _cls(f), "all": fails[:4]})
            finally:
                shutil.rmtree(base, ignore_errors=True)
            k += NPART
        return res
    if shard[0] == "fidelity":
        fw = fidelity_workloads(tier)[shard[1]:shard[2]]
        for w in fw:
            fails = run_fidelity(w)
            res["evaluations"] += 1
            res["fidelity_workloads"] += 1
            res["states"] += 1
            res["transitions"] += len(w)
            res["distinct_nontrivial"] += 1
            res["outcomes"]["fidelity:" + ("ok" if not fails else "fail")] = res["outcomes"].get("fidelity:" + ("ok" if not fails else "fail"), 0) + 1
            for f in _one_per_class(fails):  # never only the first: a known finding must not hide another failure
                res["violations"].append({"kind": "fidelity", "workload": w, "what": f"[{fmt_w(w)}] {f}", "class": _cls(f), "all": fails[:4]})
        if fw:
            res["samples"].append({"fidelity_workload": fmt_w(fw[0])})
        return res
    _, wi, part = shard
    w = crash_workloads(tier)[wi]
    base = tempfile.mkdtemp(prefix="verif-c16-")
    try:
        root = os.path.join(base, "root")
        os.mkdir(root)
        snapdir = os.path.join(base, "snaps")
        os.mkdir(snapdir)
        states, ops = record_crash_states(w, root, snapdir)
        if part == 0:
            res["samples"].append({"workload": fmt_w(w), "fs_operations": [f"{o['i']} {o['kind']} {o['path']}" for o in ops][:60],
                                   "distinct_crash_states": len(states)})
        for si, st in enumerate(states):
            if si % NPART != part:
                continue
            fails = recover_and_check(w, st, root)
            if fails is None:
                res["crash_states_not_judged"] = res.get("crash_states_not_judged", 0) + 1
                continue
            res["evaluations"] += 1
            res["crash_states"] += 1
            res["states"] += 1
            res["transitions"] += 1
            if st["acked"] > 0 or st["inflight"] not in (None, -1):
                res["distinct_nontrivial"] += 1
            key = "crash:" + ("ok" if not fails else "fail")
            res["outcomes"][key] = res["outcomes"].get(key, 0) + 1
            for f in _one_per_class(fails):
                res["violations"].append({"kind": "crash", "workload": w, "workload_index": wi, "state": {k: v for k, v in st.items() if k != "dir"},
                                          "what": f"[{fmt_w(w)}] {f}", "class": _cls(f), "all": fails[:4]})
    finally:
        shutil.rmtree(base, ignore_errors=True)
    return res


def _one_per_class(fails):
    seen, out = set(), []
    for f in fails:
        c = _cls(f)
        if c not in seen:
            seen.add(c)
            out.append(f)
    return out[:30]


def _cls(f):
    import re

    f2 = re.sub(r"crash (before op \d+ |op \d+ )", "", f)
    f2 = re.sub(r"[A-Za-z0-9_-]{30,}", "<hash>", f2)
    return f2[:90]


def _tup(x):
    if isinstance(x, list):
        return tuple(_tup(y) for y in x)
    return x


def replay(w):
    if w["kind"] == "sched":
        from vlib import c16_sched

        try:
            return c16_sched.run_program(_tup(w["prog"]), list(w["choices"]))["failures"]
        finally:
            c16_sched.cleanup_templates()
    wl = [_tup(op) for op in w["workload"]]
    if w["kind"] == "exc":
        base = tempfile.mkdtemp(prefix="verif-c16x-")
        try:
            root = os.path.join(base, "root")
            os.mkdir(root)
            st = exception_run(wl, w["k"], root)
            return (recover_and_check(wl, st, root) or []) if st else ["replay: the workload no longer has that operation"]
        finally:
            shutil.rmtree(base, ignore_errors=True)
    if w["kind"] == "fidelity":
        return run_fidelity(wl)
    base = tempfile.mkdtemp(prefix="verif-c16-")
    try:
        root = os.path.join(base, "root")
        os.mkdir(root)
        snapdir = os.path.join(base, "snaps")
        os.mkdir(snapdir)
        states, ops = record_crash_states(wl, root, snapdir)
        for st in states:
            if st["desc"] == w["state"]["desc"]:
                return recover_and_check(wl, st, root) or []
        return ["replay: crash state not found: " + w["state"]["desc"]]
    finally:
        shutil.rmtree(base, ignore_errors=True)


def classify(w):
    from checks import c16_patterns

    return c16_patterns.classify(w)
