"""C06 - models are immutable values: no API call changes its input; equal means equal; results are well formed.

Call table = every public function of pharmpy.modeling whose first parameter is `model` (arguments from a per-function
menu generated from the model), plus model-taking helpers of pharmpy.tools / pharmpy.workflows.  States = start models
and their successors under the transformation alphabet (vlib.mgraph).  On every (state, call): deep snapshot of the
argument (and of the start model it was derived from) before == after, whether the call returns or raises; returned
models are checked for well-formedness; equality/hash/copy laws are checked on all reached states.
"""
from __future__ import annotations

import copy
import hashlib
import inspect
import json

PROPERTY = "C06"
LEVEL = "model_checking"
ENGINE = "seqx"
PREIMPORT = ("pharmpy.modeling", "pharmpy.tools", "pharmpy.workflows")
TECHNIQUE = ("exhaustive enumeration of (reachable model, public API call) pairs on real objects with a deep before/after snapshot "
             "oracle, plus equality/hash/copy laws on all reached states")
LEVEL_TEXT = ("Every public model-taking function is called on every reached state (including states that share a DataFrame with "
              "their predecessor); the argument and its ancestors are compared field by field before and after.  This is exhaustive "
              "over the call table x state set, which is what 'no public function modifies its input' quantifies over.")
LEVEL_NOTE = ("trusted: the snapshot function (dataset values+dtypes+columns+index, datainfo, parameters, random variables, statements, "
              "generated code, control stream text); functions needing external tools or plotting back ends with large inputs are listed "
              "as excluded in the evidence")
RULE = ("states = start models + successors under the full alphabet to the stated depth; evaluations = (state, function, argument "
        "tuple) calls; non-trivial = the call returned normally with a value different from its input")
ASSUMPTIONS = ["argument menus are finite (first individual parameter, first covariate, literal option values)",
               "a call that raises is still required to leave its argument unchanged"]
BOUNDS = {"quick": "start models + depth 1 (full alphabet), capped at 48 states; full call table",
          "thorough": "depth 2, capped at 400 states"}

START = ["pheno", "pheno_oral", "pheno_linear", "pred_nl", "pred_dates", "pheno_4block"]
EXCLUDE = {"print_model_code", "print_model_symbols", "display_odes", "write_csv", "plot_vpc", "bump_model_number",
           "load_dataset", "set_dataset", "create_config_template", "read_model", "read_model_from_string", "load_example_model",
           "solve_ode_system", "plot_abs_cwres_vs_ipred", "plot_cwres_vs_idv", "plot_dv_vs_ipred", "plot_dv_vs_pred",
           "plot_eta_distributions", "plot_individual_predictions", "plot_transformed_eta_distributions"}


def alphabet(tier, depth):
    from vlib import mgraph

    return list(mgraph.ops("all"))


def depth_limit(tier):
    return 1 if tier == "quick" else 2


def drive(tier):
    import sys

    from vlib import seqx

    results = seqx.drive(sys.modules[__name__], tier, START, depth_limit=depth_limit(tier), max_states=48 if tier == "quick" else 440)
    if any("harness_error" in r for r in results):
        return results
    # the states of the recorded known findings are examined in every run, whatever the state cap left out
    from vlib import core

    extra = seqx.known_witness_states(sys.modules[__name__])
    if extra:
        results.extend(core.pmap(__name__, [("level", extra)], tier))
    return results


def run_shard(shard, tier):
    import sys

    from vlib import seqx

    return seqx.run_level_shard(sys.modules[__name__], shard, tier, depth_limit=depth_limit(tier))


def classify_text(f):
    return f.split(":")[0][:80]


# ------------------------------------------------------------------------------- snapshot
def snapshot(model):
    import pandas as pd

    out = {}
    df = model.dataset
    if df is None:
        out["dataset"] = None
    else:
        h = hashlib.sha1()
        h.update(repr(list(df.columns)).encode())
        h.update(repr([str(t) for t in df.dtypes]).encode())
        h.update(repr(list(df.index[:5])).encode() + repr(len(df.index)).encode())
        h.update(pd.util.hash_pandas_object(df, index=True).values.tobytes())
        out["dataset"] = h.hexdigest()
    iie = model.initial_individual_estimates
    if iie is None:
        out["initial_individual_estimates"] = None
    else:
        out["initial_individual_estimates"] = repr(list(iie.columns)) + hashlib.sha1(
            pd.util.hash_pandas_object(iie, index=True).values.tobytes()).hexdigest()
    out["datainfo"] = json.dumps(model.datainfo.to_dict(), sort_keys=True, default=str)
    out["parameters"] = json.dumps(model.parameters.to_dict(), sort_keys=True, default=str)
    out["random_variables"] = json.dumps(model.random_variables.to_dict(), sort_keys=True, default=str)
    out["statements"] = json.dumps(model.statements.to_dict(), sort_keys=True, default=str)
    out["name"] = model.name
    out["description"] = model.description
    try:
        out["code"] = model.code
    except Exception as e:
        out["code"] = f"<{type(e).__name__}>"
    internals = getattr(model, "internals", None)
    cs = getattr(internals, "control_stream", None)
    out["control_stream"] = str(cs) if cs is not None else None
    return out


def diff_snap(a, b):
    return [k for k in a if a[k] != b[k]]


# ------------------------------------------------------------------------------- call table
class ArgumentMutated(Exception):
    pass


def arg_menus(model):
    """name -> list of (args, kwargs) for functions that need more than the model"""
    import pharmpy.modeling as pm
    from pharmpy.basic import Expr

    try:
        ips = pm.get_individual_parameters(model)
    except Exception:
        ips = []
    ip = ips[0] if ips else "CL"
    covs = [c for c in ("WGT", "APGR") if c in model.datainfo.names]
    cov = covs[0] if covs else None
    etas = model.random_variables.iiv.names
    eta = etas[0] if etas else None
    thetas = [p.name for p in model.parameters if p.name not in model.random_variables.parameter_names]
    th = thetas[0] if thetas else model.parameters.names[0]
    cols = model.datainfo.names
    used = {str(x) for x in model.statements.free_symbols}
    unused = [c for c in cols if c not in used and c != model.datainfo.id_column.name]
    ncol = unused[-1] if unused else cols[-1]  # dropping a column the statements read is the caller's decision
    inits = dict(model.parameters.inits)
    m = {}
    if cov:
        m["add_covariate_effect"] = [((ip, cov, "exp"), {}), ((ip, cov, "lin"), {"operation": "+"})]
        m["has_covariate_effect"] = [((ip, cov), {})]
        m["remove_covariate_effect"] = [((ip, cov), {})]
    m["add_estimation_step"] = [(("FOCE",), {})]
    m["add_iiv"] = [((ip, "exp"), {})]
    m["add_individual_parameter"] = [(("NEWIP",), {})]
    if "FA1" in cols:
        m["add_iov"] = [(("FA1",), {})]
    m["add_population_parameter"] = [(("POP_NEWP", 1.5), {})]
    m["add_predictions"] = [((["IPRED"],), {})]
    m["add_residuals"] = [((["CWRES"],), {})]
    m["append_estimation_step_options"] = [(({"EXTRA": 1}, 0), {})]
    m["calculate_parameters_from_ucp"] = None  # filled below
    m["convert_model"] = [(("generic",), {}), (("nlmixr",), {})]
    m["create_symbol"] = [(("X",), {})]
    m["drop_columns"] = [(([ncol],), {}), (([ncol],), {"mark": True})]
    m["undrop_columns"] = [(([ncol],), {})]
    m["evaluate_expression"] = [((ip,), {})]
    m["filter_dataset"] = [((f"{cols[0]} != 1",), {})]
    m["fix_parameters"] = [(([th],), {})]
    m["unfix_parameters"] = [(([th],), {})]
    m["fix_or_unfix_parameters"] = [(({th: True},), {})]
    m["fix_parameters_to"] = [(({th: inits[th]},), {})]
    m["unfix_parameters_to"] = [(({th: inits[th]},), {})]
    m["unconstrain_parameters"] = [(([th],), {})]
    m["get_parameter_rv"] = [((ip,), {})]
    if eta:
        m["get_rv_parameters"] = [((eta,), {})]
    if len(etas) >= 2:
        # two random effects at once (with a joint block of four this leaves two behind)
        m["split_joint_distribution"] = [((list(etas[:2]),), {})]
        m["remove_iiv"] = [((list(etas[:2]),), {})]
        m["create_joint_distribution"] = [((list(etas[:2]),), {})]
    m["get_unit_of"] = [((cols[0],), {})]
    m["has_random_effect"] = [((ip,), {})]
    m["rename_symbols"] = [(({ip: ip + "_RN"},), {})]
    m["remove_estimation_step"] = [((0,), {})]
    m["sample_parameters_uniformly"] = [((model.parameters.inits,), {"n": 2, "seed": 1})]
    m["set_description"] = [(("new description",), {})]
    m["set_name"] = [(("newname",), {})]
    m["set_estimation_step"] = [(("FO",), {})]
    m["set_initial_estimates"] = [(({th: inits[th] * 1.1},), {})]
    m["set_lower_bounds"] = [(({th: -1000.0},), {})]
    m["set_upper_bounds"] = [(({th: 100000.0},), {})]
    m["set_ode_solver"] = [(("LSODA",), {})]
    m["set_peripheral_compartments"] = [((1,), {}), ((0,), {})]
    m["set_transit_compartments"] = [((2,), {}), ((0,), {})]
    m["set_time_varying_error_model"] = [((1.0,), {})]
    m["set_lloq_data"] = [((0.1,), {})]
    m["set_reference_values"] = [(({cols[1]: 1.0},), {})]
    m["simplify_expression"] = [((ip,), {})]
    m["is_real"] = [((ip,), {})]
    m["set_zero_order_input"] = [(("CENTRAL", 10),) and (("CENTRAL", 10), {})]
    m["set_initial_condition"] = [(("CENTRAL", 10), {})]
    m["add_effect_compartment"] = [(("linear",), {})]
    m["set_direct_effect"] = [(("linear",), {})]
    m["add_indirect_effect"] = [(("linear",), {})]
    m["set_tmdd"] = [(("qss",), {})]
    m["bin_observations"] = [(("equal_width", 2), {})]
    m["set_covariates"] = [((covs,), {})] if covs else []
    m["set_dvid"] = [((cols[0],), {})]
    m["add_parameter_uncertainty_step"] = [(("SANDWICH",), {})]
    try:
        scale = pm.calculate_ucp_scale(model)
        m["calculate_parameters_from_ucp"] = [((scale, {p: 0.1 for p in model.parameters.nonfixed.names}), {})]
    except Exception:
        m["calculate_parameters_from_ucp"] = []
    return {k: v for k, v in m.items() if v}


def call_table(model):
    """list of (label, callable)"""
    import pharmpy.modeling as pm

    menus = arg_menus(model)
    calls = []
    for name in pm.__all__:
        if name in EXCLUDE:
            continue
        f = getattr(pm, name)
        if not callable(f) or inspect.isclass(f):
            continue
        try:
            ps = list(inspect.signature(f).parameters.values())
        except (TypeError, ValueError):
            continue
        if not ps or ps[0].name != "model":
            continue
        req = [p for p in ps[1:] if p.default is inspect._empty and p.kind in (p.POSITIONAL_OR_KEYWORD, p.KEYWORD_ONLY)]
        if not req:
            calls.append((name + "()", lambda m, f=f: f(m)))
            if name in menus:
                for a, kw in menus[name]:
                    calls.append((f"{name}{a!r}", lambda m, f=f, a=a, kw=kw: f(m, *a, **kw)))
        elif name in menus:
            for a, kw in menus[name]:
                calls.append((f"{name}{a!r}{kw or ''}", lambda m, f=f, a=a, kw=kw: f(m, *a, **kw)))
    # tools / workflows helpers
    from pharmpy.workflows import ModelEntry
    from pharmpy.workflows.hashing import ModelHash

    import shutil
    import tempfile

    def write_to_scratch(m):
        import pharmpy.modeling as pm2

        d = tempfile.mkdtemp(prefix="verif-c06-")
        try:
            return pm2.write_model(m, d + "/written.mod", force=True)
        finally:
            shutil.rmtree(d, ignore_errors=True)

    calls = [c for c in calls if not c[0].startswith("write_model")]
    calls.append(("write_model(scratch)", write_to_scratch))
    from vlib import mgraph as _mg

    def iie_call(m):
        import pharmpy.modeling as pm2

        df = _mg.individual_estimates_table(m, offset=0.01)
        df["ETA_NOT_IN_MODEL"] = 0.5
        before = df.copy()
        try:
            return pm2.update_initial_individual_estimates(m, df)
        finally:
            if not df.equals(before) or list(df.columns) != list(before.columns):
                raise ArgumentMutated("update_initial_individual_estimates changes the DataFrame passed as individual_estimates")

    calls.append(("update_initial_individual_estimates(table with an extra column)", iie_call))
    calls.append(("ModelHash()", lambda m: str(ModelHash(m))))
    calls.append(("ModelEntry.create()", lambda m: ModelEntry.create(model=m)))
    calls.append(("copy.deepcopy()", lambda m: copy.deepcopy(m)))
    calls.append(("update_source()", lambda m: m.update_source()))
    calls.append(("code", lambda m: m.code))
    try:
        from pharmpy.tools.mfl.parse import get_model_features

        calls.append(("get_model_features()", lambda m: get_model_features(m)))
    except Exception:
        pass
    return calls


USE_RESULT = {"remove_iiv", "add_iiv", "create_joint_distribution", "split_joint_distribution", "add_iov", "remove_iov", "set_zero_order_absorption",
              "set_first_order_absorption", "add_peripheral_compartment", "add_metabolite", "add_time_after_dose", "add_cmt", "add_admid"}


def write_to_scratch_model(m):
    import shutil
    import tempfile

    import pharmpy.modeling as pm2

    d = tempfile.mkdtemp(prefix="verif-c06-")
    try:
        pm2.write_model(m, d + "/written.mod", force=True)
    finally:
        shutil.rmtree(d, ignore_errors=True)


# ------------------------------------------------------------------------------- well-formedness
def wellformed(model):
    from pharmpy.model import Model

    out = []
    names = model.parameters.names
    if len(names) != len(set(names)):
        out.append("duplicate parameter names")
    for p in model.parameters:
        if (p.lower is not None and p.init < p.lower) or (p.upper is not None and p.init > p.upper):
            out.append(f"initial value of {p.name} ({p.init}) outside its bounds ({p.lower}, {p.upper})")
    rvn = model.random_variables.names
    if len(rvn) != len(set(rvn)):
        out.append("duplicate random variable names")
    known = set(names) | set(rvn) | set(model.datainfo.names) | {"t"}
    defined = set()
    for s in model.statements:
        if hasattr(s, "symbol"):
            for sym in s.rhs_symbols:
                nm = str(sym)
                base = nm.split("(")[0]
                if nm not in known and nm not in defined and base not in defined and not nm.startswith("A_"):
                    out.append(f"statement {s.symbol} uses {nm}, which is not a parameter, random variable, data column or defined earlier")
            defined.add(str(s.symbol))
        else:
            for c in s.compartment_names:
                defined.add("A_" + c)
    try:
        code = model.code
    except Exception as e:
        out.append(f"code cannot be produced: {type(e).__name__}: {str(e)[:100]}")
        return out
    try:
        u = model.update_source()
        if u.update_source().code != u.code:
            out.append("update_source() is not idempotent (code changes when applied twice)")
    except Exception as e:
        out.append(f"update_source() raises {type(e).__name__}: {str(e)[:100]}")
    return out[:3]


# ------------------------------------------------------------------------------- state check
def check_state(hist, model, tier):
    import warnings

    from pharmpy.model import Model
    from vlib import mgraph

    fails = []
    counters = {"calls": 0, "calls_raised": 0, "models_returned": 0, "calls_timeout": 0}
    # work on a private clone (own DataFrame) so that a detected mutation cannot leak into the exploration cache; a second
    # model sharing the clone's DataFrame plays the role of the ancestor
    if model.dataset is not None:
        model = model.replace(dataset=model.dataset.copy())
    start_model = model.replace(name=model.name) if True else model
    snap_start = snapshot(start_model)
    snap = snapshot(model)
    # value laws on this state
    try:
        c1, c2 = copy.copy(model), copy.deepcopy(model)
        if not (model == model):
            fails.append("equality: model != itself")
        if c1 != model or c2 != model:
            fails.append("equality: copy()/deepcopy() of the model is not equal to it")
        else:
            try:
                if hash(c2) != hash(model):
                    fails.append("equality: deepcopy(model) == model but their hashes differ")
            except TypeError as e:
                fails.append(f"equality: hash(model) raises TypeError: {str(e)[:80]}")
    except Exception as e:
        fails.append(f"equality: copy/compare raises {type(e).__name__}: {str(e)[:100]}")
    def twin():
        """an equal model with freshly built (never hashed) mappings and tuples"""
        return model.replace(dependent_variables=dict(model.dependent_variables),
                             observation_transformation=dict(model.observation_transformation),
                             dataset=model.dataset.copy() if model.dataset is not None else None)

    try:
        if twin() != model:
            twin = None
    except Exception:
        twin = None
    for label, fn in call_table(model):
        counters["calls"] += 1
        res = None
        try:
            with warnings.catch_warnings():
                warnings.simplefilter("ignore")
                with mgraph.time_limit(20):
                    res = fn(model)
        except mgraph.CallTimeout:
            counters["calls_timeout"] += 1
        except ArgumentMutated as e:
            fails.append(f"{label.split('(')[0]}: {e} [call {label[:80]}]")
        except BaseException as e:
            if isinstance(e, (KeyboardInterrupt, SystemExit)):
                raise
            counters["calls_raised"] += 1
        # use the result the way a caller would (generate its code, write it) before looking at the argument again: a
        # result that shares state with its argument may only change it when it is used
        wf = None
        if isinstance(res, Model) and res is not model:
            try:
                with warnings.catch_warnings():
                    warnings.simplefilter("ignore")
                    with mgraph.time_limit(30):
                        wf = wellformed(res)
                        if hasattr(res, "internals") and res.dataset is not None and label.split("(")[0] in USE_RESULT:
                            write_to_scratch_model(res)
            except BaseException:
                pass
        after = snapshot(model)
        d = diff_snap(snap, after)
        if d:
            fails.append(f"{label.split('(')[0]}: changes its argument ({', '.join(d)}) [call {label[:80]}]")
            snap = after  # report each mutation once
        after_start = snapshot(start_model)
        d = diff_snap(snap_start, after_start)
        if d and not diff_snap(snap, after):
            fails.append(f"{label.split('(')[0]}: changes a model sharing data with its argument ({', '.join(d)}) [call {label[:80]}]")
            snap_start = after_start
        if isinstance(res, Model) and res is not model:
            counters["models_returned"] += 1
            counters["distinct_nontrivial"] = counters.get("distinct_nontrivial", 0) + 1
            try:
                if (res == model) != (model == res):
                    fails.append(f"{label.split('(')[0]}: equality: not symmetric between the argument and the returned model "
                                 f"(result == argument: {res == model}, argument == result: {model == res}) [call {label[:80]}]")
                if (res == model or model == res) and hash(res) != hash(model):
                    fails.append(f"{label.split('(')[0]}: equality: returns a model that is == its argument but has a different hash [call {label[:80]}]")
            except Exception as e:
                fails.append(f"{label.split('(')[0]}: equality: comparing/hashing the returned model raises {type(e).__name__}: {str(e)[:80]}")
            for w in (wf if wf is not None else []):
                fails.append(f"{label.split('(')[0]}: returns a model that is not well formed: {w} [call {label[:80]}]")
            # the same call on an equal model whose components were never hashed (the argument above has been hashed, so
            # any hash its components cache is in place): equal results must hash equally
            if twin is not None:
                try:
                    with warnings.catch_warnings():
                        warnings.simplefilter("ignore")
                        with mgraph.time_limit(20):
                            res2 = fn(twin())
                    if isinstance(res2, Model) and res2 == res:
                        counters["twin_results_compared"] = counters.get("twin_results_compared", 0) + 1
                        if hash(res2) != hash(res):
                            fails.append(f"{label.split('(')[0]}: equality: the results for two equal arguments (one hashed before the call, one "
                                         f"never hashed) are == but hash differently [call {label[:80]}]")
                except BaseException as e:
                    if isinstance(e, (KeyboardInterrupt, SystemExit)):
                        raise
    return fails, counters


def replay(w):
    from vlib import mgraph

    start, labels = w["history"]
    model = mgraph.build((start, tuple(labels)))
    if model is None:
        return ["replay: history can no longer be built"]
    fails = check_state((start, tuple(labels)), model, "quick")[0]
    key = w["what"].split("] ", 1)[-1].split(":")[0]
    return [f for f in fails if f.startswith(key)]


def classify(w):
    from checks import c06_patterns

    return c06_patterns.classify(w)
