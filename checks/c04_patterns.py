"""Narrow classifiers for the known findings of C04 (layout shape x edit kind x failure class)."""
import re


def classify(w):
    th, om, sg = w["layout"]
    edit = w["edit"].split(" ; ")[-1]  # the findings are about the last edit of a sequence
    kind = edit.split("(")[0]
    what = w["what"].split("] ", 1)[-1]
    ttxt = " ".join(th).upper()
    otxt = " ".join(om + sg).upper()
    value_edit = kind in ("init", "lower", "upper", "fix", "unfix")
    structure_edit = kind in ("remove_iiv", "join", "split", "add_iiv", "err_additive", "err_combined")
    if value_edit and re.search(r"\)\s*X\s*\d", ttxt) and edit.split("(")[1].startswith("THETA"):
        return "theta_repeat_xn_record_edit"
    if kind in ("lower", "upper") and re.search(r"\(\s*[-+.\dE]+\s+FIX(ED)?\s*\)", ttxt) and "cannot be read back" in what:
        return "theta_fix_inside_parentheses_then_bound_edit_unreadable"
    if kind == "unfix" and re.search(r"\(\s*([-+.\dE]+)\s*,\s*\1\s*,\s*\1\s*\)", ttxt) and "fix False in the model, True after" in what:
        return "theta_equal_bounds_stay_fixed_after_unfix"
    if what.startswith("4 numeric tokens") or (" numeric tokens of the parameter records were respelled" in what and "1000000" in ttxt):
        if "1000000" in ttxt:
            return "theta_million_bounds_dropped_when_record_is_rewritten"
    if kind in ("join", "remove_iiv", "split") and what.startswith("VALUE") and any(re.search(r"\)\s*X\s*\d", r.upper()) and "BLOCK" not in r.upper() for r in om):
        return "omega_repeat_xn_in_diagonal_record_structure_edit_loses_values"
    if kind in ("join", "remove_iiv", "split") and "fails with an internal error: IndexError" in what and \
            any(re.search(r"\)\s*X\s*\d", r.upper()) for r in om):
        return "omega_repeat_xn_record_structure_edit_internal_error"
    if structure_edit and ("parameter names differ" in what or what.startswith("eta names")):
        return "default_omega_names_change_after_structure_edit"
    if kind == "join" and "fix True in the model, False after re-reading" in what:
        return "partially_fixed_joint_block_written_unfixed"
    multi = any(len(re.findall(r"[-+]?(?:\d+\.?\d*|\.\d+)", re.sub(r"(BLOCK|DIAGONAL|SAME)\s*\(\d+\)", "", r.split(";")[0]))) >= 2
                and "BLOCK" not in r.upper() for r in om)
    if kind in ("join", "remove_iiv", "split") and "cannot be read back" in what and multi:
        return "multi_value_diagonal_omega_record_structure_edit_unreadable"
    return None
