"""C12 - serialisation round-trips and model hashes identify models across processes.

States = start models and successors under the full transformation alphabet (vlib.mgraph).  On every state:
to_dict/from_dict and JSON round trips of the model and each component; generic code parse-back; the database key
(ModelHash) is computed in this process and in fresh interpreter processes for every PYTHONHASHSEED of a fixed
list, must not depend on name/description/data path, and all pairs of states with different content must have
different keys.  Compartmental systems, parameters and random variables built in every permutation of their
builder calls must serialise and hash identically.
"""
from __future__ import annotations

import itertools
import json
import os
import subprocess
import sys

PROPERTY = "C12"
LEVEL = "model_checking"
ENGINE = "seqx"
PREIMPORT = ("pharmpy.modeling", "pharmpy.tools", "pharmpy.workflows")
TECHNIQUE = ("exhaustive enumeration of reachable models x interpreter configurations (hash seeds, fresh processes) x construction "
             "orders; all-pairs key comparison")
LEVEL_TEXT = ("The key of every reached model is computed under every configuration of the finite configuration set and compared; every "
              "pair of reached models is compared for collisions; every permutation of builder calls of the small component "
              "generators is built.  Exhaustive over these finite sets, which is what the configuration quantifier asks for.")
LEVEL_NOTE = "trusted: vlib/mgraph.py canonical key (generated code + dataset hash) as the notion of 'content'"
RULE = ("states = models reachable within the depth; configurations = PYTHONHASHSEED in {0,1,2,3,'random'} in fresh processes; "
        "construction orders = all permutations of <= 4 builder calls; non-trivial = a state whose key was compared in >= 2 processes")
ASSUMPTIONS = ["two states have different content iff their generated code or dataset differ",
               "equality after a dictionary round trip is ==; JSON compatibility is json.loads(json.dumps(d)) == d"]
BOUNDS = {"quick": "start models + depth 1 (full alphabet)", "thorough": "depth 2 (structural) + depth 1 (other)"}

START = ["pheno", "pheno_oral", "pheno_linear"]
SEEDS = ["0", "1", "2", "3", "random"]


def histories(tier):
    from vlib import mgraph

    hs = [(s, ()) for s in START]
    for s in START[:2]:
        for lab in mgraph.ops("all"):
            hs.append((s, (lab,)))
        for lab in mgraph.ops("serial"):  # attributes the other alphabets never set (observation transformation)
            hs.append((s, (lab,)))
    if tier == "thorough":
        for s in START[:2]:
            for a in mgraph.ops("structural"):
                for b in mgraph.ops("structural"):
                    hs.append((s, (a, b)))
    return hs


def shards(tier):
    hs = histories(tier)
    n = 24 if tier == "quick" else 64
    k = (len(hs) + n - 1) // n
    out = [("states", hs[i:i + k]) for i in range(0, len(hs), k)]
    out.append(("orders", None))
    out.append(("numtypes", None))
    return out


def drive(tier):
    from vlib import core

    results = core.pmap(__name__, shards(tier), tier)
    if any("harness_error" in r for r in results):
        return results
    # collect keys
    keys = {}
    for r in results:
        for h, (canon, key) in r.pop("keys", {}).items():
            keys[h] = (canon, key)
    extra = {"states": 0, "transitions": 0, "evaluations": 0, "violations": [], "samples": [], "outcomes": {},
             "traces_validated_against_impl": 0, "configurations": len(SEEDS), "pairs_compared": 0}
    # (2) configurations: fresh processes, one per hash seed, all states each
    hs = [h for h in keys]
    procs = []
    for seed in SEEDS:
        env = dict(os.environ)
        env["PYTHONHASHSEED"] = seed
        env["_VERIF_C12_CHILD"] = "1"
        p = subprocess.Popen([sys.executable, "-W", "ignore", "-c", CHILD, json.dumps(hs)], env=env, stdout=subprocess.PIPE,
                             stderr=subprocess.PIPE, text=True, cwd=core.ROOT)
        procs.append((seed, p))
    for seed, p in procs:
        out, err = p.communicate(timeout=1800)
        line = [ln for ln in out.splitlines() if ln.startswith("KEYS ")]
        if p.returncode != 0 or not line:
            results.append({"harness_error": f"hash-seed child {seed} failed: {err[-800:]}", "shard": "configurations"})
            return results
        got = json.loads(line[0][5:])
        for h in hs:
            extra["evaluations"] += 1
            extra["traces_validated_against_impl"] += 1
            if got.get(h) != keys[h][1]:
                extra["violations"].append({"kind": "config", "history": json.loads(h), "seed": seed,
                                            "what": f"[{h}] database key differs between processes: {keys[h][1]} here, {got.get(h)} with PYTHONHASHSEED={seed}",
                                            "class": "key-not-stable-across-processes"})
    # (3) all pairs: different content <=> different key
    by_key = {}
    for h, (canon, key) in keys.items():
        by_key.setdefault(key, set()).add(canon)
        extra["pairs_compared"] += len(keys) - 1
    for key, canons in by_key.items():
        if len(canons) > 1:
            grp = [h for h in keys if keys[h][1] == key]
            hh = [grp[0]] + [h for h in grp if keys[h][0] != keys[grp[0]][0]][:1]  # two members whose content differs
            extra["violations"].append({"kind": "collision", "histories": hh, "what": f"models with different content share the key {key}: {hh}",
                                        "class": "key-collision"})
    by_canon = {}
    for h, (canon, key) in keys.items():
        by_canon.setdefault(canon, set()).add(key)
    for canon, ks in by_canon.items():
        if len(ks) > 1:
            hh = []
            for kk in sorted(ks):
                hh.append([h for h in keys if keys[h] == (canon, kk)][0])
            extra["violations"].append({"kind": "split", "histories": hh, "what": f"models with the same parameters, random variables, statements, execution steps and data have different keys: {hh}",
                                        "class": "same-content-different-key"})
    results.append(extra)
    return results


CHILD = r'''
import json, sys, warnings
warnings.filterwarnings("ignore")
sys.path.insert(0, ".")
import os
repo = os.environ.get("VERIF_REPO", "/repo")
if repo != "/repo":
    sys.path.insert(0, os.path.join(repo, "src"))
from vlib import mgraph
from pharmpy.workflows.hashing import ModelHash
out = {}
for h in json.loads(sys.argv[1]):
    start, labels = json.loads(h)
    m = mgraph.build((start, tuple(labels)))
    out[h] = None if m is None else str(ModelHash(m))
print("KEYS " + json.dumps(out))
'''


def run_shard(shard, tier):
    res = {"states": 0, "transitions": 0, "evaluations": 0, "distinct_nontrivial": 0, "violations": [], "samples": [],
           "outcomes": {}, "traces_validated_against_impl": 0, "keys": {}}
    if shard[0] == "orders":
        return check_orders(res)
    if shard[0] == "numtypes":
        return check_numtypes(res)
    from vlib import mgraph

    for hist in shard[1]:
        m = mgraph.build(hist)
        if m is None:
            continue
        res["states"] += 1
        res["transitions"] += len(hist[1])
        fails, key = check_model(m)
        hk = json.dumps([hist[0], list(hist[1])])
        if key is not None:
            res["keys"][hk] = (content_key(m), key)
            res["distinct_nontrivial"] += 1
        res["evaluations"] += 1
        for f in fails[:20]:
            res["violations"].append({"kind": "state", "history": [hist[0], list(hist[1])], "what": f"[{hist[0]}{''.join(' -> ' + x for x in hist[1])}] {f}",
                                      "class": f.split(":")[0][:60]})
    if shard[1]:
        res["samples"].append(f"{shard[1][0][0]} -> {' -> '.join(shard[1][0][1]) or '(start)'}")
    return res


def check_numtypes(res):
    """equal objects serialise equally whatever numeric type their numbers arrived in (int, float, numpy scalars): the key is a
    hash of the JSON text, so 10 and 10.0 must not both occur"""
    import itertools

    import numpy as np
    from pharmpy.model import Parameter, Parameters
    from pharmpy.workflows.hashing import ModelHash

    from vlib import mgraph

    conv = {"float": float, "int": int, "np.int64": np.int64, "np.float64": np.float64, "np.int32": np.int32}
    base = mgraph.start_models()["pheno"]
    vals = {"init": 2, "lower": 0, "upper": 10}
    ref = Parameter.create("P", float(vals["init"]), lower=float(vals["lower"]), upper=float(vals["upper"]))
    ref_json = json.dumps(ref.to_dict(), sort_keys=True)
    ref_key = str(ModelHash(base.replace(parameters=Parameters.create(list(base.parameters) + [ref]))))
    for field, (tname, t) in itertools.product(("init", "lower", "upper", "all"), conv.items()):
        kw = {k: (t(v) if field in (k, "all") else float(v)) for k, v in vals.items()}
        res["states"] += 1
        res["evaluations"] += 1
        res["transitions"] += 1
        text = f"Parameter.create('P', {field} given as {tname})"
        try:
            p = Parameter.create("P", kw["init"], lower=kw["lower"], upper=kw["upper"])
        except Exception as e:
            res["outcomes"]["numtypes:refused"] = res["outcomes"].get("numtypes:refused", 0) + 1
            continue
        fails = []
        if p != ref:
            fails.append("not equal to the parameter created from floats")
        else:
            res["distinct_nontrivial"] += 1
            try:
                js = json.dumps(p.to_dict(), sort_keys=True)
                if js != ref_json:
                    fails.append(f"equal parameters serialise differently: {js} vs {ref_json}")
            except (TypeError, ValueError) as e:
                fails.append(f"to_dict() cannot be dumped to JSON: {str(e)[:80]}")
            try:
                key = str(ModelHash(base.replace(parameters=Parameters.create(list(base.parameters) + [p]))))
                if key != ref_key:
                    fails.append("two equal models (the parameter bound given as another numeric type) get different database keys")
            except Exception as e:
                fails.append(f"ModelHash raises {type(e).__name__}: {str(e)[:80]}")
        for f in fails:
            res["violations"].append({"kind": "numtypes", "field": field, "type": tname, "what": f"[{text}] {f}", "class": "numtypes:" + f[:40]})
    res["samples"].append("Parameter.create with init/lower/upper given as int, float, numpy scalars")
    return res


def _seq_norm(x):
    """JSON has one sequence type: tuples and lists are the same thing after a JSON round trip"""
    if isinstance(x, (list, tuple)):
        return [_seq_norm(y) for y in x]
    if isinstance(x, dict):
        return {k: _seq_norm(v) for k, v in x.items()}
    return x


def content_key(m):
    """what the property calls the model's mathematical content and dataset"""
    import hashlib

    from vlib import mgraph

    parts = [m.parameters.to_dict(), m.random_variables.to_dict(), m.statements.to_dict(), m.execution_steps.to_dict(),
             {str(k): v for k, v in m.dependent_variables.items()}, [c.to_dict() for c in m.datainfo], mgraph.dataset_digest(m),
             None if m.initial_individual_estimates is None else m.initial_individual_estimates.to_dict(),
             {str(k): str(v) for k, v in m.observation_transformation.items()}]
    return hashlib.sha1(json.dumps(parts, sort_keys=True, default=str).encode()).hexdigest()


def roundtrip(obj, cls, what, fails):
    try:
        d = obj.to_dict()
    except Exception as e:
        fails.append(f"{what}: to_dict raises {type(e).__name__}: {str(e)[:80]}")
        return
    try:
        js = json.dumps(d)
        if json.loads(js) != _seq_norm(d):
            fails.append(f"{what}: to_dict() is not JSON compatible (json round trip changes it)")
    except (TypeError, ValueError) as e:
        fails.append(f"{what}: to_dict() cannot be dumped to JSON: {str(e)[:80]}")
        return
    try:
        back = cls.from_dict(d)
    except Exception as e:
        fails.append(f"{what}: from_dict raises {type(e).__name__}: {str(e)[:80]}")
        return
    if back != obj:
        fails.append(f"{what}: from_dict(to_dict(x)) != x")
        return
    try:
        back2 = cls.from_dict(json.loads(js))
        if back2 != obj:
            fails.append(f"{what} via JSON: from_dict(json.loads(json.dumps(to_dict(x)))) != x")
    except Exception as e:
        fails.append(f"{what} via JSON: from_dict raises {type(e).__name__}: {str(e)[:80]}")


def check_model(m):
    import warnings

    import pharmpy.modeling as pm
    from pharmpy.model import DataInfo, ExecutionSteps, Model, Parameters, RandomVariables, Statements
    from pharmpy.workflows.hashing import ModelHash

    fails = []
    roundtrip(m.parameters, Parameters, "parameters", fails)
    roundtrip(m.random_variables, RandomVariables, "random_variables", fails)
    roundtrip(m.statements, Statements, "statements", fails)
    roundtrip(m.datainfo, DataInfo, "datainfo", fails)
    roundtrip(m.execution_steps, ExecutionSteps, "execution_steps", fails)
    with warnings.catch_warnings():
        warnings.simplefilter("ignore")
        try:
            g = pm.convert_model(m, "generic")
            roundtrip(g, Model, "generic model", fails)
            code = g.code
            back = pm.read_model_from_string(code)
            if back != g:
                diffs = [a for a in ("parameters", "random_variables", "statements", "dependent_variables", "execution_steps", "datainfo")
                         if getattr(back, a) != getattr(g, a)]
                fails.append(f"generic code: read_model_from_string(generic.code) != generic model (differs in {diffs})")
        except Exception as e:
            fails.append(f"generic code: {type(e).__name__}: {str(e)[:100]}")
        try:
            key = str(ModelHash(m))
        except Exception as e:
            fails.append(f"key: ModelHash raises {type(e).__name__}: {str(e)[:100]}")
            return fails, None
        for label, m2 in (("name", m.replace(name="other_name")), ("description", m.replace(description="another description")),
                          ("data path", m.replace(datainfo=m.datainfo.replace(path="/some/where/else.csv")))):
            try:
                if str(ModelHash(m2)) != key:
                    fails.append(f"key: depends on the {label}")
            except Exception as e:
                fails.append(f"key: ModelHash raises after changing the {label}: {type(e).__name__}: {str(e)[:80]}")
        # content changes must change the key
        p0 = m.parameters.names[0]
        variants = [("initial estimate", pm.set_initial_estimates(m, {p0: m.parameters[p0].init * 1.01}))]
        try:
            df = m.dataset.copy()
            col = [c for c in df.columns if c not in (m.datainfo.id_column.name,)][-1]
            df.loc[df.index[-1], col] = df.loc[df.index[-1], col] + 1.0
            variants.append(("one data value", m.replace(dataset=df)))
        except Exception:
            pass
        try:
            variants.append(("estimation method", pm.set_estimation_step(m, "FO" if m.execution_steps[0].method != "FO" else "FOCE")))
        except Exception:
            pass
        for label, m2 in variants:
            if str(ModelHash(m2)) == key:
                fails.append(f"key: unchanged after changing {label}")
    return fails, key


def check_orders(res):
    """same content built in every order of the builder calls"""
    from pharmpy.basic import Expr
    from pharmpy.model import (
        Bolus, Compartment, CompartmentalSystem, CompartmentalSystemBuilder, NormalDistribution, Parameter, Parameters,
        RandomVariables, output,
    )

    def build(order):
        cb = CompartmentalSystemBuilder()
        comps = {"DEPOT": Compartment.create("DEPOT", doses=(Bolus.create("AMT"),)), "CENTRAL": Compartment.create("CENTRAL"),
                 "PERI": Compartment.create("PERI")}
        for c in order[0]:
            cb.add_compartment(comps[c])
        flows = {"a": ("DEPOT", "CENTRAL", "KA"), "b": ("CENTRAL", "PERI", "K12"), "c": ("PERI", "CENTRAL", "K21"), "d": ("CENTRAL", None, "K")}
        for f in order[1]:
            s, d, r = flows[f]
            cb.add_flow(comps[s], comps[d] if d else output, Expr.symbol(r))
        return CompartmentalSystem(cb)

    ref = None
    n = 0
    for co in itertools.permutations(["DEPOT", "CENTRAL", "PERI"]):
        for fo in itertools.permutations("abcd"):
            cs = build((co, fo))
            n += 1
            res["states"] += 1
            res["evaluations"] += 1
            if ref is None:
                ref = cs
                refd = json.dumps(cs.to_dict(), sort_keys=True)
                continue
            if cs != ref:
                continue  # different compartment insertion order may legitimately give a different (but equivalent) object
            if hash(cs) != hash(ref):
                res["violations"].append({"kind": "order", "order": [list(co), list(fo)],
                                          "what": f"[compartments {co} flows {fo}] equal compartmental systems have different hashes",
                                          "class": "order:equal-but-different-hash"})
            if json.dumps(cs.to_dict(), sort_keys=True) != refd:
                res["violations"].append({"kind": "order", "order": [list(co), list(fo)],
                                          "what": f"[compartments {co} flows {fo}] equal compartmental systems serialise differently (construction order leaks into to_dict)",
                                          "class": "order:equal-but-different-dict"})
    # compartments with several doses in every order of the dose tuple
    from pharmpy.model import Infusion

    dose_menu = [Bolus.create("AMT", admid=1), Infusion.create("AMT", admid=2, rate="R1"), Bolus.create("AMT", admid=3)]
    for k in (2, 3):
        for doses in itertools.permutations(dose_menu, k):
            cb = CompartmentalSystemBuilder()
            cen = Compartment.create("CENTRAL", doses=tuple(doses), lag_time="ALAG1")
            cb.add_compartment(cen)
            cb.add_flow(cen, output, Expr.symbol("K"))
            cs = CompartmentalSystem(cb)
            res["states"] += 1
            res["evaluations"] += 1
            n += 1
            label = "doses (" + ", ".join(type(d).__name__ + str(d.admid) for d in doses) + ")"
            for what, obj, cls in (("Compartment", cen, Compartment), ("CompartmentalSystem", cs, CompartmentalSystem)):
                d = obj.to_dict()
                for via, dd in (("", d), (" via JSON", json.loads(json.dumps(d)))):
                    try:
                        back = cls.from_dict(dd)
                        ok = back == obj
                    except Exception as e:
                        ok = False
                    if not ok:
                        res["violations"].append({"kind": "order", "order": [label, what + via],
                                                  "what": f"[{label}] {what}{via}: from_dict(to_dict(x)) != x",
                                                  "class": "order:multi-dose-roundtrip" + via})
    res["construction_orders"] = n
    res["samples"].append("compartmental system DEPOT/CENTRAL/PERI built in all 144 orders")
    return res


def replay(w):
    from vlib import mgraph

    if w["kind"] == "state":
        m = mgraph.build((w["history"][0], tuple(w["history"][1])))
        if m is None:
            return ["replay: history can no longer be built"]
        key = w["what"].split("] ", 1)[-1].split(":")[0]
        return [f for f in check_model(m)[0] if f.startswith(key)]
    if w["kind"] == "numtypes":
        res = {"states": 0, "evaluations": 0, "transitions": 0, "distinct_nontrivial": 0, "violations": [], "samples": [], "outcomes": {}}
        check_numtypes(res)
        return [v["what"] for v in res["violations"] if v["field"] == w["field"] and v["type"] == w["type"]]
    if w["kind"] == "order":
        res = {"states": 0, "evaluations": 0, "violations": [], "samples": []}
        check_orders(res)
        return [v["what"] for v in res["violations"] if v["order"] == w["order"]]
    return [w["what"] + " (re-run the check to re-evaluate configurations)"]


def classify(w):
    from checks import c12_patterns

    return c12_patterns.classify(w)
