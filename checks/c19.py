"""C19 - ranking, selection criteria and result statistics follow their definitions.

Bounded-exhaustive enumeration of (a) candidate sets x objective values x status x rank type x
cut-off x penalties x parent map, (b) strictness expressions x result profiles, (c) criteria /
LRT scalars on every corpus model, (d) replicate tables / eta tables for the tool statistics;
every case is compared with the reference model in vlib/c19_ref.py.
"""
from __future__ import annotations

import itertools
import math
import os
import warnings

from vlib import c19_ref as R

PROPERTY = "C19"
LEVEL = "model_checking"
ENGINE = "enumx"
TECHNIQUE = ("bounded exhaustive enumeration of ranking configurations, strictness expressions and small "
             "replicate tables, each compared with a reference computation written from the documented definitions")
LEVEL_TEXT = (
    "Every configuration of the stated finite space (candidate sets over a corpus of pheno-derived models, "
    "objective values incl. NaN and exact cut-off boundaries, status, rank types, cut-offs, penalties, parent maps, "
    "strictness expressions of <= 2 atoms, replicate tables over a 4-letter alphabet) is generated without sampling "
    "and the returned table / scalar is compared with a direct re-implementation of the documented formulas; the "
    "known failure modes (inverted comparison, off-by-one parameter count, tie handling, NaN handling) have "
    "witnesses inside the bound."
)
LEVEL_NOTE = (
    "trusted: vlib/c19_ref.py (hand-annotated parameter structure of the corpus models, strictness parser, "
    "ranking reference, numpy statistics) and scipy.special incomplete gamma; nothing is claimed for models outside "
    "the corpus, more candidates than the bound, or expressions with more than 2 atoms"
)
PREIMPORT = ("pharmpy.modeling", "pharmpy.tools", "pharmpy.tools.common", "pharmpy.tools.bootstrap.results",
             "pharmpy.tools.cdd.results", "pharmpy.tools.simeval.results")
RULE = (
    "rank: all vectors of per-model options (ofv in {-10,0,3.84,3.85,10,NaN} successful, or ofv 0 with failed "
    "minimisation) over base+<=k candidates drawn from 12 corpus models (pheno +/- IIV, peripheral compartment, "
    "fixed parameters, combined error, joint distribution; parameter count differences -2..+3) x rank type "
    "{ofv,aic,bic-random,bic-iiv,lrt} x cut-off x penalties x parent map {base,chain}; bic-mixed/fixed on a reduced "
    "vector menu; strictness: every expression with <= 2 atoms from the documented criteria with and/or/not and "
    "numeric comparisons x every result profile of the fields the expression reads; statistics: every multiset of "
    "rows over {-1,0,1,2.5}^2 up to the row bound.  A case is non-trivial when the implementation accepted the input "
    "and >= 1 value/eligibility decision was compared (rank: additionally >= 2 models ranked or >= 1 excluded)."
)
ASSUMPTIONS = [
    "parameter kind/bounds/grouping of the 12 corpus models are annotated by hand and cross-checked against the "
    "real model objects before every run (names, fixed flags, bounds)",
    "cut-off: the documentation says candidates with delta < cutoff are not ranked; delta == cutoff counts as ranked",
    "LRT: where the difference in total and in estimated parameter count disagree, or it is 0, or the parent has no "
    "OFV, or the reference (base) model is not eligible for a cut-off, the text does not decide: counted, not failed",
    "LRT default p-values with cutoff=None are 0.05 (forward) / 0.01 (backward); tuple cutoff = (forward, backward)",
    "array criteria (rse*) compare with 'all elements'; '!=' on arrays is only checked where both readings agree",
    "sample variance/standard deviation with n-1; percentiles by linear interpolation between order statistics",
    "bootstrap plots are replaced by no-ops for the bulk of the tables (every 16th table runs unpatched)",
    "tables are enumerated as multisets of rows (statistics do not depend on row order); alternate cases are fed in "
    "reversed row order",
]
BOUNDS = {
    "quick": "rank: base+3 candidates (1 tuple x 7 options/model, 5 tuples x 4 options/model), base+<=2 candidates "
             "(6 tuples x 7 options/model), 39 rank configurations each; 4 strictness expressions x 7 status options on "
             "base+2; bic mixed/fixed on base+1; create_results (best model, summary) on base+2 x 4 options; "
             "strictness: all expressions with <=2 atoms over {<,>=} (1 atom: all 6 operators) x all profiles of the "
             "fields read; criteria on 17 models, lrt functions on 12x11 model pairs x 8^2 ofvs x 3 alphas; statistics: "
             "bootstrap 3 rows (all 816 multisets) + 1/8 of 4 rows + 12 tables of 7-50 rows, cdd 3 cases, eta tables "
             "2-3 individuals, 810 delta-method cases",
    "thorough": "rank: base+3 (16 tuples x 7 options/model), base+4 (3 tuples x 7 options), base+5 (4 tuples x 4 "
                "options), base+7 (1 tuple x 3 options); strictness x status on base+2/base+3; bic mixed/fixed on "
                "base+2 (7 tuples x 5 options); create_results on base+2 (6 tuples x 7 options); strictness: <=2 "
                "atoms over all 6 operators (+ 3-atom samples) on 4 models; statistics: bootstrap 3-6 rows (all "
                "multisets, 2 parameters) + 3 parameters x 3 rows (1/8) + 40 tables of 7-50 rows, cdd 3-5 cases x 4 "
                "covariance matrices, eta tables 2-4 individuals, simeval 2-3 individuals x 3-4 samples",
}

NAN = float("nan")

# ----------------------------------------------------------------------------- corpus
CORPUS_KEYS = [
    (),                      # 0  base                6 est
    ("rmiivcl",),            # 1  -1
    ("fixcov",),             # 2  -1 estimated, same total
    ("periph",),             # 3  +2
    ("comb",),               # 4  +1
    ("joint",),              # 5  +1
    ("periph", "iivq"),      # 6  +3
    ("rmiivcl", "fixcov"),   # 7  -2
    ("zerocl",),             # 8  -1 estimated, same total
    ("fixomv",),             # 9  -1 estimated, same total
    ("rmiivcl", "comb"),     # 10  0
    ("periph", "comb"),      # 11 +3
    ("sub12",),              # 12 base on 12 individuals
    ("sub12", "periph"),     # 13
    ("sub12", "rmiivcl"),    # 14
    ("periph", "shareq"),    # 15 +2, POP_CL also in QP1 (no eta): still one random-effects parameter
    ("periph", "iivq", "shareq"),  # 16 +3, POP_CL in two individual parameters with eta: counted once
]
_CORPUS = None


def _apply_real(model, edit):
    import pharmpy.modeling as pm

    if edit == "rmiivcl":
        return pm.remove_iiv(model, "CL")
    if edit == "periph":
        return pm.add_peripheral_compartment(model)
    if edit == "iivq":
        return pm.add_iiv(model, "QP1", "exp")
    if edit == "fixcov":
        return pm.fix_parameters(model, ["COVAPGR"])
    if edit == "comb":
        return pm.set_combined_error_model(model)
    if edit == "joint":
        return pm.create_joint_distribution(model, ["ETA_CL", "ETA_VC"])
    if edit == "zerocl":
        return pm.fix_parameters_to(model, {"IIV_CL": 0})
    if edit == "fixomv":
        return pm.fix_parameters(model, ["IIV_VC"])
    if edit == "shareq":
        from pharmpy.basic import Expr
        from pharmpy.model import Assignment

        st = model.statements
        i = st.find_assignment_index("QP1")
        new = Assignment.create(st[i].symbol, st[i].expression * Expr.symbol("POP_CL"))
        return model.replace(statements=st[:i] + new + st[i + 1:])
    if edit == "sub12":
        df = model.dataset
        return model.replace(dataset=df[df["ID"] <= 12].reset_index(drop=True))
    raise ValueError(edit)


class HarnessError(Exception):
    pass


def corpus():
    """list of (real model named m<i>, Abs); built once (in the parent, inherited by the forked workers)."""
    global _CORPUS
    if _CORPUS is not None:
        return _CORPUS
    import pharmpy.modeling as pm

    pheno = pm.load_example_model("pheno")
    df = pheno.dataset
    nids, nobs = int(df["ID"].nunique()), int((df["AMT"] == 0).sum())
    d12 = df[df["ID"] <= 12]
    nids12, nobs12 = int(d12["ID"].nunique()), int((d12["AMT"] == 0).sum())
    out = []
    for i, key in enumerate(CORPUS_KEYS):
        m = pheno
        a = R.base_abs(nids, nobs)
        for e in key:
            m = _apply_real(m, e)
            R.apply_abs_edit(a, e, nids12, nobs12)
        m = m.replace(name=f"m{i}")
        # cross-check the hand annotation against the real object (names, fix, bounds)
        real = [(p.name, bool(p.fix), float(p.lower), float(p.upper)) for p in m.parameters]
        mine = [(n, a.params[n]["fix"], float(a.params[n]["lower"]), float(a.params[n]["upper"])) for n in a.order]
        if sorted(real) != sorted(mine):
            raise HarnessError(f"corpus annotation of {key} does not match the model: {real} vs {mine}")
        a.order = [p.name for p in m.parameters]  # model order
        out.append((m, a))
    _CORPUS = out
    return out


# ----------------------------------------------------------------------------- synthetic results
_RES_CACHE = {}


def make_results(ci, prof):
    """ModelfitResults of corpus model ci for a result profile (dict, see c19_ref.DEFAULT_PROFILE)."""
    import pandas as pd
    from pharmpy.workflows import Log, ModelfitResults

    key = (ci, tuple(sorted((k, repr(v)) for k, v in prof.items())))
    if key in _RES_CACHE:
        return _RES_CACHE[key]
    m, a = corpus()[ci]
    rse, grad, est, cov = R.profile_vectors(a, prof)
    names = a.estimated
    env_warn = R.profile_env(a, prof)
    warns = []
    if env_warn["estimate_near_boundary"]:
        warns.append("estimate_near_boundary")
    if env_warn["final_zero_gradient"]:
        warns.append("final_zero_gradient")
    res = ModelfitResults(
        ofv=prof["ofv"],
        minimization_successful=prof["ms"],
        termination_cause=prof["cause"],
        significant_digits=prof["sigdigs"],
        warnings=warns,
        relative_standard_errors=pd.Series([rse[n] for n in names], index=names, name="RSE"),
        gradients=pd.Series([grad[n] for n in names], index=names, name="gradients"),
        parameter_estimates=pd.Series([est[n] for n in names], index=names, name="estimates"),
        covariance_matrix=pd.DataFrame(cov, index=names, columns=names),
        log=Log(),
    )
    if len(_RES_CACHE) < 20000:
        _RES_CACHE[key] = res
    return res


# per-model options of the ranking enumeration: (ofv, status)
OPT_FULL = [(-10.0, "ok"), (0.0, "ok"), (3.84, "ok"), (3.85, "ok"), (10.0, "ok"), (NAN, "ok"), (0.0, "fail")]
OPT_SMALL = [(0.0, "ok"), (3.84, "ok"), (10.0, "ok"), (NAN, "ok")]
OPT_STRICT = [(0.0, "ok"), (3.85, "ok"), (NAN, "ok"), (0.0, "fail"), (-10.0, "round"), (3.84, "roundlow"), (10.0, "maxev")]
OPT_BIC = [(0.0, "ok"), (3.84, "ok"), (10.0, "ok"), (NAN, "ok"), (-10.0, "fail")]


def opt_profile(opt):
    ofv, status = opt
    p = dict(R.DEFAULT_PROFILE)
    p["ofv"] = ofv
    if status == "fail":
        p["ms"] = False
    elif status == "round":
        p["ms"] = False
        p["cause"] = "rounding_errors"
    elif status == "roundlow":
        p["ms"] = False
        p["cause"] = "rounding_errors"
        p["sigdigs"] = 0.05
    elif status == "maxev":
        p["ms"] = False
        p["cause"] = "maxevals_exceeded"
    return p


_OPT_RES = {}
_OPT_STRICT = {}


def _okey(ci, opt):
    return (ci, "nan" if R.isnan(opt[0]) else opt[0], opt[1])


def opt_results(ci, opt):
    k = _okey(ci, opt)
    if k not in _OPT_RES:
        _OPT_RES[k] = make_results(ci, opt_profile(opt))
    return _OPT_RES[k]


def opt_strict(ci, opt, strictness):
    k = _okey(ci, opt) + (strictness,)
    if k not in _OPT_STRICT:
        _OPT_STRICT[k] = R.ref_strictness(corpus()[ci][1], opt_profile(opt), strictness)
    return _OPT_STRICT[k]


DEFAULT_STRICT = "minimization_successful or (rounding_errors and sigdigs >= 0.1)"
STRICT_RANK = [
    DEFAULT_STRICT,
    "",
    "not maxevals_exceeded and sigdigs >= 0.1",
    "minimization_successful or not rounding_errors",
]

# rank-type configurations: (rank_type, bic_type, cutoff)
CHEAP_TYPES = [("ofv", None), ("aic", None), ("bic", "random"), ("bic", "iiv")]
CUTOFFS = [None, 0, 3.84]
LRT_CUTOFFS = [None, 0.05, (0.05, 0.01)]
PEN_VEC = [0.0, 2.0, -1.5, 3.84, 0.5, 1.0, -2.0, 0.25]


def rank_configs(k, kinds, mode="rank"):
    """All (rank_type, bic_type, cutoff, penalties, parentmap) for a set with k candidates.
    parentmap 'none' = parent_dict not passed (rank_models documents: base is the parent)."""
    out = []
    pens = [None, tuple(PEN_VEC[: k + 1])]
    for rt, bt in kinds:
        for co in CUTOFFS:
            for pen in pens:
                if mode != "rank" and pen is not None and co == 0:
                    continue
                out.append((rt, bt, co, pen, "base"))
    if ("ofv", None) in kinds:
        for co in LRT_CUTOFFS:
            for pen in pens:
                for pm in (("base", "chain") if k >= 2 else ("base",)):
                    if mode != "rank" and pen is not None:
                        continue
                    out.append(("lrt", None, co, pen, pm))
            if mode == "rank":
                out.append(("lrt", None, co, None, "none"))
    return out


# candidate tuples: (base index, candidate indices...) into the corpus
TUPLES3_QUICK = [(0, 1, 3, 4), (0, 5, 10, 2), (3, 0, 6, 11), (1, 7, 0, 8), (4, 9, 5, 1), (12, 14, 13, 0)]
TUPLES3_MORE = [(0, 2, 8, 9), (0, 6, 7, 11), (6, 3, 0, 1), (7, 1, 0, 3), (10, 0, 4, 1), (5, 0, 1, 6),
                (11, 3, 4, 0), (2, 0, 7, 3), (9, 0, 5, 4), (8, 0, 1, 10)]
TUPLES4 = [(0, 1, 3, 4, 5), (3, 0, 6, 11, 1), (0, 2, 7, 10, 6)]
TUPLES5 = [(0, 1, 3, 4, 5, 6), (3, 0, 6, 11, 1, 7), (0, 2, 8, 9, 10, 11), (1, 0, 7, 3, 10, 4)]
TUPLES7 = [(0, 1, 3, 4, 5, 6, 7, 10)]
OPT_TINY = [(0.0, "ok"), (3.84, "ok"), (NAN, "ok")]
TUPLES_BIC = [(0, 1, 3), (0, 4, 5), (3, 6, 0), (12, 13, 14), (0, 2, 8), (0, 9, 10), (7, 1, 11)]


def _fix_dup(t):
    """a tuple may not contain the same corpus model twice (model names must be unique)"""
    return len(set(t)) == len(t)


# ----------------------------------------------------------------------------- rank check
def table_rows(df, names):
    """DataFrame of rank_models -> list of (index, delta, value, rank) in table order"""
    cols = list(df.columns)
    dcol = [c for c in cols if c in ("dofv", "daic", "dbic")][0]
    jd, jv, jr = cols.index(dcol), cols.index(dcol[1:]), cols.index("rank")
    pos = {n: i for i, n in enumerate(names)}
    vals = df.to_numpy()
    rows = []
    for name, rec in zip(df.index.tolist(), vals):
        rows.append((pos.get(name, -1), float(rec[jd]), float(rec[jv]), float(rec[jr])))
    return rows


def parents_of(pm, k):
    if pm == "chain":
        return [None, 0] + list(range(1, k))
    return [None] + [0] * k


def run_rank_case(tup, opts, cfg, strictness, mode="rank"):
    """Run one ranking configuration on the real code and compare.  Returns (fails, info)."""
    from pharmpy.tools.run import rank_models

    cor = corpus()
    rt, bt, co, pen, pm = cfg
    k = len(tup) - 1
    models = [cor[i][0] for i in tup]
    abss = [cor[i][1] for i in tup]
    ress = [opt_results(i, o) for i, o in zip(tup, opts)]
    names = [m.name for m in models]
    parents = parents_of(pm, k)
    strict_ok = [opt_strict(i, o, strictness) for i, o in zip(tup, opts)]
    ref = R.ref_rank(abss, [o[0] for o in opts], strict_ok, rt, bt, co, list(pen) if pen else None, parents)
    kwargs = {}
    if bt is not None:
        kwargs["bic_type"] = bt
    if pm == "chain":
        kwargs["parent_dict"] = {names[i]: names[parents[i]] for i in range(1, k + 1)}
    elif pm == "base" and rt == "lrt":
        kwargs["parent_dict"] = {names[i]: names[0] for i in range(1, k + 1)}
    info = {"ref": ref}
    if mode == "rank":
        try:
            df = rank_models(models[0], ress[0], models[1:], ress[1:], strictness=strictness, rank_type=rt,
                             cutoff=co, penalties=list(pen) if pen else None, **kwargs)
        except Exception as e:  # the input is inside the documented domain
            return [("raises:" + type(e).__name__, f"rank_models raised {type(e).__name__}: {e}")], info
        rows = table_rows(df, names)
        info["rows"] = rows
        return R.check_table(ref, rows), info
    # mode == "best": through tools.common.create_results (summary_tool + final model)
    from pharmpy.tools.common import ToolResults, create_results
    from pharmpy.workflows import ModelEntry

    mes = [ModelEntry.create(models[0], modelfit_results=ress[0])]
    for i in range(1, k + 1):
        mes.append(ModelEntry.create(models[i], modelfit_results=ress[i], parent=models[parents[i]]))
    try:
        res = create_results(ToolResults, mes[0], mes[0], mes[1:], rt, co, bic_type=bt or "mixed",
                             strictness=strictness, penalties=list(pen) if pen else None)
    except ValueError as e:
        if "All models fail" in str(e) and not any(x is True for x in ref["elig"]):
            info["refused"] = True
            return [], info
        return [("raises:ValueError", f"create_results raised ValueError: {e}")], info
    except Exception as e:
        return [("raises:" + type(e).__name__, f"create_results raised {type(e).__name__}: {e}")], info
    st = res.summary_tool
    rows = table_rows(st, names)
    info["rows"] = rows
    fails = R.check_table(ref, rows)
    best = res.final_model.name if res.final_model is not None else None
    fails += R.check_best(ref, rows, names.index(best) if best in names else None)
    for i, nme in enumerate(names):
        if int(st.loc[nme, "n_params"]) != abss[i].n_est:
            fails.append(("summary-n_params", f"model {i}: n_params {st.loc[nme, 'n_params']} but {abss[i].n_est} estimated"))
        if int(st.loc[nme, "d_params"]) != abss[i].n_est - abss[0].n_est:
            fails.append(("summary-d_params", f"model {i}: d_params {st.loc[nme, 'd_params']}"))
        want_parent = names[parents[i]] if i else names[0]
        if st.loc[nme, "parent_model"] != want_parent:
            fails.append(("summary-parent", f"model {i}: parent_model {st.loc[nme, 'parent_model']} want {want_parent}"))
    return fails, info


def fmt_rank_case(tup, opts, cfg, strictness):
    rt, bt, co, pen, pm = cfg
    ms = ", ".join(f"m{t}{list(CORPUS_KEYS[t])}: ofv={o[0]} {o[1]}" for t, o in zip(tup, opts))
    return (f"rank_type={rt}{'/' + bt if bt else ''} cutoff={co} penalties={list(pen) if pen else None} parents={pm} "
            f"strictness={strictness!r} models(base first)=[{ms}]")


def _new_res():
    return {"states": 0, "transitions": 0, "evaluations": 0, "distinct_nontrivial": 0, "violations": [],
            "samples": [], "outcomes": {}, "traces_validated_against_impl": 0, "capped": False}


def _out(res, label, n=1):
    res["outcomes"][label] = res["outcomes"].get(label, 0) + n


def _viol(res, w):
    pat = classify(w)
    if pat is not None:
        w["class"] = pat
        _out(res, "known-pattern:" + pat)
        if sum(1 for x in res["violations"] if x.get("class") == pat) >= 3:
            return
    if len(res["violations"]) < 60:
        res["violations"].append(w)


def _rank_shard(res, shard):
    _, tup, lead, menu_name, kinds_name, strictnesses, mode = shard
    menu = {"full": OPT_FULL, "small": OPT_SMALL, "strict": OPT_STRICT, "bic": OPT_BIC, "tiny": OPT_TINY}[menu_name]
    kinds = {"cheap": CHEAP_TYPES, "bic": [("bic", "mixed"), ("bic", "fixed")], "all": CHEAP_TYPES + [("bic", "mixed")]}[kinds_name]
    tup = tuple(tup)
    k = len(tup) - 1
    cfgs = rank_configs(k, kinds, mode)
    rest = k + 1 - len(lead)
    for tail in itertools.product(menu, repeat=rest):
        opts = tuple(tuple(x) for x in lead) + tail
        res["states"] += 1
        for strictness in strictnesses:
            for cfg in cfgs:
                res["transitions"] += 1
                res["evaluations"] += 1
                fails, info = run_rank_case(tup, opts, cfg, strictness, mode)
                res["traces_validated_against_impl"] += 1
                ref = info["ref"]
                for nt in ref["note"]:
                    _out(res, "model:" + nt)
                if "rows" in info:
                    nranked = sum(1 for r in info["rows"] if not R.isnan(r[3]))
                    if nranked >= 2 or nranked < k + 1:
                        res["distinct_nontrivial"] += 1
                    if len({r[3] for r in info["rows"] if not R.isnan(r[3])}) < nranked:
                        _out(res, "table:tie")
                    _out(res, f"table:ranked={nranked}")
                elif info.get("refused"):
                    _out(res, "table:refused-all-fail")
                for cls, text in fails:
                    _out(res, "fail:" + cls)
                    _viol(res, {"kind": mode, "tuple": list(tup), "opts": [[_j(o[0]), o[1]] for o in opts], "cfg": _cfg_json(cfg),
                                "strictness": strictness, "class": f"{mode}:{cls}",
                                "rows": [[r[0]] + [_j(x) for x in r[1:]] for r in info.get("rows", [])],
                                "what": f"{text} | {fmt_rank_case(tup, opts, cfg, strictness)}"})
                if not fails:
                    _out(res, "ok:" + mode)
        if res["states"] % 101 == 1 and len(res["samples"]) < 2:
            res["samples"].append(fmt_rank_case(tup, opts, cfgs[-1], strictnesses[0]))


def _cfg_json(cfg):
    rt, bt, co, pen, pm = cfg
    return [rt, bt, list(co) if isinstance(co, tuple) else co, list(pen) if pen else None, pm]


def _cfg_from_json(c):
    rt, bt, co, pen, pm = c
    return (rt, bt, tuple(co) if isinstance(co, list) else co, tuple(pen) if pen else None, pm)


# ----------------------------------------------------------------------------- strictness check
def atoms(tier, two):
    """list of atom strings; `two` = menu used inside 2-atom expressions"""
    out = list(R.BOOL_NAMES)
    thr = {"sigdigs": [3.5] if (two and tier == "quick") else [3.5, 0.1], "rse": [0.3], "rse_theta": [0.3],
           "rse_omega": [0.3], "rse_sigma": [0.3], "condition_number": [1000]}
    ops = ["<", ">="] if (two and tier == "quick") else ["<", "<=", "==", ">=", ">", "!="]
    for n in R.NUM_NAMES:
        for op in ops:
            for t in thr[n]:
                out.append(f"{n} {op} {t}")
    if not two:
        out += ["0.3 > rse", "3.5 <= sigdigs", "1000 > condition_number", "0.3 >= rse_omega"]
    return out


def strictness_expressions(tier):
    a1 = atoms(tier, False)
    exprs = []
    for a in a1:
        exprs += [a, f"not {a}", f"({a})", f"not ({a})", a.upper()]
    a2 = atoms(tier, True)
    lits = a2 + [f"not {a}" for a in a2]
    for x in lits:
        for y in lits:
            exprs.append(f"{x} and {y}")
            exprs.append(f"{x} or {y}")
    for x in a2:
        for y in a2:
            exprs.append(f"not ({x} and {y})")
            exprs.append(f"not ({x} or {y})")
    if tier == "thorough":
        for x in a2[::3]:
            for y in a2[1::3]:
                exprs.append(f"({x} or {y}) and minimization_successful")
                exprs.append(f"minimization_successful or ({x} and {y})")
    exprs += [DEFAULT_STRICT, "minimization_successful and rse < 0.4", "(minimization_successful or rounding_errors) and sigdigs >= 0.1"]
    return exprs


STRICT_MODELS = [0, 4, 5, 2]


def profiles_for(expr):
    fields = sorted({R.FIELD_OF[n] for n in R.names_in(expr)})
    menus = [R.PROFILE_MENUS[f] for f in fields]
    out = []
    for combo in itertools.product(*menus):
        p = dict(R.DEFAULT_PROFILE)
        for f, v in zip(fields, combo):
            p[f] = v
        out.append(p)
    p = dict(R.DEFAULT_PROFILE)
    p["ofv"] = NAN
    out.append(p)
    return out


def run_strict_case(ci, prof, expr):
    from pharmpy.tools.run import is_strictness_fulfilled

    m, a = corpus()[ci]
    want = R.ref_strictness(a, prof, expr)
    res = make_results(ci, prof)
    try:
        got = is_strictness_fulfilled(m, res, expr)
        got = bool(got)
    except Exception as e:
        return want, None, [("strictness-raises:" + type(e).__name__,
                             f"is_strictness_fulfilled raised {type(e).__name__}: {str(e)[:120]}")]
    if want is R.AMBIG:
        return want, got, []
    if got != want:
        return want, got, [("strictness-value", f"is_strictness_fulfilled returned {got}, the documented criteria give {want}")]
    return want, got, []


def fmt_prof(prof):
    d = {k: v for k, v in prof.items() if R.DEFAULT_PROFILE.get(k) != v and not (R.isnan(v) and R.isnan(R.DEFAULT_PROFILE.get(k)))}
    return "profile{" + ", ".join(f"{k}={v}" for k, v in sorted(d.items(), key=lambda kv: kv[0])) + "}"


def strict_class(expr, prof, cls):
    names = sorted(set(R.names_in(expr)))
    return f"{cls}|names={'+'.join(names)}"


def _strict_shard(res, shard, tier):
    _, lo, hi = shard
    exprs = strictness_expressions(tier)[lo:hi]
    n1 = 5 * len(atoms(tier, False))  # the 1-atom expressions come first
    for k, expr in enumerate(exprs):
        if tier == "thorough":
            models = STRICT_MODELS
        else:  # quick: 1-atom expressions on two models, 2-atom expressions alternate between them
            models = STRICT_MODELS[:2] if lo + k < n1 else [STRICT_MODELS[(lo + k) % 2]]
        res["states"] += 1
        compared = False
        for prof in profiles_for(expr):
            for ci in models:
                res["transitions"] += 1
                res["evaluations"] += 1
                want, got, fails = run_strict_case(ci, prof, expr)
                res["traces_validated_against_impl"] += 1
                if want is R.AMBIG:
                    _out(res, "strict:undecided-by-text")
                elif got is not None:
                    compared = True
                    _out(res, f"strict:{want}")
                for cls, text in fails:
                    _out(res, "fail:" + cls.split(":")[0])
                    _viol(res, {"kind": "strict", "model": ci, "profile": _prof_json(prof), "expr": expr,
                                "got": got, "want": None if want is R.AMBIG else want,
                                "class": strict_class(expr, prof, cls),
                                "what": f"{text} | strictness={expr!r} model=m{ci}{list(CORPUS_KEYS[ci])} {fmt_prof(prof)}"})
        if compared:
            res["distinct_nontrivial"] += 1
        if res["states"] % 499 == 1 and len(res["samples"]) < 2:
            res["samples"].append(f"strictness {expr!r} on {len(profiles_for(expr))} profiles x {len(models)} models")


def _prof_json(p):
    return {k: (None if (isinstance(v, float) and math.isnan(v)) else v) for k, v in p.items()} | {"_nan_ofv": R.isnan(p["ofv"])}


def _prof_from_json(d):
    p = {k: v for k, v in d.items() if not k.startswith("_")}
    if d.get("_nan_ofv"):
        p["ofv"] = NAN
    return p


# ----------------------------------------------------------------------------- criteria scalars / LRT functions
def run_crit_case(ci, ofv):
    from pharmpy.modeling import calculate_aic, calculate_bic

    m, a = corpus()[ci]
    fails = []
    try:
        got = calculate_aic(m, ofv)
        if not R.close(got, R.ref_aic(a, ofv)):
            fails.append(("aic-value", f"calculate_aic={got!r}, OFV + 2*{a.n_est} = {R.ref_aic(a, ofv)!r}"))
        for bt in ("mixed", "fixed", "random", "iiv"):
            got = calculate_bic(m, ofv, type=bt)
            want = R.ref_bic(a, ofv, bt)
            if not R.close(got, want):
                fails.append((f"bic-{bt}-value", f"calculate_bic(type={bt})={got!r}, documented formula gives {want!r} "
                              f"(estimated={a.n_est}, random={a.k_random}, fixed={a.k_fixed}, iiv omegas={a.k_iiv_omegas}, "
                              f"individuals={a.nids}, observations={a.nobs})"))
        got = calculate_bic(m, ofv)
        if not R.close(got, R.ref_bic(a, ofv, "mixed")):
            fails.append(("bic-default", f"calculate_bic default type is not 'mixed': {got!r}"))
    except Exception as e:
        fails.append(("crit-raises:" + type(e).__name__, f"{type(e).__name__}: {e}"))
    return fails


ALPHAS = [0.05, 0.01, 0.001]
LRT_OFVS = [-10.0, 0.0, 3.84, 3.85, 6.63, 6.64, 10.0, NAN]


def run_lrt_case(pi, ci, pofv, cofv, alpha):
    """lrt.cutoff / p_value / test / best_of_two on corpus models pi (parent) and ci (child)."""
    from pharmpy.modeling import lrt

    cor = corpus()
    (pm, pa), (cm, ca) = cor[pi], cor[ci]
    fails = []
    n_cmp = 0
    df_all, df_est = ca.n_all - pa.n_all, ca.n_est - pa.n_est
    decided = df_all == df_est and df_all != 0
    try:
        got_df = lrt.degrees_of_freedom(pm, cm)
        if got_df not in (df_all, df_est):
            fails.append(("lrt-df", f"degrees_of_freedom={got_df}, parameter count difference is {df_all} (estimated {df_est})"))
        n_cmp += 1
        got_c = lrt.cutoff(pm, cm, alpha)
        wants = [R.lrt_cutoff(d, alpha) for d in sorted({df_all, df_est})]
        if None not in wants and not any(R.close(got_c, w) for w in wants):
            fails.append(("lrt-cutoff", f"cutoff={got_c!r}, chi-square({[df_all, df_est]}) isf({alpha}) gives {wants}"))
        if None not in wants:
            n_cmp += 1
        if decided and df_all > 0 and not R.isnan(pofv) and not R.isnan(cofv):
            got_p = lrt.p_value(pm, cm, pofv, cofv)
            want_p = R.chi2_sf(pofv - cofv, df_all)
            n_cmp += 1
            if not R.close(got_p, want_p, atol=1e-12):
                fails.append(("lrt-pvalue", f"p_value={got_p!r}, chi-square sf gives {want_p!r}"))
        if decided and not R.isnan(pofv) and not R.isnan(cofv):
            c = R.lrt_cutoff(df_all, alpha)
            if abs((pofv - cofv) - c) > 1e-9:
                want_t = (pofv - cofv) >= c
                got_t = bool(lrt.test(pm, cm, pofv, cofv, alpha))
                n_cmp += 1
                if got_t != want_t:
                    fails.append(("lrt-test", f"test={got_t}, dOFV={pofv - cofv} vs cut-off {c!r} gives {want_t}"))
                got_b = lrt.best_of_two(pm, cm, pofv, cofv, alpha)
                if got_b.name != (cm.name if want_t else pm.name):
                    fails.append(("lrt-best_of_two", f"best_of_two={got_b.name}, test result {want_t}"))
    except Exception as e:
        fails.append(("lrt-raises:" + type(e).__name__, f"{type(e).__name__}: {e}"))
    return fails, n_cmp


def run_bom_case(pi, cis, pofv, cofvs, alpha):
    """lrt.best_of_many: the lowest-OFV candidate if it passes the test against the parent, else the parent."""
    from pharmpy.modeling import lrt

    cor = corpus()
    pm, pa = cor[pi]
    models = [cor[c][0] for c in cis]
    valid = [(o, j) for j, o in enumerate(cofvs) if not R.isnan(o)]
    try:
        got = lrt.best_of_many(pm, models, pofv, list(cofvs), alpha)
    except Exception as e:
        return [("lrt-raises:" + type(e).__name__, f"best_of_many: {type(e).__name__}: {e}")], 0
    if not valid:
        return ([] if got.name == pm.name else [("lrt-best_of_many", f"all candidates NaN but {got.name} returned")]), 1
    lo = min(o for o, _ in valid)
    tied = [j for o, j in valid if o == lo]
    acceptable = set()
    for j in tied:
        ca = cor[cis[j]][1]
        dfa, dfe = ca.n_all - pa.n_all, ca.n_est - pa.n_est
        if dfa != dfe or dfa == 0 or R.isnan(pofv):
            acceptable |= {pm.name, models[j].name}
            continue
        c = R.lrt_cutoff(dfa, alpha)
        if abs((pofv - lo) - c) <= 1e-9:
            acceptable |= {pm.name, models[j].name}
        else:
            acceptable.add(models[j].name if (pofv - lo) >= c else pm.name)
    if got.name not in acceptable:
        return [("lrt-best_of_many", f"best_of_many returned {got.name}, acceptable {sorted(acceptable)}")], 1
    return [], 1


def _crit_shard(res, shard, tier):
    n = len(CORPUS_KEYS)
    sub = shard[1]
    if sub == "crit":
        for ci in range(n):
            for ofv in (-10.0, 0.0, 3.84, 586.276):
                res["states"] += 1
                res["transitions"] += 6
                res["evaluations"] += 1
                res["traces_validated_against_impl"] += 1
                fails = run_crit_case(ci, ofv)
                if not any(c.startswith("crit-raises") for c, _ in fails):
                    res["distinct_nontrivial"] += 1
                _out(res, "ok:crit" if not fails else "fail:crit")
                for cls, text in fails:
                    _viol(res, {"kind": "crit", "model": ci, "ofv": ofv, "class": cls,
                                "what": f"{text} | model m{ci}{list(CORPUS_KEYS[ci])} ofv={ofv}"})
        res["samples"].append(f"calculate_aic/calculate_bic x4 on m3{list(CORPUS_KEYS[3])} ofv=3.84")
    elif sub == "lrt":
        pi = shard[2]
        for ci in range(12):
            if ci == pi:
                continue
            for pofv in LRT_OFVS:
                for cofv in LRT_OFVS:
                    for alpha in ALPHAS:
                        res["states"] += 1
                        res["transitions"] += 1
                        res["evaluations"] += 1
                        res["traces_validated_against_impl"] += 1
                        fails, ncmp = run_lrt_case(pi, ci, pofv, cofv, alpha)
                        if ncmp >= 2:
                            res["distinct_nontrivial"] += 1
                        _out(res, "ok:lrt" if not fails else "fail:lrt")
                        for cls, text in fails:
                            _viol(res, {"kind": "lrt", "parent": pi, "child": ci, "pofv": _j(pofv), "cofv": _j(cofv),
                                        "alpha": alpha, "class": cls,
                                        "what": f"{text} | parent m{pi}{list(CORPUS_KEYS[pi])} ofv={pofv} child m{ci}{list(CORPUS_KEYS[ci])} ofv={cofv} alpha={alpha}"})
        res["samples"].append(f"lrt.cutoff/p_value/test/best_of_two parent m{pi} vs 11 children x {len(LRT_OFVS)}^2 ofvs x {len(ALPHAS)} alphas")
    elif sub == "bom":
        pi = shard[2]
        cands = [c for c in (1, 3, 4, 7, 6) if c != pi][:3]
        menu = [0.0, 3.84, 3.85, 10.0, NAN]
        for pofv in (3.85, 10.0, 0.0):
            for cofvs in itertools.product(menu, repeat=len(cands)):
                for alpha in (0.05, 0.01):
                    res["states"] += 1
                    res["transitions"] += 1
                    res["evaluations"] += 1
                    res["traces_validated_against_impl"] += 1
                    fails, ncmp = run_bom_case(pi, cands, pofv, cofvs, alpha)
                    res["distinct_nontrivial"] += ncmp
                    _out(res, "ok:best_of_many" if not fails else "fail:best_of_many")
                    for cls, text in fails:
                        _viol(res, {"kind": "bom", "parent": pi, "cands": cands, "pofv": pofv,
                                    "cofvs": [_j(x) for x in cofvs], "alpha": alpha, "class": cls,
                                    "what": f"{text} | parent m{pi} ofv={pofv} candidates {cands} ofvs={list(cofvs)} alpha={alpha}"})
        res["samples"].append(f"lrt.best_of_many parent m{pi} candidates {cands}")


def _j(x):
    return None if (isinstance(x, float) and math.isnan(x)) else x


def _uj(x):
    return NAN if x is None else x


# ----------------------------------------------------------------------------- tool statistics
ALPHA = [-1.0, 0.0, 1.0, 2.5]
BOOT_NAMES = ["POP_CL", "POP_VC", "COVAPGR"]
IOFV = [1.0, 2.0, -0.5, 0.25]


def row_multisets(p, n):
    return itertools.combinations_with_replacement(list(itertools.product(ALPHA, repeat=p)), n)


def big_table(n, a, b):
    """deterministic larger replicate table over the alphabet (row i depends on i only)"""
    return [(ALPHA[(a * i) % 4], ALPHA[(b * i + i // 4) % 4]) for i in range(n)]


def _cmp(fails, cls, label, got, want, **kw):
    try:
        ok = R.close(got, want, **kw)
    except (TypeError, ValueError):
        ok = False
    if not ok:
        fails.append((cls, f"{label}: reported {got!r}, defining formula gives {want!r}"))
    return 1


def run_boot_case(rows, variant):
    """variant = (has_orig, has_incl, has_dofv, patched, reverse)"""
    import numpy as np
    import pandas as pd
    import pharmpy.tools.bootstrap.results as B
    from pharmpy.workflows import ModelfitResults

    has_orig, has_incl, has_dofv, patched, reverse = variant
    rows = [tuple(r) for r in rows]
    if reverse:
        rows = rows[::-1]
    n, p = len(rows), len(rows[0])
    names = BOOT_NAMES[:p]
    ofvs = [1.5 * sum(r) + 0.75 * i for i, r in enumerate(rows)]
    reps = [ModelfitResults(ofv=o, parameter_estimates=pd.Series(list(r), index=names, name="estimates"))
            for r, o in zip(rows, ofvs)]
    orig_est = [0.5, 2.0, -0.25][:p]
    ids = pd.Index([1, 2, 3, 4], name="ID")
    orig = ModelfitResults(ofv=1.25, parameter_estimates=pd.Series(orig_est, index=names, name="estimates"),
                           individual_ofv=pd.Series(IOFV, index=ids, name="iofv")) if has_orig else None
    incl = [[(i % 4) + 1, ((i + 1) % 4) + 1, (i % 4) + 1] for i in range(n)] if has_incl else None
    dofv_ofv = [(None if i % 3 == 1 else 2.0 * i - 1.0) for i in range(n)]
    dofv = [(None if o is None else ModelfitResults(ofv=o)) for o in dofv_ofv] if has_dofv else None
    saved = {}
    if patched:
        for f in ("plot_ofv", "plot_dofv_quantiles", "plot_parameter_estimates_histogram"):
            saved[f] = getattr(B, f)
            setattr(B, f, lambda res: None)
    try:
        try:
            res = B.calculate_results(None, reps, original_results=orig, included_individuals=incl, dofv_results=dofv)
        finally:
            for f, v in saved.items():
                setattr(B, f, v)
    except Exception as e:
        return [("boot-raises:" + type(e).__name__, f"bootstrap calculate_results raised {type(e).__name__}: {e}")], 0
    fails = []
    ncmp = 0
    try:
        st, dist, cm = res.parameter_statistics, res.parameter_distribution, res.covariance_matrix
        for j, nme in enumerate(names):
            col = [r[j] for r in rows]
            mu, sd = R.mean(col), R.std1(col)
            ncmp += _cmp(fails, "boot-mean", f"mean[{nme}]", st.loc[nme, "mean"], mu)
            ncmp += _cmp(fails, "boot-median", f"median[{nme}]", st.loc[nme, "median"], R.median(col))
            ncmp += _cmp(fails, "boot-bias", f"bias[{nme}]", st.loc[nme, "bias"], (mu - orig_est[j]) if has_orig else NAN)
            ncmp += _cmp(fails, "boot-stderr", f"stderr[{nme}]", st.loc[nme, "stderr"], sd)
            with np.errstate(all="ignore"):
                rse = float(np.float64(sd) / np.float64(mu))
            ncmp += _cmp(fails, "boot-rse", f"RSE[{nme}]", st.loc[nme, "RSE"], rse)
            for cname, q in R.DIST_COLS:
                ncmp += _cmp(fails, "boot-percentile", f"distribution[{nme},{cname}]", dist.loc[nme, cname],
                             R.quantile_linear(col, q))
            for j2, nme2 in enumerate(names):
                ncmp += _cmp(fails, "boot-cov", f"covariance[{nme},{nme2}]", cm.loc[nme, nme2],
                             R.cov1(col, [r[j2] for r in rows]))
        # ofv table
        want = {"bootstrap_bootdata_ofv": ofvs}
        want["original_bootdata_ofv"] = [sum(IOFV[i - 1] for i in inc) for inc in incl] if (has_orig and has_incl) else [NAN] * n
        want["bootstrap_origdata_ofv"] = [(NAN if o is None else o) for o in dofv_ofv] if has_dofv else [NAN] * n
        want["delta_bootdata"] = [a - b for a, b in zip(want["original_bootdata_ofv"], ofvs)]
        want["delta_origdata"] = [(a - 1.25) for a in want["bootstrap_origdata_ofv"]] if has_orig else [NAN] * n
        tab = res.ofvs
        for cname, colw in want.items():
            for i in range(n):
                ncmp += _cmp(fails, "boot-ofvs", f"ofvs[{i},{cname}]", tab[cname].iloc[i], colw[i])
            os_ = res.ofv_statistics
            ncmp += _cmp(fails, "boot-ofv-mean", f"ofv_statistics[{cname},mean]", os_.loc[cname, "mean"], R.mean(colw))
            ncmp += _cmp(fails, "boot-ofv-median", f"ofv_statistics[{cname},median]", os_.loc[cname, "median"], R.median(colw))
            ncmp += _cmp(fails, "boot-ofv-stderr", f"ofv_statistics[{cname},stderr]", os_.loc[cname, "stderr"], R.std1(colw))
            for qn, q in R.DIST_COLS[2:9]:
                ncmp += _cmp(fails, "boot-ofv-percentile", f"ofv_distribution[{cname},{qn}]",
                             res.ofv_distribution.loc[cname, qn], R.quantile_linear(colw, q))
    except Exception as e:
        fails.append(("boot-table-shape:" + type(e).__name__, f"result tables not readable: {type(e).__name__}: {e}"))
    return fails, ncmp


COV2 = [
    [[1.0, 0.0], [0.0, 1.0]],
    [[0.5, 0.25], [0.25, 4.0]],
    [[4.0, -1.0], [-1.0, 0.5]],
    [[1.0, 0.9], [0.9, 1.0]],
]
SCALES = [1.0, 2.0, 0.5, 1.5, 3.0, 0.25]
_CDD_MODELS = []


def run_cdd_case(rows, covi, variant):
    """variant = (none_idx or None, multi_skip, reverse)"""
    import pandas as pd
    import pharmpy.tools.cdd.results as C
    from pharmpy.workflows import ModelfitResults

    none_idx, multi_skip, reverse = variant
    rows = [tuple(r) for r in rows]
    if reverse:
        rows = rows[::-1]
    n = len(rows)
    names = BOOT_NAMES[:2]
    cov = COV2[covi]
    base_est = [0.5, 2.0]
    nid = n + 1
    iofv = [1.0 + 0.5 * i * (-1) ** i for i in range(nid)]
    ids = pd.Index(list(range(1, nid + 1)), name="ID")
    base = ModelfitResults(ofv=sum(iofv), parameter_estimates=pd.Series(base_est, index=names, name="estimates"),
                           covariance_matrix=pd.DataFrame(cov, index=names, columns=names),
                           individual_ofv=pd.Series(iofv, index=ids, name="iofv"))
    m0 = corpus()[0][0]
    while len(_CDD_MODELS) < n:
        _CDD_MODELS.append(m0.replace(name=f"cdd_{len(_CDD_MODELS) + 1}"))
    cms = _CDD_MODELS[:n]
    ofvs = [sum(iofv) - 1.0 - 0.7 * i for i in range(n)]
    crs = []
    for i, r in enumerate(rows):
        if none_idx is not None and i == none_idx:
            crs.append(None)
            continue
        ci = [[v * SCALES[i % len(SCALES)] for v in rr] for rr in cov]
        crs.append(ModelfitResults(ofv=ofvs[i], parameter_estimates=pd.Series(list(r), index=names, name="estimates"),
                                   covariance_matrix=pd.DataFrame(ci, index=names, columns=names)))
    skipped = [[i + 1] for i in range(n)]
    if multi_skip:
        skipped[0] = [1, nid]
    try:
        res = C.calculate_results(m0, base, cms, crs, "ID", skipped)
        cr = res.case_results
    except Exception as e:
        return [("cdd-raises:" + type(e).__name__, f"cdd calculate_results raised {type(e).__name__}: {e}")], 0
    fails = []
    ncmp = 0
    try:
        present = [i for i in range(n) if crs[i] is not None]
        cooks = R.cook_scores(base_est, [rows[i] for i in present], cov)
        cook_want = [NAN] * n
        for i, c in zip(present, cooks):
            cook_want[i] = c
        for i in range(n):
            ncmp += _cmp(fails, "cdd-cook", f"cook_score[case {i + 1}]", cr["cook_score"].iloc[i], cook_want[i], atol=1e-8)
            want_d = NAN if crs[i] is None else sum(v for j, v in enumerate(iofv) if (j + 1) not in skipped[i]) - ofvs[i]
            ncmp += _cmp(fails, "cdd-dofv", f"delta_ofv[case {i + 1}]", cr["delta_ofv"].iloc[i], want_d, atol=1e-8)
            want_r = NAN if crs[i] is None else math.sqrt(R.det([[v * SCALES[i % len(SCALES)] for v in rr] for rr in cov]) / R.det(cov))
            ncmp += _cmp(fails, "cdd-covratio", f"covariance_ratio[case {i + 1}]", cr["covariance_ratio"].iloc[i], want_r)
        if none_idx is None:
            jk = R.jackknife_cov(rows)
            got_jk = C.compute_jackknife_covariance_matrix(pd.DataFrame([list(r) for r in rows], columns=names))
            for a in range(2):
                for b in range(2):
                    ncmp += _cmp(fails, "cdd-jackknife-cov", f"jackknife covariance[{a},{b}]", got_jk.iloc[a, b], jk[a][b], atol=1e-9)
            if R.spd_cond(jk) < 1e6:
                jc = R.cook_scores(base_est, rows, jk)
                for i in range(n):
                    ncmp += _cmp(fails, "cdd-jackknife-cook", f"jackknife_cook_score[case {i + 1}]",
                                 cr["jackknife_cook_score"].iloc[i], jc[i], rtol=1e-6, atol=1e-8)
    except Exception as e:
        fails.append(("cdd-table-shape:" + type(e).__name__, f"case_results not readable: {type(e).__name__}: {e}"))
    return fails, ncmp


OMEGA_MENU = [(0.5, 2.0, 0.25), (1.0, 1.0, 1.0)]
SHRINK_MODELS = [0, 9, 5, 6]


def _shrink_setup(ci, omi):
    import pandas as pd

    m, a = corpus()[ci]
    etas = list(m.random_variables.etas.names)
    om_of = {"ETA_CL": "IIV_CL", "ETA_VC": "IIV_VC", "ETA_QP1": "IIV_QP1"}
    menu = dict(zip(["IIV_CL", "IIV_VC", "IIV_QP1"], OMEGA_MENU[omi]))
    pe = {}
    for nme in a.estimated:
        k = a.params[nme]["kind"]
        pe[nme] = menu.get(nme, 0.05) if k == "omega" else 0.7
    omega = {}
    for e in etas:
        o = om_of[e]
        omega[e] = pe[o] if o in pe else a.params[o]["value"]  # fixed: the value in the model
    return m, etas, pd.Series(pe, name="estimates"), omega


def run_shrink_case(ci, rows, omi, sd, order="model"):
    import pandas as pd
    from pharmpy.modeling import calculate_eta_shrinkage

    m, etas, pe, omega = _shrink_setup(ci, omi)
    if order == "reversed":  # estimates are looked up by label: their order in the Series carries no meaning
        pe = pe[::-1]
    elif order == "sorted":
        pe = pe.sort_index()
    rows = [tuple(r) for r in rows]
    ie = pd.DataFrame([list(r) for r in rows], columns=etas, index=pd.Index(range(1, len(rows) + 1), name="ID"))
    try:
        got = calculate_eta_shrinkage(m, pe, ie, sd=sd)
    except Exception as e:
        return [("shrink-raises:" + type(e).__name__, f"calculate_eta_shrinkage raised {type(e).__name__}: {e}")], 0
    fails, ncmp = [], 0
    try:
        for j, e in enumerate(etas):
            col = [r[j] for r in rows]
            want = 1 - (R.std1(col) / math.sqrt(omega[e]) if sd else R.var1(col) / omega[e])
            ncmp += _cmp(fails, "eta-shrinkage", f"shrinkage[{e}] (sd={sd})", got[e], want)
    except Exception as e:
        fails.append(("shrink-shape:" + type(e).__name__, f"result not readable: {type(e).__name__}: {e}"))
    return fails, ncmp


def run_ishrink_case(ci, diag_rows, omi):
    import pandas as pd
    from pharmpy.modeling import calculate_individual_shrinkage

    m, etas, pe, omega = _shrink_setup(ci, omi)
    ids = list(range(1, len(diag_rows) + 1))
    mats = []
    for r in diag_rows:
        k = len(etas)
        mat = [[(r[i] if i == j else 0.1 * min(r[i], r[j])) for j in range(k)] for i in range(k)]
        mats.append(pd.DataFrame(mat, index=etas, columns=etas))
    covs = pd.Series(mats, index=pd.Index(ids, name="ID"))
    try:
        got = calculate_individual_shrinkage(m, pe, covs)
    except Exception as e:
        return [("ishrink-raises:" + type(e).__name__, f"calculate_individual_shrinkage raised {type(e).__name__}: {e}")], 0
    fails, ncmp = [], 0
    try:
        for i, r in zip(ids, diag_rows):
            for j, e in enumerate(etas):
                ncmp += _cmp(fails, "individual-shrinkage", f"ieta_shr[ID {i},{e}]", got.loc[i, e], r[j] / omega[e])
    except Exception as e:
        fails.append(("ishrink-shape:" + type(e).__name__, f"result not readable: {type(e).__name__}: {e}"))
    return fails, ncmp


DELTA_EXPRS = ["x", "x + y", "x*y", "x/y", "exp(x)", "x*exp(y)", "x**2", "log(x)", "x - 2*y", "x*y/(x + y)"]
DELTA_VALS = [0.5, 1.0, 2.5]
COV3 = [
    [[1.0, 0.0, 0.0], [0.0, 1.0, 0.0], [0.0, 0.0, 1.0]],
    [[1.0, 0.2, 0.1], [0.2, 2.0, 0.3], [0.1, 0.3, 0.5]],
    [[0.04, 0.01, -0.02], [0.01, 0.09, 0.0], [-0.02, 0.0, 0.25]],
]
COV3_ORDERS = [("x", "y", "z"), ("x", "z", "y"), ("y", "z", "x")]


def _delta_grad(expr, x, y):
    e = math.exp
    return {
        "x": (1.0, 0.0), "x + y": (1.0, 1.0), "x*y": (y, x), "x/y": (1 / y, -x / y ** 2), "exp(x)": (e(x), 0.0),
        "x*exp(y)": (e(y), x * e(y)), "x**2": (2 * x, 0.0), "log(x)": (1 / x, 0.0), "x - 2*y": (1.0, -2.0),
        "x*y/(x + y)": (y * y / (x + y) ** 2, x * x / (x + y) ** 2),
    }[expr]


def run_delta_case(expr, x, y, covi, oi, as_series):
    import pandas as pd
    import sympy
    from pharmpy.internals.math import se_delta_method

    order = COV3_ORDERS[oi]
    cov = pd.DataFrame(COV3[covi], index=list(order), columns=list(order))
    vals = {"x": x, "y": y, "z": 3.0}
    e = sympy.sympify(expr, locals={"x": sympy.Symbol("x"), "y": sympy.Symbol("y")})
    try:
        got = se_delta_method(e, pd.Series(vals) if as_series else vals, cov)
    except Exception as ex:
        return [("delta-raises:" + type(ex).__name__, f"se_delta_method raised {type(ex).__name__}: {ex}")], 0
    gx, gy = _delta_grad(expr, x, y)
    c = lambda a, b: COV3[covi][order.index(a)][order.index(b)]  # noqa: E731
    want = math.sqrt(gx * gx * c("x", "x") + 2 * gx * gy * c("x", "y") + gy * gy * c("y", "y"))
    fails = []
    _cmp(fails, "delta-method-se", "se", got, want)
    return fails, 1


def run_simeval_case(table, orig):
    """table: tuple of samples, each a tuple of iofv per individual"""
    import types

    import pandas as pd
    from pharmpy.tools.simeval.results import calculate_results
    from pharmpy.workflows import ModelfitResults

    nind = len(orig)
    ids = pd.Index(range(1, nind + 1), name="ID")
    sims = types.SimpleNamespace(modelfit_results=[ModelfitResults(individual_ofv=pd.Series(list(s), index=ids)) for s in table])
    ores = ModelfitResults(individual_ofv=pd.Series(list(orig), index=ids))
    try:
        res = calculate_results(corpus()[0][0], ores, sims)
        tab = res.iofv_summary
    except Exception as e:
        return [("simeval-raises:" + type(e).__name__, f"simeval calculate_results raised {type(e).__name__}: {e}")], 0
    import numpy as np

    fails, ncmp = [], 0
    try:
        for i in range(nind):
            col = [s[i] for s in table]
            mu, sd = R.mean(col), R.std1(col)
            ncmp += _cmp(fails, "simeval-mean", f"sampled_mean[ID {i + 1}]", tab["sampled_mean"].iloc[i], mu)
            ncmp += _cmp(fails, "simeval-stdev", f"sampled_stdev[ID {i + 1}]", tab["sampled_stdev"].iloc[i], sd)
            with np.errstate(all="ignore"):
                want = float((np.float64(orig[i]) - np.float64(mu)) / np.float64(sd))
            ncmp += _cmp(fails, "simeval-residual", f"residual[ID {i + 1}]", tab["residual"].iloc[i], want)
    except Exception as e:
        fails.append(("simeval-shape:" + type(e).__name__, f"result not readable: {type(e).__name__}: {e}"))
    return fails, ncmp


def run_summ_case(ci, ofv, ms):
    import pandas as pd
    from pharmpy.tools.run import summarize_modelfit_results_from_entries
    from pharmpy.workflows import Log, ModelEntry, ModelfitResults

    m, a = corpus()[ci]
    names = a.estimated
    pe = [0.25 * (i + 1) for i in range(len(names))]
    se = [0.01 * (i + 2) for i in range(len(names))]
    rse = [s / p for s, p in zip(se, pe)]
    res = ModelfitResults(ofv=ofv, minimization_successful=ms, parameter_estimates=pd.Series(pe, index=names),
                          standard_errors=pd.Series(se, index=names), relative_standard_errors=pd.Series(rse, index=names),
                          runtime_total=2.5, log=Log())
    try:
        df = summarize_modelfit_results_from_entries([ModelEntry.create(m, modelfit_results=res)])
    except Exception as e:
        return [("summ-raises:" + type(e).__name__, f"summarize_modelfit_results_from_entries raised {type(e).__name__}: {e}")], 0
    fails, ncmp = [], 0
    try:
        row = df.loc[m.name]
        ncmp += _cmp(fails, "summary-ofv", "ofv", row["ofv"], ofv)
        if bool(row["minimization_successful"]) != ms:
            fails.append(("summary-minsucc", f"minimization_successful {row['minimization_successful']} want {ms}"))
        for nme, p, s, r in zip(names, pe, se, rse):
            ncmp += _cmp(fails, "summary-estimate", f"{nme}_estimate", row[f"{nme}_estimate"], p)
            ncmp += _cmp(fails, "summary-se", f"{nme}_SE", row[f"{nme}_SE"], s)
            ncmp += _cmp(fails, "summary-rse", f"{nme}_RSE", row[f"{nme}_RSE"], r)
    except Exception as e:
        fails.append(("summ-shape:" + type(e).__name__, f"result not readable: {type(e).__name__}: {e}"))
    return fails, ncmp


BOOT_VARIANTS = [(True, True, True), (True, False, False), (False, False, True), (True, True, False)]
CDD_VARIANTS = [(None, False), (1, False), (None, True)]


def _chunks(seq, nchunks, i):
    return [x for j, x in enumerate(seq) if j % nchunks == i]


def _weight(shard):
    """rough relative cost of a shard (only used to schedule heavy shards first)"""
    k = shard[0]
    if k == "rank":
        _, tup, lead, menu, kinds, strictnesses, mode = shard
        nm = {"full": 7, "small": 4, "strict": 7, "bic": 5, "tiny": 3}[menu]
        n = nm ** (len(tup) - len(lead)) * len(strictnesses)
        per = {"cheap": 60, "bic": 2500, "all": 2500}[kinds] * (12 if mode == "best" else 1)
        return n * per
    if k == "strict":
        return 2000 * (shard[2] - shard[1])
    if k == "boot":
        return 50000
    if k == "cdd":
        return 300000
    if k in ("shrink", "ishrink", "simeval"):
        return 500000
    return 100000


def stat_shards(tier):
    out = []
    if tier == "quick":
        for i in range(12):
            out.append(("boot", 2, 3, 12, i))
        for i in range(6):
            out.append(("boot", 2, 4, 6 * 8, i * 8))      # every 8th chunk of 48: a 1/8 slice of the 4-row tables
        for i in range(6):
            out.append(("cdd", 3, 6, i))
        out.append(("shrink", 0, (2, 3)))
        out.append(("shrink", 9, (2,)))
        out.append(("shrink", 5, (2,)))
        out.append(("shrink", 6, (2,)))  # three etas whose omega names are not in alphabetical order
    else:
        for n, nch in ((3, 4), (4, 16), (5, 32), (6, 80)):
            for i in range(nch):
                out.append(("boot", 2, n, nch, i))
        for i in range(32):
            out.append(("boot", 3, 3, 32 * 8, i * 8))
        for n, nch in ((3, 4), (4, 12), (5, 24)):
            for i in range(nch):
                out.append(("cdd", n, nch, i))
        for ci in (0, 9, 5):
            out.append(("shrink", ci, (2, 3, 4)))
        out.append(("shrink", 6, (2,)))
    out.append(("bootbig",))
    out.append(("ishrink",))
    out.append(("delta",))
    out.append(("simeval",))
    out.append(("summ",))
    return out


def _stat_case(res, kind, fails, ncmp, witness, sample):
    res["states"] += 1
    res["transitions"] += 1
    res["evaluations"] += 1
    res["traces_validated_against_impl"] += 1
    if ncmp >= 1:
        res["distinct_nontrivial"] += 1
    _out(res, f"ok:{kind}" if not fails else f"fail:{kind}")
    seen = set()
    for cls, text in fails:
        if cls in seen:
            continue
        seen.add(cls)
        w = dict(witness)
        w["class"] = cls
        w["what"] = f"{text} | {sample}"
        _viol(res, w)
    if res["states"] % 211 == 1 and len(res["samples"]) < 2:
        res["samples"].append(sample)


def _stat_shard(res, shard, tier):
    kind = shard[0]
    if kind == "boot":
        _, p, n, nch, ci = shard
        for idx, rows in enumerate(row_multisets(p, n)):
            if idx % nch != ci:
                continue
            bv = BOOT_VARIANTS[idx % len(BOOT_VARIANTS)]
            variant = bv + (idx % 16 != 5, idx % 2 == 1)
            fails, ncmp = run_boot_case(rows, variant)
            _stat_case(res, "boot", fails, ncmp, {"kind": "boot", "rows": [list(r) for r in rows], "variant": list(variant)},
                       f"bootstrap replicates {[list(r) for r in rows]} variant(orig,incl,dofv,patched,reversed)={variant}")
    elif kind == "bootbig":
        idx = 0
        for n in ((7, 10, 50) if tier == "quick" else (7, 10, 25, 49, 50)):
            for a in ((1, 3) if tier == "quick" else (1, 2, 3, 5)):
                for b in (1, 2):
                    rows = big_table(n, a, b)
                    variant = BOOT_VARIANTS[idx % len(BOOT_VARIANTS)] + (idx % 4 != 1, False)
                    idx += 1
                    fails, ncmp = run_boot_case(rows, variant)
                    _stat_case(res, "boot", fails, ncmp, {"kind": "boot", "rows": [list(r) for r in rows], "variant": list(variant)},
                               f"bootstrap {n} replicates, arithmetic family a={a} b={b}: {[list(r) for r in rows[:6]]}... variant={variant}")
    elif kind == "cdd":
        _, n, nch, ci = shard
        for idx, rows in enumerate(row_multisets(2, n)):
            if idx % nch != ci:
                continue
            for covi in ((idx % 4,) if tier == "quick" else range(4)):
                cv = CDD_VARIANTS[(idx + covi) % len(CDD_VARIANTS)]
                variant = cv + (idx % 2 == 1,)
                fails, ncmp = run_cdd_case(rows, covi, variant)
                _stat_case(res, "cdd", fails, ncmp, {"kind": "cdd", "rows": [list(r) for r in rows], "cov": covi, "variant": list(variant)},
                           f"cdd case estimates {[list(r) for r in rows]} base cov {COV2[covi]} variant(none_idx,multi_skip,reversed)={variant}")
    elif kind == "shrink":
        _, ci, ns = shard
        netas = len(corpus()[ci][0].random_variables.etas.names)
        for n in ns:
            for rows in row_multisets(netas, n):
                for omi in range(len(OMEGA_MENU)):
                    for sd in (False, True):
                        for order in (("model", "reversed", "sorted") if omi == 0 else ("model",)):
                            fails, ncmp = run_shrink_case(ci, rows, omi, sd, order)
                            _stat_case(res, "shrink", fails, ncmp, {"kind": "shrink", "model": ci, "rows": [list(r) for r in rows], "omi": omi, "sd": sd,
                                                                    "order": order},
                                       f"eta table {[list(r) for r in rows]} model m{ci}{list(CORPUS_KEYS[ci])} omegas={OMEGA_MENU[omi]} sd={sd} "
                                       f"estimates in {order} order")
    elif kind == "ishrink":
        dm = [0.5, 1.0, 2.5]
        for ci in SHRINK_MODELS:
            netas = len(corpus()[ci][0].random_variables.etas.names)
            rowtypes = list(itertools.product(dm, repeat=netas))
            for n in (2, 3):
                if netas == 3 and n == 3:
                    continue
                for rows in itertools.combinations_with_replacement(rowtypes, n):
                    for omi in range(len(OMEGA_MENU)):
                        fails, ncmp = run_ishrink_case(ci, rows, omi)
                        _stat_case(res, "ishrink", fails, ncmp, {"kind": "ishrink", "model": ci, "rows": [list(r) for r in rows], "omi": omi},
                                   f"individual eta variances {[list(r) for r in rows]} model m{ci} omegas={OMEGA_MENU[omi]}")
    elif kind == "delta":
        for expr in DELTA_EXPRS:
            for x in DELTA_VALS:
                for y in DELTA_VALS:
                    for covi in range(len(COV3)):
                        for oi in range(len(COV3_ORDERS)):
                            ser = (covi + oi) % 2 == 0
                            fails, ncmp = run_delta_case(expr, x, y, covi, oi, ser)
                            _stat_case(res, "delta", fails, ncmp, {"kind": "delta", "expr": expr, "x": x, "y": y, "cov": covi, "order": oi, "series": ser},
                                       f"se_delta_method({expr}; x={x}, y={y}; cov #{covi} in order {COV3_ORDERS[oi]})")
    elif kind == "simeval":
        for nind, ns in (((2, 3),) if tier == "quick" else ((2, 3), (2, 4), (3, 3))):
            rowtypes = list(itertools.product(ALPHA, repeat=nind))
            for table in itertools.combinations_with_replacement(rowtypes, ns):
                if nind == 3 and (sum(map(sum, table)) * 2) % 3 != 0:
                    continue  # a fixed third of the 3-individual tables
                orig = tuple(ALPHA[(i + len(table)) % 4] + 3.0 for i in range(nind))
                fails, ncmp = run_simeval_case(table, orig)
                _stat_case(res, "simeval", fails, ncmp, {"kind": "simeval", "table": [list(s) for s in table], "orig": list(orig)},
                           f"simeval sampled iofv {[list(s) for s in table]} original {list(orig)}")
    elif kind == "summ":
        for ci in range(len(CORPUS_KEYS)):
            for ofv in (-10.0, 3.84):
                for ms in (True, False):
                    fails, ncmp = run_summ_case(ci, ofv, ms)
                    _stat_case(res, "summ", fails, ncmp, {"kind": "summ", "model": ci, "ofv": ofv, "ms": ms},
                               f"summarize_modelfit_results_from_entries m{ci} ofv={ofv} ms={ms}")
    else:
        raise HarnessError(f"unknown shard {shard!r}")


def _replay_stat(w):
    k = w["kind"]
    if k == "boot":
        fails, _ = run_boot_case([tuple(r) for r in w["rows"]], tuple(w["variant"][:4]) + (False,))
        if w["variant"][4]:
            fails, _ = run_boot_case([tuple(r) for r in w["rows"]], tuple(w["variant"]))
    elif k == "cdd":
        fails, _ = run_cdd_case([tuple(r) for r in w["rows"]], w["cov"], tuple(w["variant"]))
    elif k == "shrink":
        fails, _ = run_shrink_case(w["model"], [tuple(r) for r in w["rows"]], w["omi"], w["sd"], w.get("order", "model"))
    elif k == "ishrink":
        fails, _ = run_ishrink_case(w["model"], [tuple(r) for r in w["rows"]], w["omi"])
    elif k == "delta":
        fails, _ = run_delta_case(w["expr"], w["x"], w["y"], w["cov"], w["order"], w["series"])
    elif k == "simeval":
        fails, _ = run_simeval_case(tuple(tuple(s) for s in w["table"]), tuple(w["orig"]))
    elif k == "summ":
        fails, _ = run_summ_case(w["model"], w["ofv"], w["ms"])
    else:
        return [f"unknown witness kind {k}"]
    return [t for c, t in fails if c == w.get("class", c)]


# ----------------------------------------------------------------------------- runner API
def shards(tier):
    corpus()  # build once in the parent
    out = []
    # --- ranking
    if tier == "quick":
        t3 = TUPLES3_QUICK
        for tup in t3[:1]:
            for o in OPT_FULL:
                out.append(("rank", tup, (o,), "full", "cheap", ("minimization_successful",), "rank"))
        for tup in t3[1:]:
            for o in OPT_SMALL:
                out.append(("rank", tup, (o,), "small", "cheap", ("minimization_successful",), "rank"))
        for tup in t3[1:2]:
            for o in OPT_STRICT:
                out.append(("rank", tup[:3], (o,), "strict", "cheap", tuple(STRICT_RANK[:3]), "rank"))
        for tup in TUPLES_BIC[:4]:
            for o in OPT_BIC[:3]:
                out.append(("rank", tup[:2], (o,), "bic", "bic", ("minimization_successful",), "rank"))
        for tup in t3[:2]:
            for o in OPT_SMALL:
                out.append(("rank", tup[:3], (o,), "small", "cheap", ("minimization_successful",), "best"))
    else:
        for tup in TUPLES3_QUICK + TUPLES3_MORE:
            for o in OPT_FULL:
                out.append(("rank", tup, (o,), "full", "cheap", ("minimization_successful",), "rank"))
        for tup in TUPLES4:
            for o in OPT_FULL:
                out.append(("rank", tup, (o,), "full", "cheap", ("minimization_successful",), "rank"))
        for tup in TUPLES5:
            for o in OPT_SMALL:
                out.append(("rank", tup, (o,), "small", "cheap", ("minimization_successful",), "rank"))
        for tup in TUPLES7:
            for o in OPT_TINY:
                for o2 in OPT_TINY:
                    out.append(("rank", tup, (o, o2), "tiny", "cheap", ("minimization_successful",), "rank"))
        for tup in TUPLES3_QUICK:
            for o in OPT_STRICT:
                out.append(("rank", tup[:3], (o,), "strict", "cheap", tuple(STRICT_RANK), "rank"))
        for o in OPT_STRICT:
            out.append(("rank", TUPLES3_QUICK[1], (o,), "strict", "cheap", tuple(STRICT_RANK), "rank"))
        for tup in TUPLES_BIC:
            for o in OPT_BIC:
                out.append(("rank", tup, (o,), "bic", "bic", ("minimization_successful",), "rank"))
        for tup in TUPLES3_QUICK:
            for o in OPT_FULL:
                out.append(("rank", tup[:3], (o,), "full", "cheap", ("minimization_successful",), "best"))
    # k = 0, 1, 2 (small sets, full menu)
    for j, tup in enumerate(TUPLES3_QUICK if tier == "quick" else TUPLES3_QUICK + TUPLES3_MORE):
        out.append(("rank", tup[:1], (), "full", "cheap", ("minimization_successful",), "rank"))
        out.append(("rank", tup[:2], (), "full", "cheap", ("minimization_successful", ""), "rank"))
        if tier != "quick" or j % 2 == 1:
            out.append(("rank", tup[:3], (), "full", "cheap", ("minimization_successful",), "rank"))
    # --- strictness expressions
    n = len(strictness_expressions(tier))
    step = 150 if tier == "quick" else 1000
    for lo in range(0, n, step):
        out.append(("strict", lo, min(n, lo + step)))
    # --- scalars
    out.append(("crit", "crit"))
    for pi in range(12):
        out.append(("crit", "lrt", pi))
    for pi in (0, 3, 7):
        out.append(("crit", "bom", pi))
    out += stat_shards(tier)
    out.sort(key=_weight, reverse=True)  # heavy shards first (stable)
    only = os.environ.get("VERIF_C19_ONLY")  # debugging aid (mutant runs): comma separated shard kinds
    if only:
        keep = set(only.split(","))
        out = [s for s in out if s[0] in keep or (s[0] == "rank" and s[6] in keep)]
    return out


def run_shard(shard, tier):
    res = _new_res()
    with warnings.catch_warnings():
        warnings.simplefilter("ignore")
        kind = shard[0]
        if kind == "rank":
            _rank_shard(res, shard)
        elif kind == "strict":
            _strict_shard(res, shard, tier)
        elif kind == "crit":
            _crit_shard(res, shard, tier)
        else:
            _stat_shard(res, shard, tier)
    return res


def post(tot, tier):
    """make the merged result independent of the order in which workers finished"""
    tot["samples"] = sorted(tot["samples"], key=str)
    tot["violations"] = sorted(tot["violations"], key=lambda w: (len(str(w)), str(w)))


def replay(w):
    with warnings.catch_warnings():
        warnings.simplefilter("ignore")
        return _replay(w)


def _replay(w):
    k = w["kind"]
    if k in ("rank", "best"):
        opts = tuple((_uj(o[0]) if o[0] is not None else NAN, o[1]) for o in w["opts"])
        fails, _ = run_rank_case(tuple(w["tuple"]), opts, _cfg_from_json(w["cfg"]), w["strictness"], k)
        return [t for c, t in fails]
    if k == "strict":
        _, _, fails = run_strict_case(w["model"], _prof_from_json(w["profile"]), w["expr"])
        return [t for c, t in fails]
    if k == "crit":
        return [t for c, t in run_crit_case(w["model"], w["ofv"])]
    if k == "lrt":
        fails, _ = run_lrt_case(w["parent"], w["child"], _uj(w["pofv"]), _uj(w["cofv"]), w["alpha"])
        return [t for c, t in fails]
    if k == "bom":
        fails, _ = run_bom_case(w["parent"], w["cands"], w["pofv"], [_uj(x) for x in w["cofvs"]], w["alpha"])
        return [t for c, t in fails]
    return _replay_stat(w)


KNOWN_PATTERNS = (
    "rank_models-cutoff-equality-excluded",
    "is_strictness_fulfilled-rse-shadowed-by-rse_kind-series",
    "is_strictness_fulfilled-fzg-omega-sigma-nan-test-reads-theta-rows",
    "summarize_tool-lrt-tests-against-start-model-not-modelentry-parent",
)


def classify(w):
    k = w.get("kind")
    cls = w.get("class", "")
    if cls in KNOWN_PATTERNS:
        return cls
    if k in ("rank", "best") and cls.endswith("excluded-eligible:cutoff_equal"):
        # rank_models: `if ref_value - rank_value <= cutoff: continue` although the documentation
        # only excludes candidates BELOW the cut-off
        return KNOWN_PATTERNS[0]
    if k == "best" and w.get("cfg", [None] * 5)[0] == "lrt" and w["cfg"][4] == "chain" and w.get("rows") and (
            cls.startswith("best:ranked-ineligible:lrt") or cls.startswith("best:excluded-eligible:lrt")):
        # tools.common.summarize_tool lists ModelEntry.parent as parent_model but calls rank_models without
        # parent_dict: recognised when the table is exactly the reference ranking with base as everybody's parent
        try:
            tup = tuple(w["tuple"])
            opts = tuple((_uj(o[0]), o[1]) for o in w["opts"])
            rt, bt, co, pen, _pm = _cfg_from_json(w["cfg"])
            cor = corpus()
            strict_ok = [opt_strict(i, o, w["strictness"]) for i, o in zip(tup, opts)]
            ref = R.ref_rank([cor[i][1] for i in tup], [o[0] for o in opts], strict_ok, rt, bt, co,
                             list(pen) if pen else None, parents_of("base", len(tup) - 1))
            rows = [(r[0],) + tuple(_uj(x) for x in r[1:]) for r in w["rows"]]
            if not R.check_table(ref, rows):
                return KNOWN_PATTERNS[3]
        except Exception:
            return None
    if k == "strict":
        names = set(R.names_in(w["expr"]))
        if (cls.startswith("strictness-raises:ValueError") and "rse" in names
                and names & {"rse_theta", "rse_omega", "rse_sigma"} and "truth value of a Series" in w.get("what", "")):
            # is_strictness_fulfilled: local `rse` (ArrayEvaluator) is overwritten by the raw Series in the
            # rse_theta/rse_omega/rse_sigma block
            return KNOWN_PATTERNS[1]
        if cls.startswith("strictness-value") and names & {"final_zero_gradient_omega", "final_zero_gradient_sigma"}:
            prof = _prof_from_json(w["profile"])
            a = corpus()[w["model"]][1]
            try:
                v = R.evaluate(R.parse(w["expr"]), R.fzg_env_theta_rows(a, prof))
            except Exception:
                return None
            if v is not R.AMBIG and v == w.get("got") and v != w.get("want"):
                # the isnull() part of final_zero_gradient_omega/_sigma is taken over the theta rows
                return KNOWN_PATTERNS[2]
    return None
