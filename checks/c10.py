"""C10 - statement dataflow analyses are sound.

Bounded-exhaustive enumeration of straight-line programs (prefix tree: state = program
prefix, transition = append one statement) over a small alphabet; every query of
`Statements` is compared with a reference interpreter (sequential environment update +
reaching definitions).
"""
from __future__ import annotations

import itertools

PROPERTY = "C10"
LEVEL = "model_checking"
ENGINE = "enumx"
TECHNIQUE = "explicit-state bounded exhaustive enumeration of statement programs (prefix transition system), every query checked against a reference interpreter"
LEVEL_TEXT = (
    "Every straight-line program up to the stated length over the stated statement alphabet is generated "
    "(no sampling) and every Statements query on it is compared with a sequential reference interpreter; "
    "this is the right level because the property quantifies over all programs and its known failure modes "
    "(redefinition, self reference, use before definition, dead users) have witnesses of length <= 3."
)
LEVEL_NOTE = (
    "trusted: the 60-line reference interpreter and the tree evaluator vlib/xeval.py; values compared on 3 numeric "
    "environments; nothing is claimed for programs longer than the bound or rhs shapes outside the menu"
)
PREIMPORT = ("pharmpy.model", "pharmpy.modeling")
RULE = (
    "all straight-line programs (canonical up to renaming of the assigned symbols A,B,C) of "
    "length <= bound over the rhs menu {leaf, s, s+leaf, s*t, Piecewise((s,X>0),(t,True))}, with an "
    "optional 2-compartment ODE system at every position; a program is non-trivial when some symbol "
    "is redefined, self-referencing, used before definition, or an ODE system is present; state = "
    "program prefix, transition = append one statement; every query is compared with the reference "
    "interpreter on 3 numeric environments"
)
ASSUMPTIONS = [
    "values are compared on 3 fixed numeric environments covering both signs of X (Piecewise branches)",
    "compartment amounts are modelled as an opaque injective-in-practice function of the ODE right-hand-side symbols",
    "statements that occur twice verbatim in one program are only queried by symbol, never by statement "
    "(the API identifies a statement by value)",
]
BOUNDS = {
    "quick": "full rhs menu: length<=3; structural menu {leaf,s,s+t}: length<=3; copy-chain menu {P,s}: length<=5; ODE menu: length<=3 (+ODE)",
    "thorough": "full rhs menu: length<=3; structural menu: length<=4; copy-chain menu: length<=6; ODE menu: length<=3 (3 rate tuples) and length<=4 (1 rate tuple)",
}

SYMS = ["A", "B", "C"]
LEAVES = ["P", "E", "X"]


# ----------------------------------------------------------------------------- generation
def rhs_menu(kind):
    """List of rhs descriptions (tuples)"""
    out = []
    if kind == "full":
        for leaf in LEAVES:
            out.append(("leaf", leaf))
        for s in SYMS:
            out.append(("sym", s))
        for s in SYMS:
            for leaf in ("P", "E"):
                out.append(("add", s, leaf))
        for s, t in itertools.combinations_with_replacement(SYMS, 2):
            out.append(("mul", s, t))
        for s, t in itertools.permutations(SYMS, 2):
            out.append(("pw", s, t))
        for s in SYMS:
            out.append(("pw", s, "P"))
    elif kind == "fullq":
        for leaf in LEAVES:
            out.append(("leaf", leaf))
        for s in SYMS:
            out.append(("sym", s))
        for s in SYMS:
            out.append(("add", s, "P"))
        out.append(("add", "A", "E"))
        for s, t in (("A", "A"), ("A", "B"), ("B", "C")):
            out.append(("mul", s, t))
        for s, t in (("A", "B"), ("B", "A"), ("A", "C")):
            out.append(("pw", s, t))
        out.append(("pw", "A", "P"))
    elif kind == "chain":
        # pure copy chains: long dependency chains through several symbols (depth of the dependency graph, not width)
        out.append(("leaf", "P"))
        for s in SYMS:
            out.append(("sym", s))
    elif kind == "struct":
        out.append(("leaf", "P"))
        out.append(("leaf", "X"))
        for s in SYMS:
            out.append(("sym", s))
        for s, t in itertools.combinations(SYMS, 2):
            out.append(("add", s, t))
        for s in SYMS:
            out.append(("add", s, "E"))
    elif kind in ("ode", "ode1"):
        out.append(("leaf", "P"))
        for s in SYMS:
            out.append(("sym", s))
        out.append(("add", "A", "B"))
        out.append(("add", "B", "E"))
        out.append(("amt", "A_CENTRAL"))
        out.append(("addamt", "A", "A_PERIPHERAL"))
        out.append(("pw", "A", "B"))
    return out


# (k12, k21, ke, zero-order input of the dose-less peripheral compartment)
ODE_RATES_ALL = [("A", "B", "P", "P"), ("C", "C", "A", "A"), ("P", "B", "B", "E")]


def ode_rates(kind):
    return ODE_RATES_ALL[:1] if kind == "ode1" else ODE_RATES_ALL


def canonical(prog):
    """True iff assigned-symbol names appear in order of first mention (A before B before C)."""
    nxt = 0
    for st in prog:
        for name in st_mentions(st):
            if name in SYMS:
                i = SYMS.index(name)
                if i > nxt:
                    return False
                if i == nxt:
                    nxt += 1
    return True


def st_mentions(st):
    if st[0] == "ode":
        return list(st[1])
    lhs, rhs = st
    return [lhs] + [x for x in rhs[1:] if isinstance(x, str)]


def all_statements(kind, with_ode):
    menu = rhs_menu(kind)
    out = [(lhs, rhs) for lhs in SYMS for rhs in menu]
    if with_ode:
        out += [("ode", r) for r in ode_rates(kind)]
    return out


def legal(prog, with_ode):
    """canonical naming, at most one ODE system, amounts only used after it"""
    seen_ode = False
    for st in prog:
        if st[0] == "ode":
            if seen_ode or not with_ode:
                return False
            seen_ode = True
        elif st[1][0] in ("amt", "addamt") and not seen_ode:
            return False
    return canonical(prog)


def nassign(prog):
    return sum(1 for s in prog if s[0] != "ode")


def extensions(kind, maxlen, prefix, with_ode):
    """The legal program `prefix` and all its legal extensions with <= maxlen assignments."""
    stmts = all_statements(kind, with_ode)

    def rec(prog):
        yield prog
        for st in stmts:
            if st[0] != "ode" and nassign(prog) >= maxlen:
                continue
            p2 = prog + [st]
            if legal(p2, with_ode):
                yield from rec(p2)

    if legal(prefix, with_ode) and nassign(prefix) <= maxlen:
        yield from rec(list(prefix))


def prefixes(kind, maxlen, with_ode, depth=2):
    """(short programs of length < depth, legal prefixes of length == depth)"""
    stmts = all_statements(kind, with_ode)
    short, pref = [], []
    level = [[]]
    for d in range(depth):
        nxt = []
        for p in level:
            for st in stmts:
                p2 = p + [st]
                if legal(p2, with_ode) and nassign(p2) <= maxlen:
                    nxt.append(p2)
        if d < depth - 1:
            short.extend(nxt)
        level = nxt
    pref = level
    return short, pref


# ----------------------------------------------------------------------------- building
def build(prog):
    from pharmpy.basic import Expr
    from pharmpy.model import (
        Assignment,
        Bolus,
        Compartment,
        Infusion,
        CompartmentalSystem,
        CompartmentalSystemBuilder,
        Statements,
        output,
    )

    sts = []
    for st in prog:
        if st[0] == "ode":
            k12, k21, ke, kin = st[1]
            cb = CompartmentalSystemBuilder()
            # two doses: the symbols of both belong to the system (an infusion with a duration symbol, then the bolus)
            cen = Compartment.create("CENTRAL", doses=(Infusion.create("AMT", duration="R"), Bolus.create("AMT")))
            per = Compartment.create("PERIPHERAL", input=Expr.symbol(kin))
            cb.add_compartment(cen)
            cb.add_compartment(per)
            cb.add_flow(cen, per, Expr.symbol(k12))
            cb.add_flow(per, cen, Expr.symbol(k21))
            cb.add_flow(cen, output, Expr.symbol(ke))
            sts.append(CompartmentalSystem(cb))
            continue
        lhs, rhs = st
        sts.append(Assignment.create(Expr.symbol(lhs), rhs_expr(rhs)))
    return Statements(sts)


def rhs_expr(rhs):
    from pharmpy.basic import Expr

    k = rhs[0]
    S = Expr.symbol
    if k in ("leaf", "sym"):
        return S(rhs[1])
    if k == "add":
        return S(rhs[1]) + S(rhs[2])
    if k == "mul":
        return S(rhs[1]) * S(rhs[2])
    if k == "pw":
        return Expr.piecewise((S(rhs[1]), S("X") > 0), (S(rhs[2]), True))
    if k == "amt":
        return Expr.function(rhs[1], S("t"))
    if k == "addamt":
        return S(rhs[1]) + Expr.function(rhs[2], S("t"))
    raise ValueError(k)


# ----------------------------------------------------------------------------- reference
ENVS = [
    {"A": 1.37, "B": -2.11, "C": 0.59, "P": 3.3, "E": -0.7, "X": 2.0, "AMT": 100.0, "t": 1.5,
     "D": 7.7, "Q": 5.1, "R": 2.25},
    {"A": -0.43, "B": 1.91, "C": 2.77, "P": 0.81, "E": 1.3, "X": -1.0, "AMT": 50.0, "t": 0.5,
     "D": -3.1, "Q": 0.3, "R": 1.75},
    {"A": 2.9, "B": 0.23, "C": -1.61, "P": -1.7, "E": 0.37, "X": 0.0, "AMT": 10.0, "t": 2.5,
     "D": 1.9, "Q": -2.2, "R": 0.5},
]
AMTS = ["A_CENTRAL", "A_PERIPHERAL"]
for _i, _e in enumerate(ENVS):  # amounts read without an ODE system are free inputs
    _e["A_CENTRAL"] = 11.1 + _i
    _e["A_PERIPHERAL"] = -4.4 - _i


def rhs_names(rhs):
    k = rhs[0]
    if k in ("leaf", "sym"):
        return [rhs[1]]
    if k in ("add", "mul"):
        return [rhs[1], rhs[2]]
    if k == "pw":
        return [rhs[1], rhs[2], "X"]
    if k == "amt":
        return [rhs[1]]
    if k == "addamt":
        return [rhs[1], rhs[2]]
    raise ValueError(k)


def rhs_val(rhs, env):
    k = rhs[0]
    if k in ("leaf", "sym", "amt"):
        return env[rhs[1]]
    if k in ("add", "addamt"):
        return env[rhs[1]] + env[rhs[2]]
    if k == "mul":
        return env[rhs[1]] * env[rhs[2]]
    if k == "pw":
        return env[rhs[1]] if env["X"] > 0 else env[rhs[2]]
    raise ValueError(k)


def ode_names(st):
    return list(dict.fromkeys(list(st[1]) + ["AMT", "R"]))


def amount_val(idx, names, env):
    vals = [env[n] for n in sorted(set(names))]
    return 1.7 * (idx + 1) + sum((0.31 + 0.17 * k) * v for k, v in enumerate(vals)) + 0.05 * sum(
        v * v for v in vals
    )


def ref_run(prog, env0):
    """Execute; returns (final env, list of value computed by each statement (None for ODE))."""
    env = dict(env0)
    vals = []
    for st in prog:
        if st[0] == "ode":
            names = ode_names(st)
            new = {a: amount_val(i, names, env) for i, a in enumerate(AMTS)}
            env.update(new)
            vals.append(tuple(new[a] for a in AMTS))
        else:
            v = rhs_val(st[1], env)
            env[st[0]] = v
            vals.append(v)
    return env, vals


def ref_deps(prog):
    """Per statement: set of leaf/free names its value truly depends on (reaching definitions)."""
    last = {}  # name -> index of reaching definition
    deps = []
    for i, st in enumerate(prog):
        names = ode_names(st) if st[0] == "ode" else rhs_names(st[1])
        d = set()
        for n in names:
            if n in last:
                d |= deps[last[n]]
            else:
                d.add(n)
        deps.append(d)
        if st[0] == "ode":
            for a in AMTS:
                last[a] = i
        else:
            last[st[0]] = i
    return deps


def defined_syms(prog):
    out = []
    for st in prog:
        if st[0] == "ode":
            out.extend(AMTS)
        else:
            out.append(st[0])
    return out


def nontrivial(prog):
    seen = set()
    for st in prog:
        if st[0] == "ode":
            return True
        lhs, rhs = st
        names = rhs_names(rhs)
        if lhs in seen or lhs in names:
            return True
        for n in names:
            if n in SYMS and n not in seen:
                return True
        seen.add(lhs)
    return False


# ----------------------------------------------------------------------------- the oracle
def _envnames(env):
    e = dict(env)
    for a in AMTS:
        if a in e:
            e[a + "(t)"] = e[a]
    return e


def check_program(prog):
    """Return list of failure dicts for this program (empty = all oracles hold)."""
    from pharmpy.basic import Expr
    from pharmpy.model import Assignment, CompartmentalSystem, Statements

    from vlib.xeval import Undefined, close, ev

    fails = []

    def fail(q, what):
        fails.append({"query": q, "what": f"{q}: {what}"})

    try:
        stats = build(prog)
    except Exception as e:  # construction is plain API use
        fail("build", f"{type(e).__name__}: {e}")
        return fails
    has_ode = any(st[0] == "ode" for st in prog)
    n = len(prog)
    finals = [ref_run(prog, env) for env in ENVS]
    deps = ref_deps(prog)
    defs = defined_syms(prog)
    counts = {}
    for d in defs:
        counts[d] = counts.get(d, 0) + 1
    no_redef = all(c == 1 for c in counts.values())
    LEAF = set(LEAVES) | {"AMT", "R"}  # dose symbols are inputs of the system too
    last_index = {}
    for i, st in enumerate(prog):
        if st[0] == "ode":
            for a in AMTS:
                last_index[a] = i
        else:
            last_index[st[0]] = i

    # ---- find_assignment / find_assignment_index
    for s in SYMS:
        want = None
        for i, st in enumerate(prog):
            if st[0] == s:
                want = i
        try:
            gi = stats.find_assignment_index(s)
            ga = stats.find_assignment(s)
        except Exception as e:
            fail("find_assignment", f"{s}: {type(e).__name__}: {e}")
            continue
        if gi != want:
            fail("find_assignment", f"index of {s}: got {gi} want {want}")
        elif want is not None and ga != stats[want]:
            fail("find_assignment", f"statement of {s} differs")

    # ---- full_expression
    for s in SYMS + ["P"]:
        if has_ode:
            # documented refusal for the whole list; the before/after parts are checked
            # through the ODE-free programs
            try:
                stats.full_expression(s)
                fail("full_expression", "no ValueError with an ODE system present")
            except ValueError:
                pass
            except Exception as e:
                fail("full_expression", f"{s}: {type(e).__name__}: {e}")
            break
        try:
            fe = stats.full_expression(s)
        except Exception as e:
            fail("full_expression", f"{s}: {type(e).__name__}: {e}")
            continue
        for env0, (envf, _) in zip(ENVS, finals):
            try:
                got = ev(fe, env0)
            except Undefined as e:
                fail("full_expression", f"{s}: not evaluable: {e}")
                break
            if not close(got, envf[s]):
                fail("full_expression", f"{s}: value {got} != sequential value {envf[s]} ({fe})")
                break

    # ---- dependencies
    for s in dict.fromkeys(defs):
        i = last_index[s]
        q = Expr.function(s, Expr.symbol("t")) if s in AMTS else s
        try:
            got = stats.dependencies(q)
        except Exception as e:
            fail("dependencies", f"{s}: {type(e).__name__}: {e}")
            continue
        got_leaves = {str(x) for x in got} & LEAF
        true_leaves = deps[i] & LEAF
        if not got_leaves >= true_leaves:
            fail("dependencies", f"{s}: reported {sorted(got_leaves)} misses {sorted(true_leaves - got_leaves)}")
        elif no_redef and got_leaves != true_leaves:
            fail("dependencies", f"{s}: reported {sorted(got_leaves)} but exactly {sorted(true_leaves)} "
                                 "(no symbol assigned twice)")
    # undefined symbol: documented KeyError
    for s in SYMS:
        if s not in counts:
            try:
                stats.dependencies(s)
                fail("dependencies", f"{s} undefined but no KeyError")
            except KeyError:
                pass
            except Exception as e:
                fail("dependencies", f"undefined {s}: {type(e).__name__}: {e}")
            break

    # which statements are unique by value
    sl = list(stats)
    uniq = [sum(1 for y in sl if y == x) == 1 for x in sl]

    # ---- direct_dependencies (by statement)
    for i, st in enumerate(prog):
        if not uniq[i]:
            continue
        try:
            dd = stats.direct_dependencies(stats[i])
        except Exception as e:
            fail("direct_dependencies", f"stmt {i}: {type(e).__name__}: {e}")
            continue
        got_idx = set()
        ok = True
        for d in dd:
            idxs = [j for j, y in enumerate(sl) if y == d]
            if not idxs:
                ok = False
            got_idx.update(idxs)
        if not ok:
            fail("direct_dependencies", f"stmt {i}: returned a statement not in the list")
            continue
        # true direct dependencies: reaching definition of each rhs name
        names = ode_names(st) if st[0] == "ode" else rhs_names(st[1])
        need = set()
        for nme in names:
            for j in range(i - 1, -1, -1):
                stj = prog[j]
                if (stj[0] == "ode" and nme in AMTS) or (stj[0] != "ode" and stj[0] == nme):
                    need.add(j)
                    break
        if not need <= got_idx:
            fail("direct_dependencies", f"stmt {i}: misses reaching definitions {sorted(need - got_idx)}")
        if any(j >= i for j in got_idx if uniq[j]):
            fail("direct_dependencies", f"stmt {i}: reports a later statement")

    # ---- reassign
    for s in SYMS:
        if s not in counts:
            continue
        newrhs = ("add", "P", "X")
        try:
            r = stats.reassign(s, Expr.symbol("P") + Expr.symbol("X"))
        except Exception as e:
            fail("reassign", f"{s}: {type(e).__name__}: {e}")
            continue
        li = last_index[s]
        want_prog = [st for j, st in enumerate(prog) if not (st[0] == s and j != li)]
        want_prog = [(s, newrhs) if (st[0] == s) else st for st in want_prog]
        if r != build(want_prog):
            fail("reassign", f"{s}: result is not 'delete all definitions, redefine at the last position'")

    # ---- subs commutes with execution
    #   (a) injective renaming of an assigned symbol and a leaf to fresh names
    ren = {"A": "D", "P": "Q"}  # an assigned symbol and a parameter (both also occur as zero-order inputs in the ODE menu)
    try:
        rs = stats.subs({Expr.symbol(k): Expr.symbol(v) for k, v in ren.items()})
    except Exception as e:
        fail("subs", f"renaming: {type(e).__name__}: {e}")
        rs = None
    if rs is not None:
        want_prog = rename_prog(prog, ren)
        if rs != build(want_prog):
            fail("subs", "renaming A->D,P->Q is not the renamed program")
    #   (b) leaf -> expression: execution under env == original under env[P := 2*P+X]
    if not has_ode:
        try:
            rs2 = stats.subs({Expr.symbol("P"): 2 * Expr.symbol("P") + Expr.symbol("X")})
            ok = True
        except Exception as e:
            fail("subs", f"leaf->expr: {type(e).__name__}: {e}")
            ok = False
        if ok:
            for env0 in ENVS:
                env1 = dict(env0)
                env1["P"] = 2 * env0["P"] + env0["X"]
                envf, _ = ref_run(prog, env1)
                got = exec_statements(rs2, env0)
                if got is None:
                    fail("subs", "leaf->expr: substituted statements not executable")
                    break
                bad = [s for s in SYMS if s in counts and not close(got[s], envf[s])]
                if bad:
                    fail("subs", f"leaf->expr: value of {bad[0]} differs after substitution")
                    break

    # ---- remove_symbol_definitions
    for k in range(n):
        if not uniq[k]:
            continue
        stk = prog[k]
        direct = set(ode_names(stk) if stk[0] == "ode" else rhs_names(stk[1]))
        cands = [s for s in SYMS if s not in direct and s in counts]
        for r in (1, 2):
            for S in itertools.combinations(cands, r):
                try:
                    res = stats.remove_symbol_definitions([Expr.symbol(s) for s in S], stats[k])
                except Exception as e:
                    fail("remove_symbol_definitions", f"S={S} k={k}: {type(e).__name__}: {e}")
                    continue
                msg = check_removal(prog, sl, list(res), k, S, finals)
                if msg:
                    fail("remove_symbol_definitions", f"S={list(S)} k={k}: {msg}")

    # ---- depends_on (the dependency query behind has_covariate_effect / has_random_effect): sound for the statements
    #      in front of the ODE system - every leaf whose change moves the final value of a symbol must be reported
    import types

    from pharmpy.modeling.expressions import depends_on

    pre = prog[: next((i for i, st in enumerate(prog) if st[0] == "ode"), len(prog))]
    if pre:
        shell = types.SimpleNamespace(statements=stats)
        leaves = sorted({nm for st in pre for nm in rhs_names(st[1])} - {st[0] for st in pre} | {l for l in LEAVES})
        for sname in sorted({st[0] for st in pre}):
            for leaf in leaves:
                moved = False
                for env in ENVS:
                    try:
                        a = ref_run(pre, env)[0].get(sname)
                        e2 = dict(env)
                        e2[leaf] = env.get(leaf, 0.0) + 0.37
                        b = ref_run(pre, e2)[0].get(sname)
                    except Undefined:
                        continue
                    if a is not None and b is not None and not close(a, b):
                        moved = True
                        break
                if not moved:
                    continue
                try:
                    got = depends_on(shell, sname, leaf)
                except Exception as e:
                    fail("depends_on", f"depends_on({sname}, {leaf}): {type(e).__name__}: {e}")
                    continue
                if not got:
                    fail("depends_on", f"depends_on({sname}, {leaf}) is False although the final value of {sname} changes with {leaf}")
    return fails


def rename_prog(prog, ren):
    out = []
    for st in prog:
        if st[0] == "ode":
            out.append(("ode", tuple(ren.get(x, x) for x in st[1])))
        else:
            lhs, rhs = st
            out.append((ren.get(lhs, lhs), (rhs[0],) + tuple(ren.get(x, x) for x in rhs[1:])))
    return out


def exec_statements(stats, env0):
    """Execute real pharmpy statements sequentially with the tree evaluator."""
    from vlib.xeval import Undefined, ev

    env = _envnames(env0)
    for st in stats:
        try:
            env[str(st.symbol)] = ev(st.expression, env)
        except (Undefined, AttributeError):
            return None
    return env


def check_removal(prog, sl, res, k, S, finals):
    """res must be a subsequence of sl keeping statement k; every remaining statement must compute
    the value it computed in the original program."""
    # align as subsequence (greedy from the left is fine: removed statements are identified by
    # position through the alignment; duplicates make alignment ambiguous so try to keep k fixed)
    pos = []
    j = 0
    for st in res:
        while j < len(sl) and sl[j] != st:
            j += 1
        if j == len(sl):
            return "result is not a subsequence of the original statements"
        pos.append(j)
        j += 1
    if k not in pos:
        # maybe alignment chose an equal duplicate; k is unique by construction so this is real
        return f"statement {k} itself was removed"
    removed = [i for i in range(len(sl)) if i not in pos]
    sub = [prog[i] for i in pos]
    from vlib.xeval import close

    for env0, (envf, vals) in zip(ENVS, finals):
        _, vals2 = ref_run(sub, env0)
        for p, v2 in zip(pos, vals2):
            v1 = vals[p]
            if isinstance(v1, tuple):
                same = all(close(a, b) for a, b in zip(v1, v2))
            else:
                same = close(v1, v2)
            if not same:
                return (f"removed statements {removed}; remaining statement {p} "
                        f"({fmt_st(prog[p])}) now computes a different value")
    # completeness is not demanded by the property (removing less is safe)
    return None


def fmt_st(st):
    if st[0] == "ode":
        return "ODE(k12=%s,k21=%s,ke=%s,input=%s)" % st[1]
    lhs, rhs = st
    k = rhs[0]
    if k in ("leaf", "sym"):
        r = rhs[1]
    elif k == "add":
        r = f"{rhs[1]}+{rhs[2]}"
    elif k == "mul":
        r = f"{rhs[1]}*{rhs[2]}"
    elif k == "pw":
        r = f"PW({rhs[1]} if X>0 else {rhs[2]})"
    elif k == "amt":
        r = f"{rhs[1]}(t)"
    else:
        r = f"{rhs[1]}+{rhs[2]}(t)"
    return f"{lhs}={r}"


def fmt(prog):
    return "; ".join(fmt_st(s) for s in prog)


# --------------------------------------------------- remove_unused_parameters_and_rvs on models
def model_cases():
    """(statements program, params, rv layout) for the wrapped-model sub-check."""
    progs = [
        [("A", ("leaf", "P"))],
        [("A", ("leaf", "E")), ("A", ("add", "A", "P"))],
        [("A", ("leaf", "X")), ("B", ("add", "A", "E"))],
        [("A", ("leaf", "P")), ("A", ("leaf", "X"))],
        [("B", ("leaf", "E")), ("A", ("pw", "B", "P"))],
        [("A", ("leaf", "X")), ("A", ("mul", "A", "A"))],
    ]
    layouts = ["sep", "joint_E_E2", "joint_E2_E3"]
    return [(p, lay) for p in progs for lay in layouts]


def check_model_case(prog, layout):
    from pharmpy.basic import Expr
    from pharmpy.model import (
        JointNormalDistribution,
        Model,
        NormalDistribution,
        Parameter,
        Parameters,
        RandomVariables,
    )
    from pharmpy.modeling import remove_unused_parameters_and_rvs

    fails = []
    stats = build(prog)
    params = [Parameter.create("P", 1.0), Parameter.create("P2", 2.0), Parameter.create("PFIX0", 0.0, fix=True),
              Parameter.create("OM_E", 0.1), Parameter.create("OM_E2", 0.2), Parameter.create("OM_E3", 0.3),
              Parameter.create("OM_X", 0.01)]
    if layout == "sep":
        dists = [NormalDistribution.create("E", "iiv", 0, Expr.symbol("OM_E")),
                 NormalDistribution.create("E2", "iiv", 0, Expr.symbol("OM_E2")),
                 NormalDistribution.create("E3", "iiv", 0, Expr.symbol("OM_E3"))]
    elif layout == "joint_E_E2":
        dists = [JointNormalDistribution.create(["E", "E2"], "iiv", [0, 0],
                                                [["OM_E", "OM_X"], ["OM_X", "OM_E2"]]),
                 NormalDistribution.create("E3", "iiv", 0, Expr.symbol("OM_E3"))]
    else:
        dists = [NormalDistribution.create("E", "iiv", 0, Expr.symbol("OM_E")),
                 JointNormalDistribution.create(["E2", "E3"], "iiv", [0, 0],
                                                [["OM_E2", "OM_X"], ["OM_X", "OM_E3"]])]
    if layout == "sep":
        params = [p for p in params if p.name != "OM_X"]
    rvs = RandomVariables.create(dists)
    from pharmpy.model import DataInfo

    model = Model.create(name="m", statements=stats, parameters=Parameters.create(params), random_variables=rvs,
                         datainfo=DataInfo.create(["ID", "X"]))
    try:
        m2 = remove_unused_parameters_and_rvs(model)
    except Exception as e:
        return [{"query": "remove_unused", "what": f"remove_unused_parameters_and_rvs: {type(e).__name__}: {e}"}]
    used = set()
    for st in prog:
        used.add(st[0])
        used.update(rhs_names(st[1]))
    want_rvs = {r for r in ("E", "E2", "E3") if r in used}
    got_rvs = set(m2.random_variables.names)
    if got_rvs != want_rvs:
        fails.append({"query": "remove_unused", "what": f"remove_unused: rvs {sorted(got_rvs)} want {sorted(want_rvs)}"})
    want_p = {p for p in ("P", "P2") if p in used} | {"PFIX0"}
    for r in want_rvs:
        want_p.add("OM_" + r)
    if layout == "joint_E_E2" and {"E", "E2"} <= want_rvs:
        want_p.add("OM_X")
    if layout == "joint_E2_E3" and {"E2", "E3"} <= want_rvs:
        want_p.add("OM_X")
    got_p = set(m2.parameters.names)
    if got_p != want_p:
        fails.append({"query": "remove_unused", "what": f"remove_unused: parameters {sorted(got_p)} want {sorted(want_p)}"})
    if m2.statements != stats:
        fails.append({"query": "remove_unused", "what": "remove_unused: statements changed"})
    return fails


# ----------------------------------------------------------------------------- runner API
PLANS = {
    "quick": [("fullq", 3, False), ("struct", 3, False), ("chain", 5, False), ("ode", 2, True), ("ode1", 3, True)],
    "thorough": [("full", 3, False), ("struct", 4, False), ("chain", 6, False), ("ode", 3, True), ("ode1", 4, True)],
}


def shards(tier):
    out = []
    for kind, maxlen, with_ode in PLANS[tier]:
        short, pref = prefixes(kind, maxlen, with_ode, depth=2)
        out.append(("list", kind, maxlen, with_ode, short))
        for p in pref:
            out.append(("ext", kind, maxlen, with_ode, p))
    out.append(("models", None, 0, False, None))
    return out


def _iter_shard(shard):
    mode, kind, maxlen, with_ode, arg = shard
    if mode == "list":
        yield from arg
    elif mode == "ext":
        yield from extensions(kind, maxlen, arg, with_ode)


def run_shard(shard, tier):
    res = {"states": 0, "transitions": 0, "evaluations": 0, "distinct_nontrivial": 0,
           "violations": [], "samples": [], "outcomes": {}, "traces_validated_against_impl": 0}
    if shard[0] == "models":
        for prog, lay in model_cases():
            res["states"] += 1
            res["evaluations"] += 1
            res["traces_validated_against_impl"] += 1
            fails = check_model_case(prog, lay)
            for f in fails:
                res["violations"].append({"kind": "model", "program": prog, "layout": lay, "program_text": fmt(prog),
                                          "what": f["what"], "class": f["what"][:60], "query": f["query"]})
        return res
    for prog in _iter_shard(shard):
        res["states"] += 1
        res["transitions"] += 1  # the append step that reached this prefix
        res["evaluations"] += 1
        res["traces_validated_against_impl"] += 1
        if nontrivial(prog):
            res["distinct_nontrivial"] += 1
        fails = check_program(prog)
        if not fails:
            res["outcomes"]["ok"] = res["outcomes"].get("ok", 0) + 1
        for f in fails:
            key = "fail:" + f["query"]
            res["outcomes"][key] = res["outcomes"].get(key, 0) + 1
            if len(res["violations"]) < 200:
                res["violations"].append({"kind": "program", "program": prog, "program_text": fmt(prog),
                                          "query": f["query"], "what": f"[{fmt(prog)}] {f['what']}",
                                          "class": f["query"]})
        if res["states"] % 997 == 1 and len(res["samples"]) < 2:
            res["samples"].append(fmt(prog))
    return res


def _tuplify(x):
    if isinstance(x, list):
        return tuple(_tuplify(y) for y in x)
    return x


def replay(w):
    if w["kind"] == "model":
        prog = [_tuplify(s) for s in w["program"]]
        return [f["what"] for f in check_model_case(prog, w["layout"])]
    prog = [_tuplify(s) for s in w["program"]]
    return [f["what"] for f in check_program(prog) if f["query"] == w.get("query", f["query"])]


def classify(w):
    return None
